"""C01 / C02 / C03 - value-level UNIT and TYPE conversions between pandas dtypes and Parquet physical + logical types.

Functions (real source of the tree under check, re-read on every run):
  writer.convert, writer.time_shift                      symbolic (ast -> VC), ONE ARBITRARY ARRAY ELEMENT, all int64 inputs
  converted_types.convert, _logical_to_time_dtype        symbolic, one arbitrary element of the physical array
  cencoding.time_shift (cdef/cpdef kernel, .pyx)         symbolic through contracts/cy.py, loop by invariant (all lengths < 2**31)
  writer.find_type, converted_types.typemap              EXECUTED on the finite dtype / annotation table (enumeration, not SMT)
  module tables writer.typemap / revmap / time_factors / pdoptional_to_numpy_typemap, converted_types.simple / complex /
  DAYS_TO_NANOS / nat                                    their values are those of the module of the tree under check

How the symbolic part works ("concolic"): everything that is NOT a value of the column is concrete and is evaluated by Python
itself on the real objects (the pandas / numpy dtype of the column, the SchemaElement find_type returned, module tables): `Con`.
A numpy array is `NArr`: concrete dtype + ONE arbitrary element as an SMT integer (mathematical value; floats: a real - rounding
is NOT modelled).  Every operation the code performs on arrays is pointwise (view, astype, * // % + -, ==, np.where, field
access, slice assignment), so the element of the result depends on the same element of the inputs only.  Integer operations wrap
modulo 2**bits (numpy); each place where the mathematical result may not fit is recorded as an EVENT on the path.

Postconditions are written from the Parquet LogicalTypes specification, not from the code:
  MILLIS = 1e-3 s, MICROS = 1e-6 s, NANOS = 1e-9 s; TIMESTAMP_*/TIMESTAMP(unit): INT64 count of units since 1970-01-01 (UTC when
  isAdjustedToUTC); DATE: INT32 days since epoch; TIME_MILLIS: INT32 ms, TIME_MICROS: INT64 us; INT96 (deprecated timestamp): 8
  bytes nanoseconds of the day little endian + 4 bytes Julian day, epoch = Julian day 2440588; (U)INT_n: INT32 / INT64 holding a
  value of the annotated width, unsigned ones as the unsigned reading of the same bits; DECIMAL: unscaled * 10**-scale.

Obligations
  writer side, per dtype row D of the writer table (C01, C02):
    find_type.annotation_is_valid[D]                 the SchemaElement is a legal annotation of its physical type (table of the spec;
                                                     converted and logical type agree; isAdjustedToUTC <=> tz-aware; type_length)
    find_type.annotation_matches_written_unit[D]     the value written by writer.convert, read per the annotation, IS the cell's value
                                                     (instant / duration in ns, integer, real) - exactly; where the annotated unit
                                                     is coarser than the dtype's: floor to that unit (stated in the detail)
    units.no_silent_wrap[D]                          for ALL int64 inputs (NaT sentinel included): the write raises, or no
                                                     integer operation wrapped / narrowed, or the NaT sentinel went through unchanged
    units.roundtrip[D]                  (C01 only)   converted_types.convert(bytes written) in the dtype typemap announces denotes
                                                     the same value, for every value representable in both
  reader side, per (physical, converted, logical) row R (C03):
    convert.value_means_annotation[R]                the value returned means what the annotation says, in the dtype typemap announces
    convert.no_silent_wrap[R]                        for ALL physical values of a valid file: raises, or nothing wrapped
    convert.unsupported_annotation_returns_raw[R]    annotations the reader does not implement give back the raw physical values
  text.bytes_written_are_utf8_of_cell[D]  (C01, C02, C11)   text / bytes / JSON rows: encode_plain(cells) is, for each cell, le32(byte length) ++ EXACTLY
                                                     the UTF-8 encoding of the cell (bytes: the cell) - executed on values with trailing / leading /
                                                     interior NULs, spaces, 2-4 byte UTF-8, empty, all-zero bytes
  time_factors.entry_is_unit_ratio[A,U]              every entry of writer.time_factors that find_type can select is (ns per U) / (ns per A)
  revmap.entry_is_physical_dtype[T], pdoptional_to_numpy_typemap.entry_preserves_kind_and_width[E]      (executed, one per entry)
  cencoding.time_shift.*                             the kernel multiplies every element != NaT by factor (mod 2**64) in place, touches
                                                     nothing else, stays inside the buffer   (cut: used by the TIME_MILLIS rows)
  units.model_agrees_with_native[..]                 the numpy model used above reproduces the native result on boundary values
                                                     (translation validation of the ASSUMED numpy semantics; executed)
Rows whose values are not integers / floats (text, bytes, JSON, BSON, bool bit packing, DECIMAL over byte arrays) are decided by
EXECUTED ENUMERATION on boundary values: complete for the finite table, bounded in the value dimension - the detail says so.
"""
import ast
import fractions
import itertools
import operator
import os
import time
import warnings

import numpy as np
import z3

from vc import backends, front_cy
from vc.front_py import parse_module
from vc.symexec import (Engine, Path, PyI, PyB, Str, Tup, Custom, Opaque, NONE, NoneV, Unsupported, LoopSpec, CI, View, Ptr)
from vlib.common import PROVED, REFUTED, UNKNOWN, REPO
from .util import Results, solve
from . import cy

ASSUMED = [
    "numpy semantics of the array operations the code uses (validated on boundary values by units.model_agrees_with_native): "
    "view() reinterprets the same bytes (datetime64/timedelta64 <-> int64: the count, NaT = int64 min); integer * // % + - are "
    "pointwise in the NEP-50 result dtype and wrap modulo 2**bits without an exception; // and % by a positive constant are floor "
    "division / non-negative remainder; astype between integer dtypes is the C conversion (modulo 2**bits); float16 -> float32 -> "
    "float64 are exact; np.where is a pointwise select; a[:] = b and a['f'] = b cast like astype; tobytes() is little endian",
    "pandas: Series.values of a tz-aware datetime column is the UTC instant as datetime64[unit]; of a nullable extension column "
    "without missing cells the values in the numpy dtype of pdoptional_to_numpy_typemap (nulls are dropped by make_definitions "
    "before convert; has_nulls=False is the caller's promise)",
    "floating point: a float result is modelled as the exact real number (rounding is NOT modelled): DECIMAL scale factors are "
    "compared with 10**-scale up to one unit in the last place of the factor; int64 / 2**53 rounding of products is assumed away",
    "two's complement: bit-vector multiplication modulo 2**64 of the kernel is the wrapped integer product of the Python-level model",
    "NaT: the int64 minimum is the null sentinel of datetime64 / timedelta64 (not a value); a REQUIRED column may still contain "
    "it (has_nulls=False / 'infer'): it must then be written as the sentinel (fastparquet's reader restores NaT) or the write raises",
    "TIME_MICROS / TIME_MILLIS are used for durations (timedelta64) as fastparquet documents; the spec's time-of-day range "
    "[0, 24h) is not enforced and not required here",
    "find_type / typemap are EXECUTED on the finite table of the tree under check (imported at run time), not proved symbolically",
    "valid foreign file (C03 precondition): INT96 nanoseconds-of-day in [0, 86400e9); a value stored under (U)INT_n is within the "
    "annotated range (LogicalTypes: otherwise undefined); DECIMAL scale >= 0",
]

# ---- Parquet LogicalTypes.md ------------------------------------------------------------------------------------------------
UNIT_NS = {"s": 10 ** 9, "ms": 10 ** 6, "us": 10 ** 3, "ns": 1}
SPEC_UNIT_NS = {"MILLIS": 10 ** 6, "MICROS": 10 ** 3, "NANOS": 1}
DAY_NS = 86400 * 10 ** 9
JULIAN_EPOCH = 2440588
I64_MIN, I64_MAX = -2 ** 63, 2 ** 63 - 1
NAT = I64_MIN
# converted type -> physical types it may annotate (flat leaves)
VALID = {
    None: ["BOOLEAN", "INT32", "INT64", "INT96", "FLOAT", "DOUBLE", "BYTE_ARRAY", "FIXED_LEN_BYTE_ARRAY"],
    "UTF8": ["BYTE_ARRAY"], "ENUM": ["BYTE_ARRAY"], "JSON": ["BYTE_ARRAY"], "BSON": ["BYTE_ARRAY"],
    "DECIMAL": ["INT32", "INT64", "FIXED_LEN_BYTE_ARRAY", "BYTE_ARRAY"],
    "DATE": ["INT32"], "TIME_MILLIS": ["INT32"], "TIME_MICROS": ["INT64"],
    "TIMESTAMP_MILLIS": ["INT64"], "TIMESTAMP_MICROS": ["INT64"],
    "UINT_8": ["INT32"], "UINT_16": ["INT32"], "UINT_32": ["INT32"], "UINT_64": ["INT64"],
    "INT_8": ["INT32"], "INT_16": ["INT32"], "INT_32": ["INT32"], "INT_64": ["INT64"],
    "INTERVAL": ["FIXED_LEN_BYTE_ARRAY"],
}
# deprecated converted type <-> logical TIMESTAMP unit (compatibility table; NANOS has no converted type)
TS_CONVERTED = {"MILLIS": "TIMESTAMP_MILLIS", "MICROS": "TIMESTAMP_MICROS", "NANOS": None}
PHYS_DT = {"INT32": "<i4", "INT64": "<i8", "FLOAT": "<f4", "DOUBLE": "<f8", "INT96": [("ns", "<i8"), ("day", "<i4")]}
PHYS_BITS = {"BOOLEAN": 1, "INT32": 32, "INT64": 64, "INT96": 96, "FLOAT": 32, "DOUBLE": 64}

_cnt = itertools.count()


def rng_of(dt):
    b = dt.itemsize * 8
    if dt.kind in "iMm":
        return -(1 << (b - 1)), (1 << (b - 1)) - 1
    if dt.kind == "u":
        return 0, (1 << b) - 1
    if dt.kind == "b":
        return 0, 1
    raise Unsupported(f"range of dtype {dt}")


def wrap(x, lo, hi):
    m = hi - lo + 1
    return ((x - lo) % m) + lo


def intlike(dt):
    return dt.kind in "iuMmb" and dt.names is None


# ---- concrete values ---------------------------------------------------------------------------------------------------------
class NotConcrete(Exception):
    pass


def lift(x):
    if x is None:
        return NONE
    if isinstance(x, (bool, np.bool_)):
        return PyB(bool(x))
    if isinstance(x, int) and not isinstance(x, np.generic):
        return PyI(x, lit=True)
    if isinstance(x, str):
        return Str(x)
    if isinstance(x, tuple):
        return Tup([lift(i) for i in x])
    if isinstance(x, list):
        return Tup([lift(i) for i in x], True)
    return Custom(Con(x))


def lower(v):
    if isinstance(v, NoneV):
        return None
    if isinstance(v, PyB):
        s = z3.simplify(v.z)
        if z3.is_true(s):
            return True
        if z3.is_false(s):
            return False
        raise NotConcrete("symbolic bool")
    if isinstance(v, PyI):
        s = z3.simplify(v.z)
        if z3.is_int_value(s):
            return s.as_long()
        raise NotConcrete("symbolic int")
    if isinstance(v, Str):
        return v.s
    if isinstance(v, Tup):
        items = [lower(i) for i in v.items]
        return items if v.is_list else tuple(items)
    if isinstance(v, Custom) and isinstance(v.h, Con):
        return v.h.obj
    if isinstance(v, Custom) and isinstance(v.h, SliceAll):
        return slice(None)
    raise NotConcrete(type(v).__name__ + (":" + type(v.h).__name__ if isinstance(v, Custom) else ""))


def raise_path(p, exc, node=None):
    p.ctl = ("raise", exc if isinstance(exc, str) else type(exc).__name__)
    p.ghost["raised_detail"] = str(exc)[:200]
    p.trace.append(("raise", getattr(node, "lineno", 0)))
    return Opaque("raised")


def native(p, fn, args, kw, node, what):
    """call a Python callable on lowered arguments; an exception of the real call is a raising path"""
    try:
        a = [lower(x) for x in args]
        k = {n: lower(x) for n, x in kw.items()}
    except NotConcrete as ex:
        raise Unsupported(f"{what}: argument is not concrete ({ex})")
    try:
        with warnings.catch_warnings():
            warnings.simplefilter("ignore")
            return lift(fn(*a, **k))
    except Exception as ex:         # the real operation raises: so does the code
        return raise_path(p, ex, node)


class SliceAll:
    tracked = False


class Con:
    """a concrete Python object of the run (dtype, SchemaElement, module table, numpy scalar ...): operations are Python's own"""
    tracked = False

    def __init__(self, obj):
        self.obj = obj

    def attr(self, eng, p, name):
        try:
            return lift(getattr(self.obj, name))
        except AttributeError as ex:
            return raise_path(p, ex)

    def call_method(self, eng, p, name, args, kw, node):
        if p.ctl is not None:
            return [(p, Opaque("dead"))]
        if self.obj is np and name in NP_MODEL and any(is_narr(a) for a in list(args) + list(kw.values())):
            return NP_MODEL[name](eng, p, args, kw, node)
        if self.obj is np and name == "empty":
            return NP_MODEL["empty"](eng, p, args, kw, node)
        try:
            fn = getattr(self.obj, name)
        except AttributeError as ex:
            return [(p, raise_path(p, ex, node))]
        return [(p, native(p, fn, args, kw, node, f"{type(self.obj).__name__}.{name}"))]

    def getitem(self, eng, p, i, node):
        try:
            k = lower(i)
        except NotConcrete as ex:
            raise Unsupported(f"subscript of a concrete {type(self.obj).__name__} with a symbolic key ({ex})")
        try:
            return lift(self.obj[k])
        except Exception as ex:
            return raise_path(p, ex, node)

    def contains(self, eng, p, item):
        try:
            return z3.BoolVal(bool(lower(item) in self.obj))
        except NotConcrete as ex:
            raise Unsupported(f"`in` a concrete {type(self.obj).__name__} with a symbolic item ({ex})")

    def eq(self, eng, p, other):
        try:
            o = lower(other)
        except NotConcrete as ex:
            raise Unsupported(f"== between a concrete {type(self.obj).__name__} and a symbolic value ({ex})")
        with warnings.catch_warnings():
            warnings.simplefilter("ignore")
            return z3.BoolVal(bool(self.obj == o))

    def truth(self, eng, p):
        return z3.BoolVal(bool(self.obj))

    def is_none(self, eng, p):
        return z3.BoolVal(False)

    def len(self, eng, p):
        return PyI(len(self.obj), lit=True)

    def iterate(self, eng, p):
        return [lift(x) for x in self.obj]

    def isinstance(self, eng, p, tn):
        t = {"list": list, "dict": dict, "str": str, "int": int, "tuple": tuple, "bytes": bytes}.get(tn)
        if t is None:
            raise Unsupported("isinstance(concrete, " + tn + ")")
        return z3.BoolVal(isinstance(self.obj, t))

    def to_int(self, eng, p):
        if isinstance(self.obj, (int, np.integer)):
            return PyI(int(self.obj), lit=True)
        raise Unsupported("int of " + type(self.obj).__name__)


# ---- numpy arrays: concrete dtype, one arbitrary element ------------------------------------------------------------------------
def is_narr(v):
    return isinstance(v, Custom) and isinstance(v.h, NArr)


def buf_new(p, dt, val):
    k = next(_cnt)
    p.ghost.setdefault("bufs", {})[k] = (dt, val)
    return k


def event(p, label, ok, value=None):
    p.ghost.setdefault("events", []).append((label, ok, value))


def reinterpret(e, sdt, vdt):
    """the element of a buffer stored as sdt seen through a view of dtype vdt (same item size)"""
    if sdt == vdt or sdt.kind == "f" or vdt.kind == "f":
        if sdt.kind == "f" and vdt.kind == "f" and sdt.itemsize == vdt.itemsize:
            return e
        if sdt == vdt:
            return e
        raise Unsupported(f"view {sdt} as {vdt}")
    if not (intlike(sdt) and intlike(vdt) and sdt.itemsize == vdt.itemsize):
        raise Unsupported(f"view {sdt} as {vdt}")
    if sdt.kind == "b" or vdt.kind == "b":
        raise Unsupported("view of / as bool")
    ss, vs = sdt.kind in "iMm", vdt.kind in "iMm"
    if ss == vs:
        return e
    return wrap(e, *rng_of(vdt))


def cast_elem(p, e, sdt, ddt, what):
    """astype / assignment cast of one element; narrowing that loses information is an event"""
    if sdt == ddt:
        return e
    if intlike(sdt) and intlike(ddt) and sdt.kind in "iub" and ddt.kind in "iu":
        lo, hi = rng_of(ddt)
        if ddt.itemsize < sdt.itemsize:
            event(p, f"{what}: {sdt} -> {ddt} narrows", z3.And(e >= lo, e <= hi), e)
        slo, shi = rng_of(sdt)
        if lo <= slo and shi <= hi:
            return e
        return wrap(e, lo, hi)
    if sdt.kind == "f" and ddt.kind == "f":
        if ddt.itemsize < sdt.itemsize:
            event(p, f"{what}: {sdt} -> {ddt} loses precision", z3.BoolVal(False))
        return e
    if sdt.kind in "iub" and ddt.kind == "f":
        # exact below the mantissa; above it the nearest float is taken silently: flagged (conservatively: some larger integers are
        # representable - a native replay on 2**mant + 1 decides)
        mant = {2: 11, 4: 24, 8: 53}[ddt.itemsize]
        if max(abs(x) for x in rng_of(sdt)) > 2 ** mant:
            event(p, f"{what}: {sdt} -> {ddt} rounds integers beyond 2**{mant}", z3.And(e >= -2 ** mant, e <= 2 ** mant), e)
        return z3.ToReal(e)
    if sdt.kind == "f" and ddt.kind in "iu":
        # numpy: truncation toward zero, undefined for NaN / out of range: exact only for an integral value inside the target range
        lo, hi = rng_of(ddt)
        r = z3.Int(f"f2i!{next(_cnt)}")
        p.pc += [r >= lo, r <= hi]
        exact = z3.And(z3.IsInt(e), e >= lo, e <= hi)
        p.pc.append(z3.Implies(exact, z3.ToReal(r) == e))
        event(p, f"{what}: {sdt} -> {ddt} truncates / overflows", exact, e)
        return r
    raise Unsupported(f"{what}: cast {sdt} -> {ddt}")


class NArr:
    tracked = False

    def __init__(self, buf, dt, n, field=None):
        self.buf, self.dt, self.n, self.field = buf, np.dtype(dt), n, field

    # -- element access
    def load(self, p):
        sdt, val = p.ghost["bufs"][self.buf]
        if self.field is not None:
            for name, fdt, e in val:
                if name == self.field:
                    return reinterpret(e, fdt, self.dt)
            raise Unsupported("no field " + self.field)
        if sdt.names is not None:
            if self.dt.names is not None or self.dt.kind in "SV":
                return val            # the fields
            raise Unsupported(f"structured buffer viewed as {self.dt}")
        return reinterpret(val, sdt, self.dt)

    def store(self, p, e):
        sdt, val = p.ghost["bufs"][self.buf]
        bufs = dict(p.ghost["bufs"])
        if self.field is not None:
            new = tuple((name, fdt, reinterpret(e, self.dt, fdt) if name == self.field else old) for name, fdt, old in val)
            bufs[self.buf] = (sdt, new)
        else:
            if sdt.names is not None:
                raise Unsupported("whole-record store")
            bufs[self.buf] = (sdt, reinterpret(e, self.dt, sdt))
        p.ghost["bufs"] = bufs

    # -- protocol
    def attr(self, eng, p, name):
        if name == "dtype":
            return Custom(Con(self.dt))
        if name == "itemsize":
            return PyI(self.dt.itemsize, lit=True)
        if name == "values":
            return Custom(self)
        raise Unsupported("ndarray." + name)

    def len(self, eng, p):
        return PyI(self.n)

    def is_none(self, eng, p):
        return z3.BoolVal(False)

    def isinstance(self, eng, p, tn):
        return z3.BoolVal("ndarray" in tn)

    def truth(self, eng, p):
        raise Unsupported("truth value of an array")

    def call_method(self, eng, p, name, args, kw, node):
        if p.ctl is not None:
            return [(p, Opaque("dead"))]
        if name == "view" and len(args) == 1 and not kw:
            try:
                dt2 = np.dtype(lower(args[0]))
                probe = np.empty(1, self.dt).view(dt2)
            except NotConcrete as ex:
                raise Unsupported(f"view: {ex}")
            except Exception as ex:
                return [(p, raise_path(p, ex, node))]
            if probe.shape != (1,):
                raise Unsupported(f"view {self.dt} as {dt2}: item sizes differ")
            if self.field is not None:
                if dt2.names is not None:
                    raise Unsupported("structured view of a field")
                return [(p, Custom(NArr(self.buf, dt2, self.n, self.field)))]
            return [(p, Custom(NArr(self.buf, dt2, self.n)))]
        if name == "astype" and len(args) == 1:
            try:
                dt2 = np.dtype(lower(args[0]))
                copy = lower(kw["copy"]) if "copy" in kw else True
                with warnings.catch_warnings(), np.errstate(all="ignore"):
                    warnings.simplefilter("ignore")
                    np.zeros(1, self.dt).astype(dt2)
            except NotConcrete as ex:
                raise Unsupported(f"astype: {ex}")
            except Exception as ex:
                return [(p, raise_path(p, ex, node))]
            if set(kw) - {"copy"}:
                raise Unsupported("astype keywords")
            if dt2 == self.dt and not copy:
                return [(p, Custom(self))]
            e = self.load(p)
            if isinstance(e, tuple):
                raise Unsupported("astype of records")
            e2 = cast_elem(p, e, self.dt, dt2, f"astype@L{node.lineno}")
            return [(p, Custom(NArr(buf_new(p, dt2, e2), dt2, self.n)))]
        raise Unsupported(f"ndarray.{name}")

    def getitem(self, eng, p, i, node):
        if isinstance(i, Str) and self.dt.names is not None and i.s in self.dt.names and self.field is None:
            return Custom(NArr(self.buf, self.dt.fields[i.s][0], self.n, i.s))
        if isinstance(i, Custom) and isinstance(i.h, SliceAll):
            return Custom(self)
        raise Unsupported("array subscript")

    def setitem(self, eng, p, i, v, node):
        if p.ctl is not None:
            return
        tgt = self
        if isinstance(i, Str) and self.dt.names is not None and i.s in self.dt.names and self.field is None:
            tgt = NArr(self.buf, self.dt.fields[i.s][0], self.n, i.s)
        elif not (isinstance(i, Custom) and isinstance(i.h, SliceAll)):
            raise Unsupported("array store subscript")
        if not is_narr(v):
            raise Unsupported("array store of a non-array")
        e = v.h.load(p)
        if isinstance(e, tuple) or not (intlike(v.h.dt) and intlike(tgt.dt)):
            if v.h.dt == tgt.dt and not isinstance(e, tuple):
                tgt.store(p, e)
                return
            raise Unsupported(f"array store {v.h.dt} -> {tgt.dt}")
        sd, dd = v.h.dt, tgt.dt
        if sd.kind in "Mm" or dd.kind in "Mm":
            if sd != dd:
                raise Unsupported(f"array store {sd} -> {dd}")
            tgt.store(p, e)
            return
        tgt.store(p, cast_elem(p, e, sd, dd, f"store@L{node.lineno}"))


OPS = {ast.Add: operator.add, ast.Sub: operator.sub, ast.Mult: operator.mul, ast.FloorDiv: operator.floordiv, ast.Mod: operator.mod,
       ast.Pow: operator.pow, ast.Div: operator.truediv, ast.LShift: operator.lshift, ast.RShift: operator.rshift,
       ast.BitOr: operator.or_, ast.BitAnd: operator.and_, ast.BitXor: operator.xor}


def _operand(p, v):
    """-> (dummy for numpy's own dtype computation, dtype or None, element term or python number)"""
    if is_narr(v):
        e = v.h.load(p)
        if isinstance(e, tuple):
            raise Unsupported("arithmetic on records")
        return np.zeros(1, v.h.dt), v.h.dt, e
    try:
        x = lower(v)
    except NotConcrete as ex:
        raise Unsupported(f"array arithmetic with a symbolic scalar ({ex})")
    if isinstance(x, (bool, int, float, np.integer, np.floating)):
        return x, None, x
    raise Unsupported("array arithmetic with " + type(x).__name__)


def _as_num(e, dt, rdt):
    """element / python number as a term of the result dtype's sort"""
    if rdt.kind == "f":
        if z3.is_expr(e):
            return z3.ToReal(e) if e.sort() == z3.IntSort() else e
        fr = fractions.Fraction(float(e)) if isinstance(e, (float, np.floating)) else fractions.Fraction(int(e))
        return z3.Q(fr.numerator, fr.denominator)
    if z3.is_expr(e):
        return e
    return z3.IntVal(int(e))


def arith(eng, p, op, a, b, node):
    if p.ctl is not None:
        return Opaque("dead")
    da, adt, ea = _operand(p, a)
    db, bdt, eb = _operand(p, b)
    f = OPS.get(type(op))
    if f is None:
        raise Unsupported("array operator " + type(op).__name__)
    try:
        with warnings.catch_warnings(), np.errstate(all="ignore"):
            warnings.simplefilter("ignore")
            rdt = f(da, db).dtype
    except Exception as ex:
        return raise_path(p, ex, node)
    for dt in (adt, bdt):
        if dt is not None and (dt.kind in "Mm" or not np.can_cast(dt, rdt, "safe")):
            raise Unsupported(f"array arithmetic {adt} {type(op).__name__} {bdt} -> {rdt}")
    n = a.h.n if is_narr(a) else b.h.n
    x, y = _as_num(ea, adt, rdt), _as_num(eb, bdt, rdt)
    what = f"{type(op).__name__}@L{node.lineno}"
    if rdt.kind == "f":
        if isinstance(op, ast.Mult):
            r = x * y
        elif isinstance(op, ast.Add):
            r = x + y
        elif isinstance(op, ast.Sub):
            r = x - y
        elif isinstance(op, ast.Div):
            r = x / y
        else:
            raise Unsupported("float array " + type(op).__name__)
        return Custom(NArr(buf_new(p, rdt, r), rdt, n))
    if rdt.kind not in "iu":
        raise Unsupported(f"array arithmetic result {rdt}")
    lo, hi = rng_of(rdt)
    if isinstance(op, (ast.Add, ast.Sub, ast.Mult)):
        m = x + y if isinstance(op, ast.Add) else x - y if isinstance(op, ast.Sub) else x * y
        event(p, f"{what}: {rdt} result", z3.And(m >= lo, m <= hi), m)
        r = wrap(m, lo, hi)
    elif isinstance(op, (ast.FloorDiv, ast.Mod)):
        sy = z3.simplify(y)
        if not (z3.is_int_value(sy) and sy.as_long() > 0):
            raise Unsupported("array // or % by something else than a positive constant")
        r = x / y if isinstance(op, ast.FloorDiv) else x % y          # z3: floor / non-negative remainder for a positive divisor
    else:
        raise Unsupported("integer array " + type(op).__name__)
    return Custom(NArr(buf_new(p, rdt, z3.simplify(r)), rdt, n))


def compare_arr(eng, p, op, a, b, node):
    if p.ctl is not None:
        return Opaque("dead")
    da, adt, ea = _operand(p, a)
    db, bdt, eb = _operand(p, b)
    if not isinstance(op, (ast.Eq, ast.NotEq)):
        raise Unsupported("array comparison " + type(op).__name__)
    for dt in (adt, bdt):
        if dt is not None and not intlike(dt):
            raise Unsupported(f"array comparison on {dt}")
    with warnings.catch_warnings():
        warnings.simplefilter("ignore")
        try:
            (da == db)
        except Exception as ex:
            return raise_path(p, ex, node)
    x = ea if z3.is_expr(ea) else z3.IntVal(int(ea))
    y = eb if z3.is_expr(eb) else z3.IntVal(int(eb))
    c = x == y if isinstance(op, ast.Eq) else x != y
    n = a.h.n if is_narr(a) else b.h.n
    dt = np.dtype(bool)
    return Custom(NArr(buf_new(p, dt, z3.If(c, 1, 0)), dt, n))


def np_where(eng, p, args, kw, node):
    if len(args) != 3 or kw or not is_narr(args[0]) or args[0].h.dt != np.dtype(bool):
        raise Unsupported("np.where shape")
    c = args[0].h.load(p)
    da, adt, ea = _operand(p, args[1])
    db, bdt, eb = _operand(p, args[2])
    try:
        rdt = np.where(np.zeros(1, bool), da, db).dtype
    except Exception as ex:
        return [(p, raise_path(p, ex, node))]
    for dt in (adt, bdt):
        if dt is not None and not np.can_cast(dt, rdt, "safe"):
            raise Unsupported(f"np.where: {dt} -> {rdt}")
    if rdt.kind not in "iu":
        raise Unsupported(f"np.where result {rdt}")
    r = z3.If(c != 0, _as_num(ea, adt, rdt), _as_num(eb, bdt, rdt))
    return [(p, Custom(NArr(buf_new(p, rdt, r), rdt, args[0].h.n)))]


def np_empty(eng, p, args, kw, node):
    if not args:
        raise Unsupported("np.empty()")
    dtv = kw.get("dtype", args[1] if len(args) > 1 else None)
    try:
        dt = np.dtype(lower(dtv)) if dtv is not None else np.dtype(float)
    except NotConcrete as ex:
        raise Unsupported(f"np.empty dtype: {ex}")
    n = eng.as_int(args[0], p)
    k = next(_cnt)
    if dt.names is not None:
        val = []
        for name in dt.names:
            fdt = dt.fields[name][0]
            e = z3.Int(f"uninit_{name}!{k}")
            lo, hi = rng_of(fdt)
            p.pc += [e >= lo, e <= hi]
            val.append((name, fdt, e))
        return [(p, Custom(NArr(buf_new(p, dt, tuple(val)), dt, n)))]
    if intlike(dt):
        e = z3.Int(f"uninit!{k}")
        lo, hi = rng_of(dt)
        p.pc += [e >= lo, e <= hi]
    elif dt.kind == "f":
        e = z3.Real(f"uninit!{k}")
    else:
        raise Unsupported(f"np.empty of {dt}")
    return [(p, Custom(NArr(buf_new(p, dt, e), dt, n)))]


NP_MODEL = {"where": np_where, "empty": np_empty}


class SeriesM:
    """pandas Series: the real dtype object of a sample series + the values as an NArr"""
    tracked = False

    def __init__(self, ser0, values):
        self.ser0, self.values = ser0, values

    def attr(self, eng, p, name):
        if name == "dtype":
            return lift(self.ser0.dtype)
        if name == "values":
            return Custom(self.values)
        if name == "name":
            return lift(self.ser0.name)
        raise Unsupported("Series." + name)

    def len(self, eng, p):
        return PyI(self.values.n)

    def is_none(self, eng, p):
        return z3.BoolVal(False)

    def isinstance(self, eng, p, tn):
        return z3.BoolVal("Series" in tn)

    def call_method(self, eng, p, name, args, kw, node):
        raise Unsupported("Series." + name)


# ---- engine ---------------------------------------------------------------------------------------------------------------------
def h_getattr(eng, p, args, kw, node):
    o, name = args[0], lower(args[1])
    if isinstance(o, Custom) and isinstance(o.h, Con):
        if len(args) > 2:
            return [(p, lift(getattr(o.h.obj, name, lower(args[2]))))]
        return [(p, o.h.attr(eng, p, name))]
    if isinstance(o, NoneV):
        if len(args) > 2:
            return [(p, args[2])]
        return [(p, raise_path(p, "AttributeError", node))]
    if isinstance(o, Custom):
        return [(p, o.h.attr(eng, p, name))]
    raise Unsupported("getattr of " + type(o).__name__)


def h_str(eng, p, args, kw, node):
    return [(p, native(p, str, args, kw, node, "str()"))]


class UEngine(Engine):
    """Engine + concrete folding (Con) + pointwise numpy model (NArr); globals of the module under execution are those of the
    imported module of the tree under check"""

    def __init__(self, funcs, module, handlers=None):
        h = {"getattr": h_getattr, "str": h_str}
        h.update(handlers or {})
        super().__init__(funcs=funcs, handlers=h, inline=("*",), opaque_calls=False)
        self.module = module

    def e_Name(self, e, p):
        if e.id in p.env or e.id in self.funcs or e.id in self.handlers or e.id in ("True", "False"):
            return super().e_Name(e, p)
        if hasattr(self.module, e.id):
            return [(p, lift(getattr(self.module, e.id)))]
        return super().e_Name(e, p)

    def e_Constant(self, e, p):
        if isinstance(e.value, float):
            return [(p, Custom(Con(e.value)))]
        return super().e_Constant(e, p)

    def e_Slice(self, e, p):
        if e.lower is None and e.upper is None and e.step is None:
            return [(p, Custom(SliceAll()))]
        raise Unsupported("bare slice with bounds")

    def e_JoinedStr(self, e, p):
        parts = []
        for v in e.values:
            if isinstance(v, ast.Constant):
                parts.append(str(v.value))
            elif isinstance(v, ast.FormattedValue) and v.format_spec is None and v.conversion == -1:
                try:
                    parts.append(format(lower(self.ev1(v.value, p))))
                except NotConcrete as ex:
                    raise Unsupported(f"f-string over a symbolic value ({ex})")
            else:
                raise Unsupported("f-string shape")
        return [(p, Str("".join(parts)))]

    def slice(self, o, sl, p, node):
        if isinstance(o, Str) and sl.step is None:
            lo = lower(self.ev1(sl.lower, p)) if sl.lower is not None else None
            hi = lower(self.ev1(sl.upper, p)) if sl.upper is not None else None
            return [(p, Str(o.s[lo:hi]))]
        return super().slice(o, sl, p, node)

    def load_sub(self, o, i, p, node):
        if isinstance(o, Str):
            return Str(o.s[lower(i)])
        return super().load_sub(o, i, p, node)

    def binop(self, op, a, b, p, node):
        if p.ctl is not None:
            return Opaque("dead")
        if is_narr(a) or is_narr(b):
            return arith(self, p, op, a, b, node)
        try:
            x, y = lower(a), lower(b)
        except NotConcrete:
            return super().binop(op, a, b, p, node)
        f = OPS.get(type(op))
        if f is None:
            return super().binop(op, a, b, p, node)
        try:
            return lift(f(x, y))
        except Exception as ex:
            return raise_path(p, ex, node)

    def e_UnaryOp(self, e, p):
        if isinstance(e.op, ast.USub):
            out = []
            for q, v in self.ev(e.operand, p):
                try:
                    out.append((q, lift(-lower(v))))
                except NotConcrete:
                    return super().e_UnaryOp(e, p)
            return out
        return super().e_UnaryOp(e, p)

    def e_Compare(self, e, p):
        if len(e.ops) == 1:
            out = []
            for q, a in self.ev(e.left, p):
                for r, b in self.ev(e.comparators[0], q):
                    if is_narr(a) or is_narr(b):
                        out.append((r, compare_arr(self, r, e.ops[0], a, b, e)))
                    else:
                        out.append((r, PyB(self.compare(e.ops[0], a, b, r, e))))
            return out
        return super().e_Compare(e, p)

    def e_Call(self, e, p):
        fn = e.func
        if p.ctl is not None:
            return [(p, Opaque("dead"))]
        if isinstance(fn, ast.Attribute):
            out = []
            for q, o in self.ev(fn.value, p):
                for r, (args, kw) in self.ev_args(e, q):
                    if r.ctl is not None:
                        out.append((r, Opaque("dead")))
                    elif isinstance(o, Custom):
                        out += o.h.call_method(self, r, fn.attr, args, kw, e)
                    else:
                        try:
                            tgt = getattr(lower(o), fn.attr)
                        except NotConcrete as ex:
                            raise Unsupported(f"method .{fn.attr} of a symbolic {type(o).__name__} ({ex}) L{e.lineno}")
                        except AttributeError as ex:
                            out.append((r, raise_path(r, ex, e)))
                            continue
                        out.append((r, native(r, tgt, args, kw, e, "." + fn.attr)))
            return out
        if isinstance(fn, ast.Name) and fn.id not in p.env and fn.id not in self.funcs and fn.id not in self.handlers \
                and hasattr(self.module, fn.id) and fn.id not in ("len", "isinstance", "range"):
            # a callable global of the module (np.int64 through `from numpy import ...` style names, helper functions):
            # only on concrete arguments
            out = []
            for r, (args, kw) in self.ev_args(e, p):
                out.append((r, native(r, getattr(self.module, fn.id), args, kw, e, fn.id)))
            return out
        return super().e_Call(e, p)


# ---- the Cython kernel cencoding.time_shift ---------------------------------------------------------------------------------------
def _elem64(mem, off):
    return z3.Concat(*[z3.Select(mem, off + k) for k in reversed(range(8))])


def k_time_shift(ctx, res, timeout, factor_value=1000000):
    """time_shift(const int64_t[::1] data, int32_t factor): for all n < 2**31, all contents, the factor of the only call site"""
    cy.register(ctx, ["time_shift"])
    kname = "__k0_time_shift"
    NATBV = z3.BitVecVal(NAT, 64)

    def f(x, fac):
        return z3.If(x == NATBV, x, x * fac)

    # the invariant is stated at ONE arbitrary item index J and ONE arbitrary byte index IDX outside the items (constants that
    # are never constrained beyond 0 <= J < n): proving it for these proves it for every index, and it is quantifier-free
    J, IDX = z3.Int("J_sk"), z3.Int("IDX_sk")
    ks = []

    def inv(eng, p):
        k = p.env[kname].z
        n, mem0, fac = p.ghost["n"], p.ghost["mem0"], p.ghost["fac"]
        m = p.mem["d"]
        ks.append(k)
        done = z3.Implies(z3.And(0 <= J, J < n),
                          z3.If(J < k, _elem64(m, 8 * J) == f(_elem64(mem0, 8 * J), fac), _elem64(m, 8 * J) == _elem64(mem0, 8 * J)))
        frame = z3.Implies(z3.Or(IDX < 0, IDX >= 8 * n), z3.Select(m, IDX) == z3.Select(mem0, IDX))
        return z3.And(0 <= k, k <= n, p.env["ptr"].off == 8 * k, done, frame)

    loops = {("time_shift", 0): LoopSpec("invariant", inv=inv, modifies=["ptr", "i"], havoc_mem=["d"],
                                         variant=lambda eng, p: p.ghost["n"] - p.env[kname].z)}
    eng = cy.engine(loops=loops)
    p = Path()
    n = z3.Int("n")
    p.pc += [n >= 0, n < 2 ** 31]
    p.mem["d"] = z3.Const("d_mem", cy.MemSort)
    p.rsize["d"] = 8 * n
    data = View("d", z3.IntVal(0), n, (64, True))
    fac_ci = CI(z3.BitVecVal(factor_value, 32), 32, True, z3.IntVal(factor_value), (factor_value, factor_value))
    fac64 = z3.BitVecVal(factor_value, 64)
    mem0 = p.mem["d"]
    p.ghost.update(n=n, mem0=mem0, fac=fac64)
    t0 = time.time()
    try:
        outs = eng.run("time_shift", p, [data, fac_ci])
    except Unsupported as ex:
        res.add("cencoding.time_shift.out_of_reach", UNKNOWN, None, 0.0, "engine", str(ex))
        return False
    ok = True
    for ob in eng.oblig:
        nm = "cencoding.time_shift." + ob.name.split(".", 1)[-1]
        if "invariant_preserved" in ob.name:
            # exhaustive case split on the position of the arbitrary item J relative to the loop counter (J outside the items, J < k, J == k, J > k)
            st, m, secs, be = UNKNOWN, None, 0.0, "z3 (4 cases)"
            k = ks[1] if len(ks) > 1 else z3.IntVal(0)           # the loop counter of the arbitrary (havoc'd) iteration
            inr = z3.And(0 <= J, J < n)
            sts = []
            for case in (z3.Not(inr), z3.And(inr, J < k), z3.And(inr, J == k), z3.And(inr, J > k)):
                s1, m1, t1 = solve(list(ob.pc) + list(ob.axioms) + [case, z3.Not(ob.goal)], min(timeout, 5000))
                secs += t1
                sts.append(s1)
                if s1 == REFUTED:
                    m = m1
                    break
            st = PROVED if (len(sts) == 4 and all(x == PROVED for x in sts)) else REFUTED if REFUTED in sts else UNKNOWN
        else:
            st, be, secs, m = backends.discharge(ob, timeout)
        note = ob.note or ob.kind
        if "invariant" in ob.name:
            note = ("loop invariant at an arbitrary item J and byte IDX: ptr == &data[k]; items before the counter k are scaled by factor "
                    "(mod 2**64; int64 min kept), items from k on and every byte outside the n items are untouched - " + ob.name.rsplit(".", 1)[-1])
        res.add(nm, st, {"n": backends.model_value(m, n)} if m else None, secs, be, note)
        ok = ok and st == PROVED
    j, idx = J, IDX
    n_ret = 0
    for q in outs:
        if q.ctl[0] != "ret":
            res.add("cencoding.time_shift.does_not_raise", REFUTED, None, 0.0, "engine", str(q.ctl))
            ok = False
            continue
        n_ret += 1
        m1 = q.mem["d"]
        for nm, hyp, goal, what in (
                ("element_is_scaled_unless_nat", [0 <= j, j < n], _elem64(m1, 8 * j) == f(_elem64(mem0, 8 * j), fac64),
                 "data'[j] == data[j] * factor (mod 2**64) when data[j] != int64 min, else unchanged - every j < n"),
                ("frame", [z3.Or(idx < 0, idx >= 8 * n)], z3.Select(m1, idx) == z3.Select(mem0, idx), "no byte outside the n items is written")):
            st, m, secs = solve(list(q.pc) + list(q.axioms) + hyp + [z3.Not(goal)], timeout)
            res.add("cencoding.time_shift." + nm, st, {"n": backends.model_value(m, n), "j": backends.model_value(m, j)} if m else None,
                    secs, "z3", what + f" [factor = {factor_value}, the constant of the call site in converted_types.convert]")
            ok = ok and st == PROVED
    if n_ret == 0:
        res.add("cencoding.time_shift.element_is_scaled_unless_nat", UNKNOWN, None, 0.0, "engine", "no returning path")
        ok = False
    res.kernel_secs = time.time() - t0
    return ok


def make_time_shift_handler(state):
    """call-site model of cencoding.time_shift by the contract proved in k_time_shift (cut)"""
    def h(eng, p, args, kw, node):
        if p.ctl is not None:
            return [(p, Opaque("dead"))]
        state["calls"] = state.get("calls", 0) + 1
        if len(args) != 2 or kw or not is_narr(args[0]):
            raise Unsupported("time_shift call shape")
        a = args[0].h
        try:
            fac = lower(args[1])
        except NotConcrete as ex:
            raise Unsupported(f"time_shift factor: {ex}")
        if a.dt != np.dtype("int64"):
            return [(p, raise_path(p, "ValueError", node))]        # Buffer dtype mismatch
        if not (-2 ** 31 <= fac < 2 ** 31):
            return [(p, raise_path(p, "OverflowError", node))]
        state.setdefault("factors", set()).add(fac)
        x = a.load(p)
        m = x * fac
        event(p, f"time_shift@L{node.lineno}: int64 element * {fac}", z3.Or(x == NAT, z3.And(m >= I64_MIN, m <= I64_MAX)), m)
        a.store(p, z3.If(x == NAT, x, wrap(m, I64_MIN, I64_MAX)))
        return [(p, NONE)]
    return h


# ---- facts of a SchemaElement (read natively from the real object) ---------------------------------------------------------------
def se_facts(pt, se):
    d = {"type": pt.Type._VALUES_TO_NAMES.get(se.type, se.type),
         "converted": None if se.converted_type is None else pt.ConvertedType._VALUES_TO_NAMES.get(se.converted_type, se.converted_type),
         "type_length": se.type_length, "scale": se.scale, "precision": se.precision, "logical": None}
    lt = se.logicalType
    if lt is not None:
        for k, v in lt._asdict().items():
            if v is not None:
                if k == "TIMESTAMP" or k == "TIME":
                    unit = [u for u, x in (v.get("unit") or {}).items() if x is not None]
                    d["logical"] = (k, unit[0] if unit else None, v.get("isAdjustedToUTC"))
                else:
                    d["logical"] = (k, None, None)
    return d


def annotation_name(f):
    lg = f["logical"]
    return f"{f['type']},{f['converted'] or '-'},{'-' if lg is None else lg[0] + '(' + str(lg[1]) + ',utc=' + str(lg[2]) + ')'}"


def spec_annotation_valid(f, row):
    """LogicalTypes.md: is this annotation legal for the physical type, and does it describe a column of kind `row`"""
    why = []
    ptn, cv, lg = f["type"], f["converted"], f["logical"]
    if cv not in VALID:
        why.append(f"converted type {cv} is not a leaf annotation")
    elif ptn not in VALID[cv]:
        why.append(f"{cv} may not annotate {ptn}")
    if lg is not None:
        if lg[0] == "TIMESTAMP":
            if ptn != "INT64":
                why.append("TIMESTAMP must annotate INT64")
            if lg[1] not in SPEC_UNIT_NS:
                why.append("TIMESTAMP without unit")
            elif cv != TS_CONVERTED[lg[1]]:
                why.append(f"TIMESTAMP({lg[1]}) next to converted type {cv} (compatibility table wants {TS_CONVERTED[lg[1]]})")
            if lg[2] not in (True, False):
                why.append("isAdjustedToUTC missing")
        else:
            why.append(f"logical type {lg[0]} is not one the writer is known to emit")
    if ptn == "FIXED_LEN_BYTE_ARRAY" and not (isinstance(f["type_length"], int) and f["type_length"] > 0):
        why.append("FIXED_LEN_BYTE_ARRAY without a positive type_length")
    if ptn in PHYS_BITS and f["type_length"] is not None and not (0 < f["type_length"] <= PHYS_BITS[ptn]):
        why.append(f"type_length {f['type_length']} (bit width of the values) exceeds the physical type")
    if cv == "DECIMAL" and not (f["scale"] is not None and f["precision"] and 0 <= f["scale"] <= f["precision"]):
        why.append("DECIMAL without 0 <= scale <= precision")
    # the annotation describes the column
    k = row["kind"]
    if k == "datetime":
        if row.get("times") == "int96":
            if not (ptn == "INT96" and cv is None and lg is None):
                why.append("times='int96' column not a bare INT96")
        else:
            if lg is None or lg[0] != "TIMESTAMP":
                why.append("datetime column without TIMESTAMP logical type")
            elif bool(lg[2]) != bool(row["tz"]):
                why.append(f"isAdjustedToUTC={lg[2]} for a {'tz-aware' if row['tz'] else 'naive'} column")
    elif k == "timedelta":
        if cv not in ("TIME_MICROS", "TIME_MILLIS") and not (lg and lg[0] == "TIME"):
            why.append("timedelta column without TIME annotation")
    elif k in ("int", "uint"):
        bits = row["bits"]
        want_phys = "INT64" if bits == 64 else "INT32"
        want_cv = (("U" if k == "uint" else "") + f"INT_{bits}")
        if ptn != want_phys:
            why.append(f"{bits}-bit integer in {ptn}")
        if cv != want_cv and not (cv is None and k == "int" and bits in (32, 64)):
            why.append(f"{'un' if k == 'uint' else ''}signed {bits}-bit integer annotated {cv}")
    elif k == "float":
        if not (cv is None and lg is None and ptn == ("DOUBLE" if row["bits"] == 64 else "FLOAT")):
            why.append(f"float{row['bits']} as {ptn}/{cv}")
    elif k == "bool":
        if not (ptn == "BOOLEAN" and cv is None):
            why.append("bool not a bare BOOLEAN")
    elif k == "text":
        if cv != "UTF8":
            why.append("text column not annotated UTF8")
    elif k in ("json", "bson"):
        if cv != k.upper():
            why.append(f"{k} column annotated {cv}")
    elif k == "bytes":
        if cv is not None:
            why.append(f"bytes column annotated {cv}")
    return why


# ---- meanings -----------------------------------------------------------------------------------------------------------------------
def pandas_meaning(dt, e):
    """numpy dtype + element -> (class, ns or value)"""
    if dt.kind in "Mm":
        unit = np.datetime_data(dt)[0]
        if unit not in UNIT_NS:
            raise Unsupported(f"unit {unit}")
        return ("instant_ns" if dt.kind == "M" else "duration_ns"), e * UNIT_NS[unit]
    if dt.kind in "iu":
        return "int", e
    if dt.kind == "b":
        return "int", e
    if dt.kind == "f":
        return "real", e
    raise Unsupported(f"meaning of {dt}")


def spec_meaning(f, x):
    """what the PHYSICAL value x (int term; INT96: dict ns/day) denotes under annotation f per LogicalTypes.md
    -> (class, term, validity precondition of the physical value)"""
    ptn, cv, lg = f["type"], f["converted"], f["logical"]
    T = z3.BoolVal(True)
    if ptn == "INT96":
        return "instant_ns", (x["day"] - JULIAN_EPOCH) * DAY_NS + x["ns"], z3.And(x["ns"] >= 0, x["ns"] < DAY_NS)
    if lg is not None and lg[0] == "TIMESTAMP" and ptn == "INT64":
        return "instant_ns", x * SPEC_UNIT_NS[lg[1]], T
    if cv in ("TIMESTAMP_MILLIS", "TIMESTAMP_MICROS"):
        return "instant_ns", x * SPEC_UNIT_NS[cv.split("_")[1]], T
    if cv == "DATE":
        return "instant_ns", x * DAY_NS, T
    if cv in ("TIME_MILLIS", "TIME_MICROS"):
        return "duration_ns", x * SPEC_UNIT_NS[cv.split("_")[1]], T
    if cv is not None and cv.startswith("UINT_"):
        n = int(cv.split("_")[1])
        pb = PHYS_BITS[ptn]
        u = x % (1 << pb)
        return "int", u, u < (1 << n)
    if cv is not None and cv.startswith("INT_"):
        n = int(cv.split("_")[1])
        return "int", x, z3.And(x >= -(1 << (n - 1)), x < (1 << (n - 1)))
    if cv == "DECIMAL" and ptn in ("INT32", "INT64"):
        s = f["scale"] or 0
        return "real", z3.ToReal(x) * z3.Q(1, 10 ** s), T
    if cv is None and lg is None:
        return ("real" if ptn in ("FLOAT", "DOUBLE") else "int"), x, T
    raise Unsupported("no integer meaning for " + annotation_name(f))


def annotated_unit_ns(f):
    lg, cv = f["logical"], f["converted"]
    if f["type"] == "INT96":
        return 1
    if lg is not None and lg[0] in ("TIMESTAMP", "TIME") and lg[1] in SPEC_UNIT_NS:
        return SPEC_UNIT_NS[lg[1]]
    if cv in ("TIMESTAMP_MILLIS", "TIMESTAMP_MICROS", "TIME_MILLIS", "TIME_MICROS"):
        return SPEC_UNIT_NS[cv.split("_")[1]]
    if cv == "DATE":
        return DAY_NS
    return None


# ---- tables ---------------------------------------------------------------------------------------------------------------------------
# text / bytes cells: the BYTE_ARRAY value must be EXACTLY the UTF-8 encoding of the cell (bytes: the cell itself) - the values that
# fixed-width / NUL-terminated detours lose: empty, trailing / leading / interior / several trailing NULs, a lone NUL, trailing and
# leading spaces, 2-, 3-, 4-byte UTF-8, an astral character (no surrogates) next to a trailing NUL, a long value
TEXT_VALUES = ["", "a", "ab\x00", "\x00ab", "a\x00b", "tail\x00\x00\x00", "\x00", "trail  ", " lead", "\u00e9", "\u4e2d\u6587", "\U0001F600",
               "a\U0001F600\x00", "\u00e9\x00", "x" * 300]
BYTES_VALUES = [b"", b"a", b"ab\x00", b"\x00ab", b"a\x00b", b"t\x00\x00\x00", b"\x00", b"\x00\x00\x00\x00", b"\xff\xfe", b"sp  ", b"\xc3"]
JSON_VALUES = [{"a": 1}, [1, 2], "s", "nul\x00", "\x00", {"k\x00": "v\x00"}, "\u00e9\U0001F600", ""]
TEXT_ROWS = set()          # names of the writer rows whose cells are text / bytes / JSON in a BYTE_ARRAY (filled by writer_rows)


def writer_rows(pd):
    rows = []
    for bits in (8, 16, 32, 64):
        for k, nm in (("int", "int"), ("uint", "uint")):
            rows.append({"name": f"{nm}{bits}", "kind": k, "bits": bits, "sym": True,
                         "make": (lambda vals, d=f"{nm}{bits}": pd.Series(np.array(vals, dtype=d), name="x"))})
            ext = ("Int" if k == "int" else "UInt") + str(bits)
            rows.append({"name": ext, "kind": k, "bits": bits, "sym": True, "ext": True,
                         "make": (lambda vals, d=ext: pd.Series(pd.array(list(vals), dtype=d), name="x"))})
    for bits in (16, 32, 64):
        rows.append({"name": f"float{bits}", "kind": "float", "bits": bits, "sym": True,
                     "make": (lambda vals, d=f"float{bits}": pd.Series(np.array(vals, dtype=d), name="x"))})
    for bits in (32, 64):
        rows.append({"name": f"Float{bits}", "kind": "float", "bits": bits, "sym": True, "ext": True,
                     "make": (lambda vals, d=f"Float{bits}": pd.Series(pd.array(list(vals), dtype=d), name="x"))})
    rows.append({"name": "bool", "kind": "bool", "sym": False, "make": lambda vals: pd.Series(np.array(vals, dtype=bool), name="x")})
    rows.append({"name": "boolean", "kind": "bool", "sym": False, "ext": True,
                 "make": lambda vals: pd.Series(pd.array(list(vals), dtype="boolean"), name="x")})
    for unit in ("s", "ms", "us", "ns"):
        for tz in (None, "UTC", "Europe/Paris"):
            for times in ("int64", "int96"):
                if times == "int96" and tz == "Europe/Paris":
                    continue
                nm = f"datetime64[{unit}{', ' + tz if tz else ''}]" + (",times=int96" if times == "int96" else "")

                def mk(vals, unit=unit, tz=tz):
                    s = pd.Series(np.array(vals, dtype="int64").view(f"M8[{unit}]"), name="x")
                    return s.dt.tz_localize("UTC").dt.tz_convert(tz) if tz else s
                rows.append({"name": nm, "kind": "datetime", "unit": unit, "tz": tz, "times": times, "sym": True, "make": mk,
                             "find_kw": {"times": times}})
        rows.append({"name": f"timedelta64[{unit}]", "kind": "timedelta", "unit": unit, "sym": True,
                     "make": (lambda vals, unit=unit: pd.Series(np.array(vals, dtype="int64").view(f"m8[{unit}]"), name="x"))})
    from decimal import Decimal
    obj = lambda vals: pd.Series(list(vals), dtype=object, name="x")
    for enc, kind, vals in ((None, "bytes", BYTES_VALUES), ("bytes", "bytes", BYTES_VALUES),
                            ("utf8", "text", TEXT_VALUES), ("infer", "text", TEXT_VALUES),
                            ("json", "json", JSON_VALUES), ("bson", "bson", [{"a": 1}, {"b": [1, 2]}]),
                            ("bool", "bool", [True, False, True]), ("int", "int", [1, -2, 2 ** 62]), ("int32", "int", [1, -2, 2 ** 31 - 1]),
                            ("float", "float", [1.5, -2.0, 1e300]), ("decimal", "float", [Decimal("1.5"), Decimal("-2.25")])):
        r = {"name": f"object,object_encoding={enc}", "kind": kind, "sym": False, "vals": vals, "make": (lambda vals, obj=obj: obj(vals)),
             "find_kw": {"object_encoding": enc}}
        if kind == "int":
            r["bits"] = 32 if enc == "int32" else 64
        if kind == "float":
            r["bits"] = 64
        rows.append(r)
    rows.append({"name": "str", "kind": "text", "sym": False, "vals": TEXT_VALUES,
                 "make": lambda vals: pd.Series(list(vals), dtype="str", name="x")})
    rows.append({"name": "string", "kind": "text", "sym": False, "vals": TEXT_VALUES,
                 "make": lambda vals: pd.Series(list(vals), dtype="string", name="x")})
    rows.append({"name": "S3", "kind": "bytes", "sym": False, "vals": [b"abc", b"de", b""], "fixed": 3,
                 "make": lambda vals: pd.Series(np.array(list(vals), dtype="S3"), name="x")})
    rows.append({"name": "object,object_encoding=bytes,fixed_text=3", "kind": "bytes", "sym": False, "vals": [b"abc", b"de", b""], "fixed": 3,
                 "make": (lambda vals, obj=obj: obj(vals)), "find_kw": {"object_encoding": "bytes", "fixed_text": 3}})
    # categoricals: find_type is applied to the categories (make_metadata), the dictionary page is written by convert(Series(categories))
    for nm, kind, extra, mk in (
            ("categorical[str]", "text", {"vals": TEXT_VALUES, "find_kw": {"object_encoding": "utf8"}},
             lambda vals: pd.Series(pd.Index(list(vals), dtype=object), name="x")),
            ("categorical[str dtype]", "text", {"vals": TEXT_VALUES},          # write_column: encode['PLAIN'](pd.Series(data.cat.categories), se)
             lambda vals: pd.Series(pd.Index(list(vals), dtype="str"))),
            ("statistics min/max of a text column", "text", {"vals": ["zz\x00"]},   # write_column: encode['PLAIN'](pd.Series([max]), se)
             lambda vals: pd.Series(list(vals))),
            ("categorical[int64]", "int", {"bits": 64, "sym": True}, lambda vals: pd.Series(pd.Index(np.array(vals, dtype="int64")), name="x")),
            ("categorical[float64]", "float", {"bits": 64, "sym": True}, lambda vals: pd.Series(pd.Index(np.array(vals, dtype="float64")), name="x")),
            ("categorical[datetime64[ns]]", "datetime", {"unit": "ns", "tz": None, "times": "int64", "sym": True},
             lambda vals: pd.Series(pd.DatetimeIndex(np.array(vals, dtype="int64").view("M8[ns]")), name="x")),
            ("categorical[datetime64[s]]", "datetime", {"unit": "s", "tz": None, "times": "int64", "sym": True},
             lambda vals: pd.Series(pd.DatetimeIndex(np.array(vals, dtype="int64").view("M8[s]")), name="x"))):
        r = {"name": nm, "kind": kind, "sym": False, "make": mk, "categories": True}
        r.update(extra)
        rows.append(r)
    TEXT_ROWS.clear()
    TEXT_ROWS.update(r["name"] for r in rows if r["kind"] in ("text", "bytes", "json") and not r.get("fixed"))
    return rows


def boundary_values(row):
    k = row["kind"]
    if "vals" in row:
        return list(row["vals"])
    if k in ("int", "uint"):
        b = row["bits"]
        lo, hi = (-(1 << (b - 1)), (1 << (b - 1)) - 1) if k == "int" else (0, (1 << b) - 1)
        vs = [lo, hi, 0, 1, hi - 1, (hi + 1) // 2, (hi + 1) // 2 - 1] + ([-1] if k == "int" else [])
        return sorted(set(vs))
    if k == "float":
        fi = np.finfo(f"float{row['bits']}")
        return [0.0, -0.0, 1.5, -2.25, float(fi.max), float(fi.min), float(fi.tiny), float("inf")]
    if k == "bool":
        return [True, False, True, True, False, False, False, True, True]
    if k in ("datetime", "timedelta"):
        u = UNIT_NS[row["unit"]]
        vs = [0, 1, -1, 999, 1000, 1001, -999, -1001, 86399, 86400, -86400, 86400 * 10 ** 9 // u if u <= 10 ** 9 else 86400,
              1577836800 * 10 ** 9 // u, I64_MAX, I64_MIN + 1, NAT, I64_MAX // 1000, I64_MAX // 1000 + 1, -(I64_MAX // 1000) - 1,
              2 ** 61, I64_MAX // 10 ** 6, I64_MAX // 10 ** 9]
        return list(dict.fromkeys(vs))
    return []


def reader_rows():
    rows = []
    logicals = [None] + [("TIMESTAMP", u, utc) for u in ("MILLIS", "MICROS", "NANOS") for utc in (True, False)]
    for cv, phys in VALID.items():
        for ptn in phys:
            for lg in logicals:
                if lg is not None and not (ptn == "INT64" and cv in (None, "TIMESTAMP_MILLIS", "TIMESTAMP_MICROS")):
                    continue
                note = ""
                if lg is not None and cv is not None and cv != TS_CONVERTED[lg[1]]:
                    note = "inconsistent pair: the logical type must win"
                rows.append({"type": ptn, "converted": cv, "logical": lg, "note": note})
    # annotations the reader does not implement: newer logical types without a converted type
    for ptn, lgname in (("INT64", "TIME_NANOS"), ("INT32", "DATE_LOGICAL_ONLY"), ("FIXED_LEN_BYTE_ARRAY", "UUID")):
        rows.append({"type": ptn, "converted": None, "logical": (lgname, None, None), "unsupported": True, "note": "logical type only"})
    rows.append({"type": "BYTE_ARRAY", "converted": "ENUM", "logical": None, "unsupported": True, "note": ""})
    return rows


def make_se(pt, row, scale=2):
    kw = {"name": "x", "type": getattr(pt.Type, row["type"])}
    cv, lg = row["converted"], row["logical"]
    if cv is not None:
        kw["converted_type"] = getattr(pt.ConvertedType, cv)
    if cv == "DECIMAL":
        kw.update(scale=scale, precision=max(scale, 1) + 7)
    if row["type"] == "FIXED_LEN_BYTE_ARRAY":
        kw["type_length"] = 12 if cv == "INTERVAL" else 16 if (lg and lg[0] == "UUID") else 4
    if lg is not None:
        if lg[0] == "TIMESTAMP":
            unit = {"MILLIS": pt.TimeUnit(MILLIS=pt.MilliSeconds()), "MICROS": pt.TimeUnit(MICROS=pt.MicroSeconds()),
                    "NANOS": pt.TimeUnit(NANOS=pt.NanoSeconds())}[lg[1]]
            kw["logicalType"] = pt.LogicalType(TIMESTAMP=pt.TimestampType(isAdjustedToUTC=lg[2], unit=unit))
        elif lg[0] == "TIME_NANOS":
            kw["logicalType"] = pt.LogicalType(TIME=pt.TimeType(isAdjustedToUTC=True, unit=pt.TimeUnit(NANOS=pt.NanoSeconds())))
        elif lg[0] == "DATE_LOGICAL_ONLY":
            kw["logicalType"] = pt.LogicalType(DATE=pt.DateType())
        elif lg[0] == "UUID":
            kw["logicalType"] = pt.LogicalType(UUID=pt.UUIDType())
    return pt.SchemaElement(**kw)


def annotation_key(row):
    lg = row["logical"]
    return (row["type"], row["converted"], None if lg is None else (lg[0], lg[1], lg[2]))


def reader_row_name(row):
    lg = row["logical"]
    l = "-" if lg is None else (f"TIMESTAMP({lg[1]},utc={lg[2]})" if lg[0] == "TIMESTAMP" else lg[0])
    return f"{row['type']},{row['converted'] or '-'},{l}"


# ---- symbolic runs ---------------------------------------------------------------------------------------------------------------------
class Mods:
    def __init__(self, ctx):
        from runtime.harness import import_fastparquet
        self.fp = import_fastparquet()
        import pandas as pd
        from fastparquet import writer, converted_types, parquet_thrift, encoding
        self.pd, self.writer, self.ct, self.pt, self.encoding = pd, writer, converted_types, parquet_thrift, encoding
        self.wfuncs, _, _ = parse_module("fastparquet/writer.py")
        self.cfuncs, _, _ = parse_module("fastparquet/converted_types.py")
        if ctx is not None:
            for mod, fs, names in (("writer", self.wfuncs, ("find_type", "convert", "time_shift")),
                                   ("converted_types", self.cfuncs, ("convert", "typemap", "_logical_to_time_dtype"))):
                for nm in names:
                    if nm in fs:
                        rep = dict(fs[nm].report)
                        if nm in ("find_type", "typemap"):
                            rep["mode"] = "executed on the finite table, not symbolically"
                        ctx.function(f"{mod}.{nm}", fs[nm].sha, rep)
        self.ts_state = {}
        self.writer_annotations = set()


def sym_elem(p, dt, name):
    if dt.kind == "f":
        return z3.Real(name)
    e = z3.Int(name)
    lo, hi = rng_of(dt)
    p.pc += [e >= lo, e <= hi]
    return e


def run_writer_convert(M, row, se, ser0):
    """real source of writer.convert on (Series of the row's dtype with one arbitrary element v, se) -> (v, vdt, paths)"""
    vals = ser0.values
    vdt = vals.dtype if isinstance(vals, np.ndarray) else np.dtype(ser0.dtype.numpy_dtype)
    p = Path()
    v = sym_elem(p, vdt, "v")
    n = z3.Int("n")
    p.pc.append(n >= 1)
    arr = NArr(buf_new(p, vdt, v), vdt, n)
    eng = UEngine(M.wfuncs, M.writer)
    outs = eng.run("convert", p, [Custom(SeriesM(ser0, arr)), Custom(Con(se))])
    return v, vdt, outs, eng


def written_physical(q, f):
    """the returned array as the physical values encode_plain writes (out.tobytes()) -> (elem | dict, problem or None)"""
    r = q.ctl[1]
    if not is_narr(r):
        return None, f"convert returns {type(r.h).__name__ if isinstance(r, Custom) else type(r).__name__}, not an array"
    a = r.h
    e = a.load(q)
    ptn = f["type"]
    if ptn not in PHYS_DT:
        return None, f"physical type {ptn} has no fixed-width numeric layout"
    pdt = np.dtype(PHYS_DT[ptn])
    if a.dt.itemsize != pdt.itemsize:
        return None, f"written items are {a.dt} ({a.dt.itemsize} bytes) but {ptn} values are {pdt.itemsize} bytes"
    if pdt.names is not None:
        if not isinstance(e, tuple) or [x[0] for x in e] != list(pdt.names) or [np.dtype(x[1]) for x in e] != [pdt.fields[k][0] for k in pdt.names]:
            return None, f"written records {a.dt} are not the INT96 layout {pdt}"
        return {name: el for name, _, el in e}, None
    if isinstance(e, tuple):
        return None, "records written for a scalar physical type"
    if pdt.kind == "f":
        if a.dt.kind != "f":
            return None, f"{a.dt} bytes written for {ptn}"
        return e, None
    if not intlike(a.dt):
        return None, f"{a.dt} bytes written for {ptn}"
    return reinterpret(e, a.dt, pdt), None


def events_ok(q, start=0):
    ev = q.ghost.get("events", [])[start:]
    return z3.And(*[ok for _, ok, _ in ev]) if ev else z3.BoolVal(True)


def mval(m, t):
    try:
        return backends.model_value(m, t)
    except Exception:
        return str(m.eval(t, model_completion=True))


def run_reader_convert(M, q, f, se, phys):
    """real source of converted_types.convert on the physical array whose arbitrary element is `phys`, on path q"""
    ptn = f["type"]
    n = z3.Int("n")
    if ptn == "INT96":
        sdt = np.dtype(PHYS_DT["INT96"])
        buf = buf_new(q, sdt, tuple((name, sdt.fields[name][0], phys[name]) for name in sdt.names))
        arr = NArr(buf, np.dtype("S12"), n)
    elif ptn in PHYS_DT:
        pdt = np.dtype(PHYS_DT[ptn])
        arr = NArr(buf_new(q, pdt, phys), pdt, n)
    else:
        pdt = np.dtype("O")
        arr = NArr(buf_new(q, pdt, phys), pdt, n)
    eng = UEngine(M.cfuncs, M.ct, handlers={"time_shift": make_time_shift_handler(M.ts_state)})
    outs = eng.run("convert", q, [Custom(arr), Custom(Con(se))])
    return arr, outs, eng


def predicted_dtype(M, se):
    dt = M.ct.typemap(se)
    if dt == "S12":
        return np.dtype("M8[ns]")            # ParquetFile._dtypes (checked against the source by C17's lemma)
    return dt


def _s_return(self, st, p):
    """a path that already raised inside the returned expression stays a raising path"""
    if st.value is None:
        return Engine.s_Return(self, st, p)
    out = []
    for q, v in self.ev(st.value, p):
        if q.ctl is None:
            q.ctl = ("ret", v)
            q.trace.append(("ret", st.lineno))
        out.append(q)
    return out


UEngine.s_Return = _s_return

EXEC = "enumeration (executed)"


def _subst_eval(term, subs):
    t = z3.simplify(z3.substitute(term, *subs))
    if z3.is_int_value(t):
        return t.as_long()
    if z3.is_rational_value(t):
        return fractions.Fraction(t.numerator_as_long(), t.denominator_as_long())
    if z3.is_true(t):
        return True
    if z3.is_false(t):
        return False
    return None


def _model(m, **terms):
    if m is None:
        return None
    out = {}
    for k, t in terms.items():
        if t is None:
            continue
        if isinstance(t, dict):
            out[k] = {a: mval(m, b) for a, b in t.items()}
        elif z3.is_expr(t):
            out[k] = mval(m, t)
        else:
            out[k] = t
    return out


def _why_events(m, q, start=0):
    """which recorded operation wrapped in the counter-model"""
    out = []
    for label, ok, val in q.ghost.get("events", [])[start:]:
        try:
            if z3.is_false(m.eval(ok, model_completion=True)):
                out.append(f"{label}: mathematical result {mval(m, val) if val is not None else '?'} does not fit")
        except Exception:
            pass
    return out


# ---- writer side -------------------------------------------------------------------------------------------------------------------------
def dtype_unit_ns(row):
    return UNIT_NS[row["unit"]] if row["kind"] in ("datetime", "timedelta") else None


def check_writer_row_symbolic(M, row, se, f, ser0, res, timeout, want_roundtrip=True):
    D = row["name"]
    n_unit, n_wrap, n_rt = (f"find_type.annotation_matches_written_unit[{D}]", f"units.no_silent_wrap[{D}]", f"units.roundtrip[{D}]")
    v, vdt, outs, eng = run_writer_convert(M, row, se, ser0)
    res.add_engine_obligations(eng, f"writer.convert[{D}].", timeout)
    timekind = row["kind"] in ("datetime", "timedelta")
    A, U = annotated_unit_ns(f), dtype_unit_ns(row)
    rets = [q for q in outs if q.ctl[0] == "ret"]
    if not rets:
        why = "; ".join(sorted({f"{q.ctl[1]}: {q.ghost.get('raised_detail', '')}" for q in outs}))
        for nm in (n_unit, n_wrap) + ((n_rt,) if want_roundtrip else ()):
            res.add(nm, PROVED, None, 0.0, "engine", f"the write raises for every value ({why}): accepted by the property, nothing is written")
        return []
    paths = []
    for q in outs:
        if q.ctl[0] != "ret":
            continue
        ph, prob = written_physical(q, f)
        if prob:
            res.add(n_unit, REFUTED, {"problem": prob}, 0.0, "engine", prob)
            continue
        try:
            cls_s, val_s, valid_s = spec_meaning(f, ph)
            cls_p, val_p = pandas_meaning(vdt, v)
        except Unsupported as ex:
            res.add(n_unit, UNKNOWN, None, 0.0, "engine", str(ex))
            continue
        not_nat = [v != NAT] if timekind else []
        hyp = list(q.pc) + not_nat + [events_ok(q)]
        trunc = ""
        if cls_s != cls_p:
            goal = z3.BoolVal(False)
            trunc = f" [annotation denotes {cls_s}, the column holds {cls_p}]"
        elif timekind and A is not None and U is not None and A > U:
            goal = z3.And(valid_s, val_s == (val_p / A) * A)
            trunc = f" [TRUNCATION: the annotated unit ({A} ns) is coarser than the dtype's ({U} ns): floor to the annotated unit]"
        else:
            goal = z3.And(valid_s, val_s == val_p)
        st0, _, _ = solve(hyp, timeout)
        st, m, secs = solve(hyp + [z3.Not(goal)], timeout)
        if st0 != REFUTED:      # hypotheses unsatisfiable (or undecided): vacuous
            st = UNKNOWN
        else:
            res.vac["requires_sat"] += 1
        if cls_s == cls_p and cls_s != "real":
            # must-fail guard: a deliberately wrong postcondition (off by one unit) has to be refuted on this path
            stm, _, _ = solve(hyp + [z3.Not(val_s == val_p + 1)], timeout)
            res.vac["must_fail_sat"] += 1 if stm == REFUTED else 0
        res.add(n_unit, st, _model(m, v=v, written=ph, written_means=val_s, cell_means=val_p, annotation=annotation_name(f)), secs, "z3",
                f"{annotation_name(f)}: physical value read per the annotation == the cell's {cls_p} exactly, for every v whose "
                f"conversion does not wrap{trunc}")
        # no silent wrap: ALL int64 inputs, NaT sentinel included
        nat_through = z3.BoolVal(False)
        if timekind and z3.is_expr(ph):
            nat_through = z3.And(v == NAT, ph == NAT)
        gw = z3.Or(events_ok(q), nat_through)
        st, m, secs = solve(list(q.pc) + [z3.Not(gw)], timeout)
        mod = _model(m, v=v, written=ph, is_NaT_sentinel=(mval(m, v) == NAT) if m is not None and timekind else None)
        if m is not None:
            mod["wrapped"] = _why_events(m, q)
        res.add(n_wrap, st, mod, secs, "z3",
                "for ALL inputs of the dtype (NaT sentinel included) on this returning path: no integer operation of convert wrapped or "
                "narrowed" + (", or the NaT sentinel is written as the sentinel" if timekind else "") + " (a raising path is accepted)")
        if timekind:
            stn, mn, secsn = solve(list(q.pc) + [v == NAT, z3.Not(gw)], timeout)
            modn = _model(mn, v=v, written=ph, is_NaT_sentinel=True)
            if mn is not None:
                modn["wrapped"] = _why_events(mn, q)
            res.add(n_wrap, stn, modn, secsn, "z3", "the NaT sentinel (int64 min) reaching convert through a REQUIRED column (has_nulls=False / 'infer') "
                    "is written as the sentinel or as a value whose arithmetic did not wrap (a raising path is accepted)")
        paths.append((q, v, vdt, ph, val_p, cls_p))
    if not want_roundtrip:
        return paths
    # ---- round trip through the real reader source
    for q, v, vdt, ph, val_p, cls_p in paths:
        q2 = q.fork()
        q2.ctl = None
        ev0 = len(q2.ghost.get("events", []))
        try:
            arr, outs2, eng2 = run_reader_convert(M, q2, f, se, ph)
        except Unsupported as ex:
            res.add(n_rt, UNKNOWN, None, 0.0, "engine", f"reader out of reach: {ex}")
            continue
        res.add_engine_obligations(eng2, f"converted_types.convert[{D}].", timeout)
        try:
            pred = np.dtype(predicted_dtype(M, se))
        except Exception as ex:
            res.add(n_rt, REFUTED, {"typemap_raises": f"{type(ex).__name__}: {ex}"}, 0.0, EXEC, "typemap refuses the schema element find_type produced")
            continue
        pre = [v != NAT] if timekind else []
        if timekind and A is not None and U is not None and A > U:
            pre.append(val_p % A == 0)
        for r in outs2:
            hyp = list(r.pc) + pre + [events_ok(r)]
            if r.ctl[0] != "ret":
                st, m, secs = solve(hyp, timeout)
                st = REFUTED if st == REFUTED else PROVED if st == PROVED else UNKNOWN
                res.add(n_rt, st, _model(m, v=v, written=ph, read_raises=f"{r.ctl[1]}: {r.ghost.get('raised_detail', '')}"), secs, "z3",
                        "the read of the written value does not raise")
                continue
            rv = r.ctl[1]
            if not is_narr(rv):
                res.add(n_rt, UNKNOWN, None, 0.0, "engine", "reader returns a non-array")
                continue
            rd, e2 = rv.h.dt, rv.h.load(r)
            same_kind = rd.kind == vdt.kind and (rd.kind in "Mm" or rd.itemsize == vdt.itemsize or (vdt == np.dtype("float16") and rd == np.dtype("float32")))
            pred_ok = (pred.kind, pred.itemsize) == (rd.kind, rd.itemsize) and (rd.kind not in "Mm" or np.datetime_data(pred) == np.datetime_data(rd))
            if not (same_kind and pred_ok):
                res.add(n_rt, REFUTED, {"written_dtype": str(vdt), "read_dtype": str(rd), "typemap": str(pred)}, 0.0, EXEC,
                        "dtype read back is of the same kind (and width) as the one written, and is the dtype typemap announces")
                continue
            cls_r, val_r = pandas_meaning(rd, e2)
            if timekind:
                # "representable in both": the cell's instant / duration is a whole, non-NaT int64 count of the read dtype's unit
                Ur = UNIT_NS[np.datetime_data(rd)[0]]
                hyp = hyp + [val_p % Ur == 0, val_p / Ur > I64_MIN, val_p / Ur <= I64_MAX]
            goal = z3.And(z3.BoolVal(cls_r == cls_p), val_r == val_p)
            st0, _, _ = solve(hyp, timeout)
            st, m, secs = solve(hyp + [z3.Not(goal)], timeout)
            if st0 != REFUTED:
                st = UNKNOWN
            extra = " [float16 is widened to float32: FLOAT is the narrowest physical type; outside C01's dtype list]" if vdt == np.dtype("float16") else ""
            res.add(n_rt, st, _model(m, v=v, written=ph, read=e2, read_dtype=str(rd), read_means=val_r, cell_means=val_p), secs, "z3",
                    f"read(write(v)) in {rd} (typemap: {pred}) denotes the same {cls_p} as v in {vdt}, for every v representable in both"
                    + (" (v a whole number of annotated units: the property's quantifier says 'representable in microseconds')" if len(pre) > 1 else "")
                    + extra)
            if timekind:
                # the sentinel: NaT written through a REQUIRED column comes back as NaT, whenever nothing wrapped
                hypn = list(r.pc) + [v == NAT, events_ok(r)]
                stn0, _, _ = solve(hypn, timeout)
                if stn0 == REFUTED:
                    stn, mn, secsn = solve(hypn + [z3.Not(e2 == NAT)], timeout)
                    res.add(n_rt, stn, _model(mn, v=v, read=e2), secsn, "z3", "NaT (int64 min) written without wrapping reads back as NaT")
    return paths


def native_written_physical(out, f):
    """native result of writer.convert as physical integers / floats (what tobytes() stores)"""
    ptn = f["type"]
    a = np.asarray(out)
    pdt = np.dtype(PHYS_DT[ptn])
    if a.dtype.itemsize != pdt.itemsize:
        return None
    b = np.frombuffer(a.tobytes(), dtype=pdt)
    if pdt.names is not None:
        return [{k: int(x[k]) for k in pdt.names} for x in b]
    if pdt.kind == "f":
        return [fractions.Fraction(float(x)) if np.isfinite(x) else float(x) for x in b]
    return [int(x) for x in b]


def tv_writer_row(M, row, se, f, paths, res, ctx):
    """translation validation of the numpy model: substitute boundary values into the symbolic result, compare with the native run"""
    D = row["name"]
    vals = boundary_values(row)
    if row["kind"] == "float":
        vals = [x for x in vals if np.isfinite(x)]
    n_ok = n_bad = 0
    bad = []
    t0 = time.time()
    for val in vals:
        try:
            with warnings.catch_warnings(), np.errstate(all="ignore"):
                warnings.simplefilter("ignore")
                ser = row["make"]([val])
                out = M.writer.convert(ser, se)
            nat = native_written_physical(out, f)
        except Exception as ex:
            nat = ("raises", type(ex).__name__)
        hit = False
        for q, v, vdt, ph, _, _ in paths:
            if vdt.kind == "f":
                sv = fractions.Fraction(float(np.array([val], dtype=vdt)[0]))
                subs = [(v, z3.Q(sv.numerator, sv.denominator))]
            else:
                subs = [(v, z3.IntVal(int(val)))]
            if not all(_subst_eval(c, subs) is not False for c in q.pc):
                continue
            hit = True
            pred = {k: _subst_eval(t, subs) for k, t in ph.items()} if isinstance(ph, dict) else _subst_eval(ph, subs)
            if isinstance(nat, list) and len(nat) == 1 and nat[0] == pred:
                n_ok += 1
            else:
                n_bad += 1
                bad.append({"v": val, "model": str(pred), "native": str(nat)})
        if not hit:
            # no returning path of the model takes this value: the native run must raise too
            if isinstance(nat, tuple):
                n_ok += 1
            else:
                n_bad += 1
                bad.append({"v": val, "model": "raises / no path", "native": str(nat)})
    if ctx is not None:
        ctx.tv["inputs"] += n_ok + n_bad
        ctx.tv["mismatches"] += n_bad
    res.add(f"units.model_agrees_with_native[writer.convert,{D}]", PROVED if n_bad == 0 else UNKNOWN, {"mismatches": bad[:4]} if bad else None,
            time.time() - t0, EXEC, f"{n_ok + n_bad} boundary values (min, max, 0, +-1, NaT, non-multiples of the factor, range edges of the "
            "coarser unit): the symbolic result with the value substituted == the native writer.convert output, item for item")


def _bits_lsb(b, n):
    return [bool((b[i // 8] >> (i % 8)) & 1) for i in range(n)]


def check_writer_row_executed(M, row, se, f, res, want_roundtrip=True):
    """rows whose cells are not numbers: executed enumeration on boundary values (complete for the table, bounded in the values)"""
    import json
    D = row["name"]
    n_unit, n_wrap, n_rt = (f"find_type.annotation_matches_written_unit[{D}]", f"units.no_silent_wrap[{D}]", f"units.roundtrip[{D}]")
    vals = boundary_values(row)
    t0 = time.time()
    note = f"EXECUTED on {len(vals)} boundary values {[v if not isinstance(v, bytes) else v for v in vals][:6]!r}: complete for the dtype table, BOUNDED in the value dimension"
    try:
        with warnings.catch_warnings():
            warnings.simplefilter("ignore")
            ser = row["make"](vals)
            out = M.writer.convert(ser, se)
    except Exception as ex:
        for nm in (n_unit, n_wrap) + ((n_rt,) if want_roundtrip else ()):
            res.add(nm, PROVED, None, time.time() - t0, EXEC, f"the write raises ({type(ex).__name__}: {str(ex)[:120]}): accepted by the property; {note}")
        return
    ptn, cv, k = f["type"], f["converted"], row["kind"]
    want = list(vals)
    why = None
    try:
        if ptn == "BOOLEAN":
            got = _bits_lsb(np.asarray(out).tobytes(), len(vals))
            if got != [bool(x) for x in want]:
                why = f"bits (LSB first) {got} != {want}"
        elif ptn in ("BYTE_ARRAY", "FIXED_LEN_BYTE_ARRAY"):
            items = [bytes(x) for x in np.asarray(out).tolist()] if np.asarray(out).dtype.kind == "S" else list(out)
            if ptn == "FIXED_LEN_BYTE_ARRAY":
                L = f["type_length"]
                items = [bytes(x).ljust(L, b"\x00") for x in items]
                want_b = [(w if isinstance(w, bytes) else str(w).encode()).ljust(L, b"\x00") for w in want]
                if np.asarray(out).dtype.itemsize != L:
                    why = f"written items are {np.asarray(out).dtype.itemsize} bytes, type_length is {L}"
            elif cv == "UTF8":
                want_b = [w.encode("utf8") for w in want]
            elif cv == "JSON":
                items = [json.loads(x) for x in items]
                want_b = want
            elif cv == "BSON":
                items = [M.ct.unbson(x) for x in items]
                want_b = want
            else:
                want_b = [w if isinstance(w, bytes) else w for w in want]
            if why is None and list(items) != list(want_b):
                why = f"written {list(items)[:4]!r} != cells {list(want_b)[:4]!r}"
        elif ptn in PHYS_DT:
            got = native_written_physical(out, f)
            exp = [fractions.Fraction(float(w)) for w in want] if ptn in ("FLOAT", "DOUBLE") else [int(w) for w in want]
            if got != exp:
                why = f"written {got} != cells {exp}"
        else:
            why = f"no decoder for {ptn}"
    except Exception as ex:
        why = f"decoding the written values per the annotation fails: {type(ex).__name__}: {ex}"
    res.add(n_unit, REFUTED if why else PROVED, {"why": why, "annotation": annotation_name(f)} if why else None, time.time() - t0, EXEC,
            f"{annotation_name(f)}: the items writer.convert returns, decoded per the annotation by an independent decoder, are the cells; {note}")
    res.add(n_wrap, PROVED, None, 0.0, EXEC, f"no integer unit arithmetic on this row (cells are {k}); {note}")
    if ptn == "BYTE_ARRAY" and k in ("text", "bytes", "json"):
        # PLAIN BYTE_ARRAY as the file stores it: for every cell  le32(len(b)) ++ b  with b EXACTLY the UTF-8 encoding of the cell
        # (bytes: the cell itself; JSON: a UTF-8 document that parses to the cell) - nothing before, between or after
        t1 = time.time()
        why = None
        try:
            with warnings.catch_warnings():
                warnings.simplefilter("ignore")
                raw = bytes(M.writer.encode_plain(row["make"](vals), se))
            pos, items = 0, []
            while pos + 4 <= len(raw) and len(items) < len(vals):
                ln = int.from_bytes(raw[pos:pos + 4], "little", signed=True)
                if ln < 0 or pos + 4 + ln > len(raw):
                    why = f"length prefix {ln} at byte {pos} runs past the {len(raw)} bytes written"
                    break
                items.append(raw[pos + 4:pos + 4 + ln])
                pos += 4 + ln
            if why is None and (len(items) != len(vals) or pos != len(raw)):
                why = f"{len(items)} values / {pos} bytes framed, {len(vals)} cells / {len(raw)} bytes written"
            if why is None:
                for cell, it in zip(vals, items):
                    if k == "json":
                        good = json.loads(it.decode("utf8")) == cell
                        exp = "a UTF-8 JSON document of the cell"
                    else:
                        exp = cell.encode("utf8") if isinstance(cell, str) else bytes(cell)
                        good = it == exp
                    if not good:
                        why = f"cell {cell!r}: written value {it!r} (length prefix {len(it)}) is not {exp!r}"
                        break
        except Exception as ex:
            why = f"{type(ex).__name__}: {str(ex)[:160]}"
        res.add(f"text.bytes_written_are_utf8_of_cell[{D}]", REFUTED if why else PROVED, {"why": why, "annotation": annotation_name(f)} if why else None,
                time.time() - t1, EXEC, f"{annotation_name(f)}: encode_plain(cells) == for each cell le32(byte length) ++ "
                + ("the cell's bytes" if k == "bytes" else "the UTF-8 encoding of the cell" if k == "text" else "a UTF-8 JSON document that parses to the cell")
                + f", exactly (trailing / leading / interior NULs, spaces, 2-4 byte UTF-8, empty); {note}")
    if not want_roundtrip:
        return
    # native round trip through encode_plain -> read_plain -> converted_types.convert
    t0 = time.time()
    why = None
    try:
        with warnings.catch_warnings():
            warnings.simplefilter("ignore")
            raw = M.writer.encode_plain(row["make"](vals), se)
            arr = M.encoding.read_plain(np.frombuffer(raw, dtype=np.uint8) if ptn != "BOOLEAN" else raw, se.type, len(vals),
                                        width=se.type_length or 0, utf=se.converted_type == M.pt.ConvertedType.UTF8)
            back = M.ct.convert(arr, se)
        back = list(np.asarray(back)[:len(vals)].tolist()) if not isinstance(back, list) else back
        exp = list(want)
        if ptn == "FIXED_LEN_BYTE_ARRAY":
            back = [bytes(x).rstrip(b"\x00") for x in back]
            exp = [(w if isinstance(w, bytes) else str(w).encode()).rstrip(b"\x00") for w in exp]
        if k == "float":
            back, exp = [float(x) for x in back], [float(x) for x in exp]
        if k == "bool":
            back, exp = [bool(x) for x in back], [bool(x) for x in exp]
        if back != exp:
            why = f"read back {back[:4]!r} != cells {exp[:4]!r}"
    except Exception as ex:
        why = f"{type(ex).__name__}: {str(ex)[:160]}"
    res.add(n_rt, REFUTED if why else PROVED, {"why": why} if why else None, time.time() - t0, EXEC,
            f"converted_types.convert(read_plain(encode_plain(cells))) == cells; {note}")


def check_writer(ctx, M, res, timeout, rows_filter=None, roundtrip=True):
    pd = M.pd
    rows = writer_rows(pd)
    n_sym = n_exec = 0
    used_keys = set()
    for row in rows:
        D = row["name"]
        if rows_filter and not rows_filter(D):
            continue
        t0 = time.time()
        vals = boundary_values(row)
        try:
            with warnings.catch_warnings():
                warnings.simplefilter("ignore")
                ser0 = row["make"](vals[:2] if vals else [0, 1])
                se, _ = M.writer.find_type(ser0, **row.get("find_kw", {}))
        except Exception as ex:
            for nm in ("find_type.annotation_is_valid", "find_type.annotation_matches_written_unit", "units.no_silent_wrap", "units.roundtrip"):
                res.add(f"{nm}[{D}]", PROVED, None, time.time() - t0, EXEC, f"find_type refuses the dtype ({type(ex).__name__}: {str(ex)[:100]}): the write raises")
            continue
        f = se_facts(M.pt, se)
        M.writer_annotations.add((f["type"], f["converted"], None if f["logical"] is None else (f["logical"][0], f["logical"][1], f["logical"][2])))
        why = spec_annotation_valid(f, row)
        res.add(f"find_type.annotation_is_valid[{D}]", REFUTED if why else PROVED, {"annotation": annotation_name(f), "why": why} if why else None,
                time.time() - t0, EXEC, f"{annotation_name(f)} type_length={f['type_length']}: legal for the physical type per LogicalTypes.md "
                "(converted / logical pair consistent, isAdjustedToUTC <=> tz-aware) and of the column's kind")
        if row["kind"] == "datetime" and row.get("times") != "int96":
            # which entry of writer.time_factors the real convert will look up for this row (its own obligation below)
            part = str(ser0.dtype).split("[")[1][:-1].split(",")[0]
            used_keys.add((se.converted_type if se.converted_type else [k for k, v in se.logicalType.TIMESTAMP.unit._asdict().items() if v is not None][0], part))
        if row.get("sym"):
            n_sym += 1
            try:
                paths = check_writer_row_symbolic(M, row, se, f, ser0, res, timeout, want_roundtrip=roundtrip)
                if paths:
                    tv_writer_row(M, row, se, f, paths, res, ctx)
            except Unsupported as ex:
                for nm in ("find_type.annotation_matches_written_unit", "units.no_silent_wrap", "units.roundtrip"):
                    res.add(f"{nm}[{D}]", UNKNOWN, None, 0.0, "engine", f"out of reach: {ex}")
        else:
            n_exec += 1
            check_writer_row_executed(M, row, se, f, res, roundtrip)
    # the small tables next to convert: executed, one obligation per entry
    if rows_filter is None:
        for t, npt in getattr(M.writer, "revmap", {}).items():
            tn = M.pt.Type._VALUES_TO_NAMES.get(t, str(t))
            ok = tn in PHYS_DT and np.dtype(npt) == np.dtype(PHYS_DT[tn])
            res.add(f"revmap.entry_is_physical_dtype[{tn}]", PROVED if ok else REFUTED, None if ok else {"entry": str(np.dtype(npt))}, 0.0, EXEC,
                    f"writer.revmap[{tn}] = {np.dtype(npt)}: the little-endian dtype PLAIN encoding of {tn} stores")
        for ext, npt in getattr(M.writer, "pdoptional_to_numpy_typemap", {}).items():
            nd = np.dtype(npt)
            want = np.dtype(ext.numpy_dtype)
            ok = (nd.kind, nd.itemsize) == (want.kind, want.itemsize)
            res.add(f"pdoptional_to_numpy_typemap.entry_preserves_kind_and_width[{ext.name}]", PROVED if ok else REFUTED,
                    None if ok else {"entry": str(nd), "numpy_dtype_of_extension": str(want)}, 0.0, EXEC,
                    f"{ext.name} -> {nd}: same kind, signedness and width as the extension dtype's own numpy dtype ({want})")
    # the unit table of the writer: every entry find_type can select is the exact ratio; entries it can never select are noted
    tf = getattr(M.writer, "time_factors", {}) if rows_filter is None else {}
    for key, fac in tf.items():
        a_unit = key[0] if isinstance(key[0], str) else M.pt.ConvertedType._VALUES_TO_NAMES.get(key[0], str(key[0])).split("_")[-1]
        want = fractions.Fraction(UNIT_NS.get(key[1], 0), SPEC_UNIT_NS.get(a_unit, 1))
        reach = key in used_keys
        nm = f"time_factors.entry_is_unit_ratio[{a_unit},{key[1]}]"
        if reach:
            res.add(nm, PROVED if fractions.Fraction(fac) == want else REFUTED, None if fractions.Fraction(fac) == want else {"factor": fac, "ratio": str(want)},
                    0.0, EXEC, f"time_factors[{a_unit},{key[1]}] = {fac} == (ns per {key[1]}) / (ns per {a_unit}) = {want}")
        elif ctx is not None and fractions.Fraction(fac) != want:
            ctx.note(f"writer.time_factors[({a_unit}, {key[1]})] = {fac} is NOT the unit ratio {want} (a multiplication where a division is needed), "
                     "but no dtype of the writer table makes find_type select it: latent, not posed")
    return n_sym, n_exec


# ---- reader side -------------------------------------------------------------------------------------------------------------------------
def implied_dtype(f):
    """the dtype kind / width the schema implies (LogicalTypes.md + fastparquet's documented float64 for DECIMAL)"""
    ptn, cv, lg = f["type"], f["converted"], f["logical"]
    if ptn == "INT96":
        return "M", None
    if lg is not None and lg[0] == "TIMESTAMP":
        return "M", {"MILLIS": "ms", "MICROS": "us", "NANOS": "ns"}[lg[1]]
    if cv in ("TIMESTAMP_MILLIS", "TIMESTAMP_MICROS"):
        return "M", {"MILLIS": "ms", "MICROS": "us"}[cv.split("_")[1]]
    if cv == "DATE":
        return "M", None
    if cv in ("TIME_MILLIS", "TIME_MICROS"):
        return "m", None
    if cv and (cv.startswith("UINT_") or cv.startswith("INT_")):
        return ("u" if cv.startswith("U") else "i"), int(cv.split("_")[1]) // 8
    if cv == "DECIMAL":
        return "f", 8
    if ptn in ("INT32", "INT64"):
        return "i", PHYS_BITS[ptn] // 8
    if ptn in ("FLOAT", "DOUBLE"):
        return "f", PHYS_BITS[ptn] // 8
    return None, None


def reader_boundary(row):
    ptn, cv = row["type"], row["converted"]
    if ptn == "INT32":
        base = [0, 1, -1, 127, 128, 255, 256, 32767, 65535, 106751, 106752, -106752, 86399999, 2 ** 31 - 1, -2 ** 31]
        if cv and cv.startswith("UINT_"):
            n = int(cv.split("_")[1])
            return [x for x in base if 0 <= (x % 2 ** 32) < 2 ** n]
        if cv and cv.startswith("INT_"):
            n = int(cv.split("_")[1])
            return [x for x in base if -2 ** (n - 1) <= x < 2 ** (n - 1)]
        return base
    if ptn == "INT64":
        return [0, 1, -1, 999, 1000, 86400 * 10 ** 6, 2 ** 53, 2 ** 53 + 1, I64_MAX, I64_MIN + 1, I64_MIN, 2 ** 61]
    if ptn == "INT96":
        return [{"ns": 0, "day": JULIAN_EPOCH}, {"ns": DAY_NS - 1, "day": JULIAN_EPOCH - 1}, {"ns": 1, "day": JULIAN_EPOCH + 106751},
                {"ns": 0, "day": JULIAN_EPOCH + 106752}, {"ns": 0, "day": 2816788}, {"ns": 43200 * 10 ** 9, "day": 0}, {"ns": 5, "day": 2 ** 31 - 1}]
    if ptn in ("FLOAT", "DOUBLE"):
        return [0.0, 1.5, -2.25]
    return []


def check_reader_row_symbolic(M, row, res, timeout, ctx, scale=2):
    R = reader_row_name(row) + (f",scale={scale}" if row["converted"] == "DECIMAL" else "")
    n_val, n_wrap, n_raw = (f"convert.value_means_annotation[{R}]", f"convert.no_silent_wrap[{R}]", f"convert.unsupported_annotation_returns_raw[{R}]")
    se = make_se(M.pt, row, scale=scale)
    f = se_facts(M.pt, se)
    q = Path()
    ptn = row["type"]
    if ptn == "INT96":
        ph = {"ns": sym_elem(q, np.dtype("i8"), "x_ns"), "day": sym_elem(q, np.dtype("i4"), "x_day")}
    elif ptn in PHYS_DT:
        ph = sym_elem(q, np.dtype(PHYS_DT[ptn]), "x")
    else:
        ph = z3.Int("x_item")
    arr, outs, eng = run_reader_convert(M, q, f, se, ph)
    res.add_engine_obligations(eng, f"converted_types.convert[{R}].", timeout)
    try:
        pred = np.dtype(predicted_dtype(M, se))
    except Exception as ex:
        pred = None
        pred_err = f"{type(ex).__name__}: {ex}"
    paths = []
    for r in outs:
        if r.ctl[0] != "ret":
            # raising is accepted for unsupported annotations, a violation for supported ones whenever it can happen on a valid file
            if row.get("unsupported"):
                res.add(n_raw, PROVED, None, 0.0, "engine", f"raises {r.ctl[1]}: accepted (never reinterprets)")
            else:
                st, m, secs = solve(list(r.pc), timeout)
                res.add(n_val, REFUTED if st == REFUTED else UNKNOWN, _model(m, x=ph, raises=f"{r.ctl[1]}: {r.ghost.get('raised_detail', '')}"),
                        secs, "z3", "a valid file of a supported annotation is read without raising")
            continue
        rv = r.ctl[1]
        if not is_narr(rv):
            res.add(n_raw if row.get("unsupported") else n_val, UNKNOWN, None, 0.0, "engine", "convert returns a non-array")
            continue
        rd, e2 = rv.h.dt, rv.h.load(r)
        if row.get("unsupported") or ptn not in PHYS_DT:
            # raw fallback: the same values in the same dtype, nothing computed
            same = rd == arr.dt and not isinstance(e2, tuple)
            if same:
                x0 = arr.load(r)
                st, m, secs = solve(list(r.pc) + [z3.Not(z3.And(e2 == x0, events_ok(r)))], timeout)
            else:
                st, m, secs = REFUTED, None, 0.0
            res.add(n_raw, st, _model(m, x=ph) if m is not None else ({"returned_dtype": str(rd)} if not same else None), secs, "z3",
                    f"{R}{' (' + row['note'] + ')' if row.get('note') else ''}: the array returned holds the physical values unchanged, in the physical dtype ({arr.dt})")
            continue
        try:
            cls_s, val_s, valid_s = spec_meaning(f, ph)
            cls_r, val_r = pandas_meaning(rd, e2)
        except Unsupported as ex:
            res.add(n_val, UNKNOWN, None, 0.0, "engine", str(ex))
            continue
        ik, iw = implied_dtype(f)
        dt_ok = pred is not None and pred.kind == ik and (iw is None or (pred.itemsize == iw if isinstance(iw, int) else np.datetime_data(pred)[0] == iw)) \
            and (rd == pred or (rd.kind in "iu" and pred.kind == "f") or (rd.kind, rd.itemsize) == (pred.kind, pred.itemsize))
        if not dt_ok:
            res.add(n_val, REFUTED, {"returned_dtype": str(rd), "typemap": str(pred) if pred is not None else pred_err, "schema_implies": f"kind {ik} width/unit {iw}"},
                    0.0, EXEC, "the dtype typemap announces is of the kind and width the schema implies, and holds what convert returns")
            continue
        hyp = list(r.pc) + [valid_s, events_ok(r)]
        if cls_s == "real" and row["converted"] == "DECIMAL":
            # float rounding is ASSUMED: the factor applied may differ from 10**-scale by one unit in the last place of the factor
            eps = fractions.Fraction(float(np.spacing(float(fractions.Fraction(1, 10 ** scale)))))
            ax = z3.If(ph >= 0, z3.ToReal(ph), -z3.ToReal(ph))
            bound = ax * z3.Q(eps.numerator, eps.denominator)
            goal = z3.And(z3.BoolVal(cls_r == "real" or rd.kind in "iu"), (val_r if cls_r == "real" else z3.ToReal(val_r)) - val_s <= bound,
                          val_s - (val_r if cls_r == "real" else z3.ToReal(val_r)) <= bound)
            extra = f" [real-number model; |factor - 10**-{scale}| <= 1 ulp accepted: float rounding is assumed]"
        else:
            goal = z3.And(z3.BoolVal(cls_s == cls_r), val_r == val_s)
            extra = ""
        st0, _, _ = solve(hyp, timeout)
        st, m, secs = solve(hyp + [z3.Not(goal)], timeout)
        if st0 != REFUTED:
            st = UNKNOWN
        else:
            res.vac["requires_sat"] += 1
        if cls_s == cls_r and cls_s != "real":
            stm, _, _ = solve(hyp + [z3.Not(val_r == val_s + 1)], timeout)         # must-fail guard
            res.vac["must_fail_sat"] += 1 if stm == REFUTED else 0
        res.add(n_val, st, _model(m, x=ph, returned=e2, returned_dtype=str(rd), returned_means=val_r, annotation_means=val_s), secs, "z3",
                f"{R}{' (' + row['note'] + ')' if row.get('note') else ''}: value returned in {rd} (typemap: {pred}) denotes the {cls_s} the annotation "
                f"gives the physical value, for every physical value of a valid file whose conversion does not wrap{extra}")
        gw = events_ok(r)
        st, m, secs = solve(list(r.pc) + [valid_s, z3.Not(gw)], timeout)
        mod = _model(m, x=ph, returned=e2)
        if m is not None:
            mod["wrapped"] = _why_events(m, r)
        res.add(n_wrap, st, mod, secs, "z3", "for ALL physical values of a valid file on this returning path: no integer operation of convert wrapped "
                "(a raising path is accepted): a value outside the result dtype's range must not come back as another value")
        paths.append((r, ph, rd, e2))
    # translation validation
    vals = reader_boundary(row)
    stale = row["converted"] == "TIME_MILLIS" and M.pyx_stale
    if paths and vals and not stale:
        n_ok = n_bad = 0
        bad = []
        t0 = time.time()
        for val in vals:
            try:
                if ptn == "INT96":
                    a = np.zeros(1, dtype=PHYS_DT["INT96"])
                    a["ns"], a["day"] = val["ns"], val["day"]
                    a = a.view("S12")
                else:
                    a = np.array([val], dtype=PHYS_DT[ptn])
                with warnings.catch_warnings(), np.errstate(all="ignore"):
                    warnings.simplefilter("ignore")
                    out = np.asarray(M.ct.convert(a, se))
                if out.dtype.kind in "Mm":
                    nat = int(out.view("i8")[0])
                elif out.dtype.kind == "f":
                    nat = fractions.Fraction(float(out[0]))
                else:
                    nat = int(out[0])
                nat_dt = out.dtype
            except Exception as ex:
                nat, nat_dt = ("raises", type(ex).__name__), None
            for r, ph_, rd, e2 in paths:
                subs = [(ph_[k], z3.IntVal(val[k])) for k in ph_] if isinstance(ph_, dict) else \
                    [(ph_, z3.Q(*fractions.Fraction(val).as_integer_ratio()) if rd.kind == "f" and ptn in ("FLOAT", "DOUBLE") else z3.IntVal(int(val)))]
                pm = _subst_eval(e2, subs)
                if row["converted"] == "DECIMAL" and isinstance(pm, (int, fractions.Fraction)) and isinstance(nat, (int, fractions.Fraction)) \
                        and abs(fractions.Fraction(pm) - nat) <= abs(fractions.Fraction(nat)) * fractions.Fraction(1, 2 ** 51):
                    pm = nat            # the model is the exact real product; the native value is its float64 rounding (assumed)
                if pm == nat and (nat_dt is None or nat_dt == rd or (nat_dt.kind, nat_dt.itemsize) == (rd.kind, rd.itemsize)):
                    n_ok += 1
                else:
                    n_bad += 1
                    bad.append({"x": str(val), "model": f"{pm} {rd}", "native": f"{nat} {nat_dt}"})
        if ctx is not None:
            ctx.tv["inputs"] += n_ok + n_bad
            ctx.tv["mismatches"] += n_bad
        res.add(f"units.model_agrees_with_native[converted_types.convert,{R}]", PROVED if n_bad == 0 else UNKNOWN, {"mismatches": bad[:4]} if bad else None,
                time.time() - t0, EXEC, f"{n_ok + n_bad} boundary values: symbolic result with the value substituted == native converted_types.convert")
    elif stale and ctx is not None:
        ctx.note("TIME_MILLIS: native comparison skipped - cencoding.pyx no longer matches cencoding.c (the .so is older code); only the P layer sees the .pyx")


def check_reader_row_executed(M, row, res):
    """annotations over byte arrays / booleans: PLAIN bytes built here, decoded by read_plain + convert, compared with an independent decode"""
    import json
    import struct
    R = reader_row_name(row)
    n_val, n_wrap, n_raw = (f"convert.value_means_annotation[{R}]", f"convert.no_silent_wrap[{R}]", f"convert.unsupported_annotation_returns_raw[{R}]")
    ptn, cv = row["type"], row["converted"]
    t0 = time.time()
    scales = (0, 2, 9) if cv == "DECIMAL" else (None,)
    for scale in scales:
        se = make_se(M.pt, row, scale=scale if scale is not None else 2)
        L = se.type_length
        if ptn == "BOOLEAN":
            vals = [True, False, True, True, False, False, True, False, True]
            raw = bytes([sum((1 << i) for i, v in enumerate(vals[:8]) if v), 1])
            exp = vals
        elif cv == "DECIMAL":
            ints = [0, 1, -1, 255, -256, 12345, -(2 ** 31)] if ptn == "BYTE_ARRAY" else [0, 1, -1, 255, -256, 2 ** 31 - 1, -(2 ** 31)]
            items = [i.to_bytes(L if ptn == "FIXED_LEN_BYTE_ARRAY" else max(1, (i.bit_length() + 8) // 8), "big", signed=True) for i in ints]
            exp = [float(fractions.Fraction(i, 10 ** scale)) for i in ints]
        elif cv == "JSON":
            exp = [{"a": 1}, [1, 2], "s", None]
            items = [json.dumps(x).encode() for x in exp]
        elif cv == "BSON":
            exp, items = [], []
            try:
                from fastparquet.converted_types import tobson
                exp = [{"a": 1}, {"b": [1, 2]}]
                items = [tobson(x) for x in exp]
            except Exception as ex:
                res.add(n_val, PROVED, None, 0.0, EXEC, f"no BSON codec installed ({type(ex).__name__}): convert raises ImportError for this annotation - accepted")
                continue
        elif cv == "UTF8":
            exp = ["a", "", "é中", "x" * 300]
            items = [s.encode("utf8") for s in exp]
        elif cv == "INTERVAL":
            exp = [(1, 2, 3), (0, 0, 0), (2 ** 32 - 1, 5, 86399999)]
            items = [struct.pack("<III", *t) for t in exp]
        else:
            items = [b"abcd", b"\x00\x01\x02\x03", b"\xff\xfe\xfd\xfc"] if ptn == "FIXED_LEN_BYTE_ARRAY" else [b"a", b"", b"\x00\xff", b"abcd"]
            if ptn == "FIXED_LEN_BYTE_ARRAY" and L != 4:
                items = [x.ljust(L, b"\x01")[:L] for x in items]
            exp = list(items)
        if ptn == "BYTE_ARRAY":
            raw = b"".join(struct.pack("<i", len(x)) + x for x in items)
        elif ptn == "FIXED_LEN_BYTE_ARRAY":
            raw = b"".join(items)
        n = len(exp)
        why = None
        try:
            with warnings.catch_warnings():
                warnings.simplefilter("ignore")
                arr = M.encoding.read_plain(np.frombuffer(raw, dtype=np.uint8) if ptn != "BOOLEAN" else raw, se.type, n, width=L or 0,
                                            utf=se.converted_type == M.pt.ConvertedType.UTF8)
                out = M.ct.convert(arr, se)
            o = np.asarray(out)
            if cv == "INTERVAL":
                got = [tuple(int(x) for x in rowv) for rowv in o.reshape(n, -1)]
            elif cv == "DECIMAL":
                got = [float(x) for x in o[:n]]
                if any(abs(a - b) > abs(b) * 2 ** -52 for a, b in zip(got, exp)):
                    why = f"values {got} != unscaled * 10**-{scale} = {exp}"
                got = exp
            elif ptn == "BOOLEAN":
                got = [bool(x) for x in o[:n]]
            else:
                got = [bytes(x) if isinstance(x, (bytes, np.bytes_)) else x for x in o[:n].tolist()]
            if why is None and got != exp:
                why = f"returned {got[:4]!r} != {exp[:4]!r}"
        except ImportError as ex:
            res.add(n_val, PROVED, None, 0.0, EXEC, f"convert raises ImportError ({ex}): accepted (raises, never reinterprets)")
            continue
        except Exception as ex:
            why = f"{type(ex).__name__}: {str(ex)[:160]}"
        nm = n_raw if (row.get("unsupported") or cv == "ENUM") else n_val
        sc = f",scale={scale}" if scale is not None else ""
        res.add(nm.replace("]", sc + "]") if sc else nm, REFUTED if why else PROVED, {"why": why} if why else None, time.time() - t0, EXEC,
                f"{R}{sc}: read_plain + convert of {n} PLAIN-encoded boundary items == the independent decode per the annotation "
                "(EXECUTED: complete for the annotation table, BOUNDED in the values)")


def check_reader(ctx, M, res, timeout, rows_filter=None):
    n_sym = n_exec = 0
    for row in reader_rows():
        R = reader_row_name(row)
        if rows_filter and not rows_filter(R):
            continue
        sym = row["type"] in PHYS_DT and row["converted"] not in ("UTF8", "JSON", "BSON", "ENUM", "INTERVAL")
        try:
            if sym:
                n_sym += 1
                if row["converted"] == "DECIMAL":
                    for sc in (0, 2, 9, 18):
                        check_reader_row_symbolic(M, row, res, timeout, ctx, scale=sc)
                else:
                    check_reader_row_symbolic(M, row, res, timeout, ctx)
            else:
                n_exec += 1
                check_reader_row_executed(M, row, res)
        except Unsupported as ex:
            res.add(f"convert.value_means_annotation[{R}]", UNKNOWN, None, 0.0, "engine", f"out of reach: {ex}")
    return n_sym, n_exec


# ---- entry -------------------------------------------------------------------------------------------------------------------------------
class UResults(Results):
    kernel_secs = 0.0

    def __init__(self):
        super().__init__()
        self.vac = {"requires_sat": 0, "must_fail_sat": 0}


def check(ctx, timeout=10000, side="both", rows_filter=None):
    """side: 'writer' (C02), 'reader' (C03), 'both' (C01: writer + round trip uses the reader)"""
    t0 = time.time()
    res = UResults()
    M = Mods(ctx)
    pyx, cfile = os.path.join(REPO, "fastparquet", "cencoding.pyx"), os.path.join(REPO, "fastparquet", "cencoding.c")
    try:
        n_anchor, n_bad = front_cy.c_anchor_check(pyx, cfile)
    except Exception:
        n_anchor, n_bad = 0, 1
    M.pyx_stale = n_bad > 0 or n_anchor == 0
    # cut: the kernel contract the TIME_MILLIS rows rely on, posed as its own obligations first
    if side == "cast":
        # C07 / C09: writer.convert against an arbitrary numeric schema element of the dataset (append / overwrite / write_row_groups)
        check_cast_target(ctx, M, res, timeout, all_values=(ctx is not None and getattr(ctx, "prop", "") == "C09") or ctx is None)
        return res
    if side == "text":
        # C11: only the text / bytes rows of the writer table (encoder output == spec bytes, and decodes back to its input)
        # and converts_inplace on the un-annotated physical types (+ its symbolic / call-site obligations)
        writer_rows(M.pd)
        ws = check_writer(ctx, M, res, timeout, (lambda D: D in TEXT_ROWS), roundtrip=True)
        check_converts_inplace(ctx, M, res, timeout, rows_sel=lambda r: r["converted"] is None and r["logical"] is None)
        if ctx is not None:
            ctx.vacuity["covers"] += ws[0] + ws[1]
            ctx.note(f"units contract (text rows only): {ws[1]} rows executed; {time.time() - t0:.1f} s")
        return res
    kernel_ok = k_time_shift(ctx, res, timeout)
    if ctx is not None:
        ctx.tv["functions"] += 2
    ws = rs = (0, 0)
    if side in ("writer", "both") and rows_filter is None:
        check_cast_target(ctx, M, res, timeout)
    if side in ("writer", "both"):
        ws = check_writer(ctx, M, res, timeout, rows_filter, roundtrip=(side == "both"))
    if side in ("reader", "both"):
        rs = check_reader(ctx, M, res, timeout, rows_filter)
        if rows_filter is None:
            # C03: every row; C01: the annotations fastparquet's own writer produces
            sel = None if side == "reader" else (lambda r: annotation_key(r) in M.writer_annotations)
            check_converts_inplace(ctx, M, res, timeout, rows_sel=sel)
    # the call-site conditions of the kernel contract: factor constant of the proved instance, int32 factor
    facs = M.ts_state.get("factors", set())
    if M.ts_state.get("calls"):
        res.add("cencoding.time_shift.callsite_uses_the_proved_factor", PROVED if facs <= {1000000} and kernel_ok else UNKNOWN, {"factors": sorted(facs)} if facs - {1000000} else None,
                0.0, "engine", f"every call of the kernel met by the symbolic runs passes factor {sorted(facs)} (the kernel contract is proved for 1000000) "
                "and an int64 array")
    if ctx is not None:
        ctx.vacuity["covers"] += ws[0] + ws[1] + rs[0] + rs[1]
        ctx.vacuity["requires_sat"] += res.vac["requires_sat"]
        ctx.vacuity["must_fail_sat"] += res.vac["must_fail_sat"]
        ctx.note(f"units contract: writer table {ws[0]} rows symbolic + {ws[1]} executed; reader table {rs[0]} rows symbolic + {rs[1]} executed; "
                 f"kernel {'proved' if kernel_ok else 'NOT proved'}; {time.time() - t0:.1f} s")
    return res


# ---- known findings (regions over obligation names) ----------------------------------------------------------------------------------------
import re as _re

KNOWN = {
    "C01": [
        ("C01-P-timedelta-s-ms-written-unscaled", _re.compile(r"^(find_type\.annotation_matches_written_unit|units\.roundtrip)\[timedelta64\[(s|ms)\]\]$")),
        ("C01-P-int96-split-assumes-nanoseconds", _re.compile(r"^(find_type\.annotation_matches_written_unit|units\.roundtrip)\[datetime64\[(s|ms|us)(, UTC)?\],times=int96\]$")),
        ("C01-P-datetime-s-times-1000-wraps", _re.compile(r"^units\.no_silent_wrap\[(categorical\[)?datetime64\[s(, [A-Za-z/]+)?\]\]?\]$")),
    ],
    "C02": [
        ("C02-P-timedelta-s-ms-written-unscaled", _re.compile(r"^find_type\.annotation_matches_written_unit\[timedelta64\[(s|ms)\]\]$")),
        ("C02-P-int96-split-assumes-nanoseconds", _re.compile(r"^find_type\.annotation_matches_written_unit\[datetime64\[(s|ms|us)(, UTC)?\],times=int96\]$")),
        ("C02-P-datetime-s-times-1000-wraps", _re.compile(r"^units\.no_silent_wrap\[(categorical\[)?datetime64\[s(, [A-Za-z/]+)?\]\]?\]$")),
    ],
    "C09": [
        ("C09-P-frame-dtype-wider-than-dataset-column-narrowed-silently", _re.compile(r"^convert\.cast_to_schema_type_raises_or_keeps_value\[")),
    ],
    "C03": [
        ("C03-P-date-outside-ns-range-wraps", _re.compile(r"^convert\.no_silent_wrap\[INT32,DATE,-\]$")),
        ("C03-P-int96-outside-ns-range-wraps", _re.compile(r"^convert\.no_silent_wrap\[INT96,-,-\]$")),
        ("C03-P-converts-inplace-true-for-int32-widened-to-8-byte-items",
         _re.compile(r"^converts_inplace\.true_only_when_raw_bytes_are_the_values\[INT32,(DATE|TIME_MILLIS),-\]$")),
    ],
}


def known_for(prop, name):
    for fid, rx in KNOWN.get(prop, []):
        if rx.search(name):
            return fid
    return None


def props_of(name):
    """which properties report an obligation: writer side C01 + C02, round trips C01, reader side C03 (+ the lemmas they use);
    the byte-level obligations of the text / bytes rows also C11 (encoder output is the spec's bytes and decodes back to its input)"""
    key = name[name.index("[") + 1:-1] if "[" in name else ""
    c11 = ("C11",) if key in TEXT_ROWS and name.startswith(("text.", "units.roundtrip[", "find_type.annotation_matches_written_unit[")) else ()
    if name.startswith("convert.cast_to_schema_type_raises_or_keeps_value"):
        return ("C09",)
    if name.startswith(("convert.cast_target_is", "convert.cast_to_schema_type_preserves_value", "units.model_agrees_with_native[writer.convert,")) and " -> " in name:
        return ("C01", "C02", "C07", "C09")
    if name.startswith(("converts_inplace.", "read_data_page_v2.")):
        return ("C03", "C01", "C11")          # which rows are posed is decided by check(side): C11 un-annotated, C01 what the writer produces
    if name.startswith("units.roundtrip") or name.startswith("converted_types.convert["):
        return ("C01",) + c11
    if name.startswith("convert.value_means_annotation"):
        # also the decode step of the statistics chain (api.statistics / filter_out_stats call converted_types.convert on min / max):
        # C04 (exposed statistics decode to the logical values) and C05 (pruning compares decoded bounds) rely on it
        return ("C03", "C04", "C05")
    if name.startswith("convert."):
        return ("C03",)
    if name.startswith("units.model_agrees_with_native[converted_types.convert") or name.startswith("cencoding.time_shift"):
        return ("C03", "C01")
    return ("C01", "C02") + c11


# ---- native replay of a refuted obligation ----------------------------------------------------------------------------------------------------
def _pyval(t):
    t = z3.simplify(t)
    if z3.is_int_value(t):
        return t.as_long()
    if z3.is_rational_value(t):
        return fractions.Fraction(t.numerator_as_long(), t.denominator_as_long())
    if z3.is_true(t) or z3.is_false(t):
        return z3.is_true(t)
    return None


def _native_writer_case(M, row, val, which):
    """-> text of the failure on the real code, or None"""
    timekind = row["kind"] in ("datetime", "timedelta")
    with warnings.catch_warnings(), np.errstate(all="ignore"):
        warnings.simplefilter("ignore")
        ser = row["make"]([val])
        try:
            se, _ = M.writer.find_type(ser, **row.get("find_kw", {}))
            out = M.writer.convert(ser, se)
        except Exception:
            return None                      # the write raises: accepted
        f = se_facts(M.pt, se)
        vals = ser.values
        vdt = vals.dtype if isinstance(vals, np.ndarray) else np.dtype(ser.dtype.numpy_dtype)
        cell = val if vdt.kind != "f" else fractions.Fraction(float(np.array([val], dtype=vdt)[0]))
        _, cm = pandas_meaning(vdt, z3.IntVal(int(cell)) if vdt.kind != "f" else z3.Q(cell.numerator, cell.denominator))
        cm = _pyval(cm)
        if which == "roundtrip":
            try:
                raw = M.writer.encode_plain(ser, se)
                arr = M.encoding.read_plain(np.frombuffer(raw, dtype=np.uint8), se.type, 1, width=se.type_length or 0)
                back = np.asarray(M.ct.convert(arr, se))
            except Exception as ex:
                return f"v={val}: read of the written value raises {type(ex).__name__}: {ex}"
            b = int(back.view("i8")[0]) if back.dtype.kind in "Mm" else (fractions.Fraction(float(back[0])) if back.dtype.kind == "f" else int(back[0]))
            if timekind and int(val) == NAT:
                return None if b == NAT else f"v=NaT reads back as {back[0]}"
            _, bm = pandas_meaning(back.dtype, z3.IntVal(b) if back.dtype.kind != "f" else z3.Q(b.numerator, b.denominator))
            bm = _pyval(bm)
            A = annotated_unit_ns(f)
            if timekind and A and cm % A != 0:
                return None
            return None if bm == cm else f"v={val} ({vdt}) is written as {native_written_physical(out, f)} and reads back as {back[0]!r}: {bm} != {cm}"
        ph = native_written_physical(out, f)
        if ph is None:
            return f"written item size differs from the physical type ({np.asarray(out).dtype})"
        ph = ph[0]
        if timekind and int(val) == NAT:
            return None if (which == "unit" or ph == NAT) else f"NaT is written as {ph} under {annotation_name(f)} (not the sentinel)"
        x = {k: z3.IntVal(v) for k, v in ph.items()} if isinstance(ph, dict) else (z3.Q(ph.numerator, ph.denominator) if isinstance(ph, fractions.Fraction) else z3.IntVal(ph))
        _, sm, valid = spec_meaning(f, x)
        sm, valid = _pyval(sm), _pyval(valid)
        A, U = annotated_unit_ns(f), dtype_unit_ns(row)
        want = (cm // A) * A if (timekind and A and U and A > U) else cm
        if sm != want or valid is False:
            return f"v={val} ({vdt}) is written as {ph} under {annotation_name(f)}: denotes {sm}, the cell is {want}"
    return None


def _native_reader_case(M, row, val, scale=2):
    se = make_se(M.pt, row, scale=scale)
    f = se_facts(M.pt, se)
    ptn = row["type"]
    with warnings.catch_warnings(), np.errstate(all="ignore"):
        warnings.simplefilter("ignore")
        if ptn == "INT96":
            a = np.zeros(1, dtype=PHYS_DT["INT96"])
            a["ns"], a["day"] = val["ns"], val["day"]
            a = a.view("S12")
            x = {k: z3.IntVal(int(v)) for k, v in val.items()}
        else:
            a = np.array([val], dtype=PHYS_DT[ptn])
            x = z3.IntVal(int(val)) if np.dtype(PHYS_DT[ptn]).kind != "f" else z3.Q(*fractions.Fraction(float(val)).as_integer_ratio())
        try:
            out = np.asarray(M.ct.convert(a, se))
        except Exception:
            return None
        _, sm, valid = spec_meaning(f, x)
        if _pyval(valid) is False:
            return None
        b = int(out.view("i8")[0]) if out.dtype.kind in "Mm" else (fractions.Fraction(float(out[0])) if out.dtype.kind == "f" else int(out[0]))
        _, bm = pandas_meaning(out.dtype, z3.IntVal(b) if out.dtype.kind != "f" else z3.Q(b.numerator, b.denominator))
        sm, bm = _pyval(sm), _pyval(bm)
        if row["converted"] == "DECIMAL":
            return None if abs(fractions.Fraction(bm) - sm) <= abs(sm) * fractions.Fraction(1, 2 ** 50) else f"x={val}: convert gives {out[0]!r}, the annotation says {float(sm)}"
        return None if sm == bm else f"x={val} under {annotation_name(f)} denotes {sm}; convert returns {out[0]!r} = {bm}"


def replay(name, model, M=None):
    """run the real functions on the counter-model (and on the boundary values of the row) -> (confirmed, text)"""
    try:
        if name.startswith("convert.cast_t"):
            M = M or Mods(None)
            t = _native_cast_case(M, name)
            return t is not None, t or "no failing input among the boundary values of the dtype"
        if name.startswith("converts_inplace.true_only"):
            M = M or Mods(None)
            r2 = UResults()
            key = name[name.index("[") + 1:-1]
            check_converts_inplace(None, M, r2, 5000, rows_sel=lambda r: reader_row_name(r) == key)
            e = next((e for e in r2.d.get(name, []) if e[0] == REFUTED), None)
            return e is not None, (e[1] or {}).get("why", "") if e else "the real converts_inplace / convert behave on this row"
        if name.startswith("converts_inplace.boolean"):
            M = M or Mods(None)
            bad = []
            for cv in [None] + sorted(M.pt.ConvertedType._VALUES_TO_NAMES):
                se = M.pt.SchemaElement(name="x", type=M.pt.Type.BOOLEAN, converted_type=cv)
                if M.ct.converts_inplace(se):
                    bad.append(cv)
            return bool(bad), f"converts_inplace(SchemaElement(type=BOOLEAN, converted_type=c)) is True for c in {bad}"
        if "[" not in name or name.startswith(("cencoding.time_shift", "time_factors.", "revmap.", "pdoptional_to_numpy_typemap.", "read_data_page_v2.")):
            return False, "no native replay for this obligation (a table entry / the .pyx kernel: the compiled extension is not rebuilt here)"
        M = M or Mods(None)
        head, key = name[:name.index("[")], name[name.index("[") + 1:-1]
        model = model or {}
        if head in ("find_type.annotation_matches_written_unit", "units.no_silent_wrap", "units.roundtrip", "find_type.annotation_is_valid",
                    "text.bytes_written_are_utf8_of_cell"):
            row = next((r for r in writer_rows(M.pd) if r["name"] == key), None)
            if row is None:
                return False, "no such row"
            if head == "find_type.annotation_is_valid":
                ser = row["make"](boundary_values(row)[:2] or [0, 1])
                se, _ = M.writer.find_type(ser, **row.get("find_kw", {}))
                why = spec_annotation_valid(se_facts(M.pt, se), row)
                return bool(why), f"find_type({ser.dtype}) -> {annotation_name(se_facts(M.pt, se))}: {why}"
            if not row.get("sym"):
                r2 = UResults()
                ser = row["make"](boundary_values(row)[:2])
                se, _ = M.writer.find_type(ser, **row.get("find_kw", {}))
                check_writer_row_executed(M, row, se, se_facts(M.pt, se), r2)
                return r2.status(name) == REFUTED, str(next((e[1] for e in r2.d.get(name, []) if e[0] == REFUTED), ""))
            which = {"find_type.annotation_matches_written_unit": "unit", "units.no_silent_wrap": "wrap", "units.roundtrip": "roundtrip"}[head]
            cands = []
            if "v" in model:
                try:
                    cands.append(int(model["v"]) if row["kind"] != "float" else float(fractions.Fraction(str(model["v"]))))
                except Exception:
                    pass
            cands += [b for b in boundary_values(row) if not (row["kind"] == "float" and not np.isfinite(b))]
            for val in cands:
                t = _native_writer_case(M, row, val, which)
                if t:
                    return True, t
            return False, f"no failing input among the counter-model and {len(cands)} boundary values"
        if head.startswith("convert."):
            scale = 2
            if ",scale=" in key:
                key, sc = key.rsplit(",scale=", 1)
                scale = int(sc)
            row = next((r for r in reader_rows() if reader_row_name(r) == key), None)
            if row is None:
                return False, "no such row"
            if row["type"] not in PHYS_DT or row["converted"] in ("UTF8", "JSON", "BSON", "ENUM", "INTERVAL"):
                r2 = UResults()
                check_reader_row_executed(M, row, r2)
                return r2.status(name) == REFUTED, str(next((e[1] for e in r2.d.get(name, []) if e[0] == REFUTED), ""))
            cands = []
            x = model.get("x")
            if isinstance(x, dict):
                cands.append({k: int(v) for k, v in x.items()})
            elif x is not None:
                try:
                    cands.append(int(x))
                except Exception:
                    pass
            cands += reader_boundary(row)
            for val in cands:
                t = _native_reader_case(M, row, val, scale)
                if t:
                    return True, t
            return False, f"no failing input among the counter-model and {len(cands)} boundary values"
        return False, "no native replay for this obligation (the compiled extension is not rebuilt from the .pyx here)"
    except Exception as ex:
        return False, f"replay failed: {type(ex).__name__}: {ex}"


# ==== converted_types.converts_inplace(se) and its call sites in core.read_data_page_v2 ========================================================
# Contract (from what the callers do with a True answer, not from the body): read_data_page_v2 copies / decompresses the PLAIN page
# bytes straight into the output array (dtype announced by typemap) and then calls convert(assign[...], se) DISCARDING the result;
# the DELTA_BINARY_PACKED branch decodes straight into the output under `if converts_inplace(se)` alone.  So True is only right
# when the in-memory bytes of the announced dtype ARE the PLAIN encoding of the values (item for item, little endian) and convert
# is a view / in-place operation on them.  BOOLEAN (bit-packed), INT96 (12 -> 8 bytes), byte arrays (object pointers), DATE /
# TIME_MILLIS (INT32 -> 8-byte items), DECIMAL and (U)INT_n (astype copies) are NOT of that kind.
#   converts_inplace.boolean_is_never_inplace                   SYMBOLIC on the real source: for ALL schema elements (type, converted type,
#                                                               logical type arbitrary) no path returns a truthy value when se.type == BOOLEAN
#   converts_inplace.true_only_when_raw_bytes_are_the_values[R] EXECUTED on every row R of the reader table: if the real function says True,
#       (a) PLAIN read-into site, when ITS guards admit R's output (item sizes equal [`see`, evaluated from the source], kind not O/M/m):
#           np.empty(n, announced dtype).view('uint8')[:] = PLAIN bytes ; convert(out, se) ; out holds the logical values of the spec;
#       (b) DELTA site (no further guard; INT32 / INT64 only): the announced item size equals the physical item size.
#   read_data_page_v2.read_into_only_under_converts_inplace[L..] PROPOSITIONAL (z3 on the ast): the guard of every statement that stores page
#       bytes / decoded values straight into assign implies  use_cat or converts_inplace(se)   (use_cat: categorical read of dictionary indices)
#   read_data_page_v2.plain_read_into_guards[L..]                the guard of the PLAIN read-into statements implies `see`, output kind != 'O', not in 'Mm'
FID_INPLACE_WIDENED = "C03-P-converts-inplace-true-for-int32-widened-to-8-byte-items"


class SymSE:
    """schema element with arbitrary type / converted type / logical type"""
    tracked = False

    def __init__(self, lt):
        self.t = z3.Int("se_type")
        self.ct_none, self.ct = z3.Bool("se_converted_type_is_None"), z3.Int("se_converted_type")
        self.lt = lt

    def attr(self, eng, p, name):
        from vc.symexec import Opt
        if name == "type":
            return PyI(self.t)
        if name == "converted_type":
            return Opt(self.ct_none, PyI(self.ct))
        if name == "logicalType":
            return self.lt
        raise Unsupported("se." + name)

    def is_none(self, eng, p):
        return z3.BoolVal(False)


class SymLT:
    tracked = False

    def attr(self, eng, p, name):
        from vc.symexec import Opt
        return Opt(z3.Bool(f"logicalType_{name}_is_None"), Custom(Con(object())))

    def is_none(self, eng, p):
        return z3.BoolVal(False)


def _bool_formula(node, defs, atoms):
    """python boolean expression -> propositional formula; names with a recorded definition are expanded, everything else is an atom"""
    if isinstance(node, ast.BoolOp):
        parts = [_bool_formula(v, defs, atoms) for v in node.values]
        return z3.And(*parts) if isinstance(node.op, ast.And) else z3.Or(*parts)
    if isinstance(node, ast.UnaryOp) and isinstance(node.op, ast.Not):
        return z3.Not(_bool_formula(node.operand, defs, atoms))
    if isinstance(node, ast.Name) and node.id in defs:
        return _bool_formula(defs[node.id], defs, atoms)
    key = ast.unparse(node)
    if key not in atoms:
        atoms[key] = z3.Bool("atom:" + key)
    return atoms[key]


def check_converts_inplace(ctx, M, res, timeout, rows_sel=None):
    import struct
    cf = M.cfuncs.get("converts_inplace")
    core, _, _ = parse_module("fastparquet/core.py")
    v2 = core.get("read_data_page_v2")
    if ctx is not None:
        if cf is not None:
            ctx.function("converted_types.converts_inplace", cf.sha, cf.report)
        if v2 is not None:
            ctx.function("core.read_data_page_v2", v2.sha, dict(v2.report, mode="structural: guards of the read-into statements"))
    if cf is None or not hasattr(M.ct, "converts_inplace"):
        res.add("converts_inplace.out_of_reach", UNKNOWN, None, 0.0, "engine", "converted_types.converts_inplace not found")
        return
    # ---- symbolic: BOOLEAN never in place -------------------------------------------------------------------------------------
    BOOLEAN = M.pt.Type.BOOLEAN
    n_paths = 0
    try:
        for lt in (NONE, Custom(SymLT())):
            eng = UEngine(M.cfuncs, M.ct)
            se = SymSE(lt)
            outs = eng.run("converts_inplace", Path(), [Custom(se)])
            for q in outs:
                n_paths += 1
                if q.ctl[0] != "ret":
                    continue        # raising: never "in place"
                tr = eng.truth(q.ctl[1], q)
                st, m, secs = solve(list(q.pc) + [se.t == BOOLEAN, tr], timeout)
                from .util import ret_line
                res.add("converts_inplace.boolean_is_never_inplace", st,
                        _model(m, se_type="BOOLEAN", converted_type_is_None=se.ct_none, converted_type=se.ct, return_line=ret_line(q)), secs, "z3",
                        "real source, se.type / converted_type / logicalType arbitrary: no returning path yields a truthy value when "
                        "se.type == BOOLEAN (PLAIN booleans are bit-packed, 8 per byte: the page bytes are never the bool array)")
        st, _, _ = solve([z3.Int("se_type") == BOOLEAN], timeout)
        res.vac["requires_sat"] += 1 if st == REFUTED else 0
    except Unsupported as ex:
        res.add("converts_inplace.boolean_is_never_inplace", UNKNOWN, None, 0.0, "engine", f"out of reach: {ex}")
    # ---- structural: the call sites -------------------------------------------------------------------------------------------------
    see_expr = None
    if v2 is None:
        res.add("read_data_page_v2.out_of_reach", UNKNOWN, None, 0.0, "ast", "core.read_data_page_v2 not found")
    else:
        defs = {}
        for n in ast.walk(v2.tree):
            if isinstance(n, ast.Assign) and len(n.targets) == 1 and isinstance(n.targets[0], ast.Name) and n.targets[0].id in ("into0", "into", "see"):
                if n.targets[0].id in defs:
                    defs[n.targets[0].id] = None          # assigned twice: not a definition
                else:
                    defs[n.targets[0].id] = n.value
        see_expr = defs.pop("see", None)
        defs = {k: v for k, v in defs.items() if v is not None}
        sites = []

        def walk(stmts, guard):
            for st_ in stmts:
                if isinstance(st_, ast.If):
                    walk(st_.body, guard + [(st_.test, True)])
                    walk(st_.orelse, guard + [(st_.test, False)])
                    continue
                if isinstance(st_, (ast.For, ast.While, ast.With, ast.Try)):
                    for fld in ("body", "orelse", "finalbody"):
                        walk(getattr(st_, fld, []) or [], guard)
                    continue
                txt = ast.unparse(st_)
                kind = None
                if isinstance(st_, ast.Assign) and ".view('uint8')" in ast.unparse(st_.targets[0]) and "assign" in ast.unparse(st_.targets[0]) \
                        and "infile.read(" in ast.unparse(st_.value):
                    kind = "plain"
                elif isinstance(st_, ast.Expr) and isinstance(st_.value, ast.Call) and txt.startswith("decomp(") and "assign[" in txt:
                    kind = "plain"
                elif isinstance(st_, ast.Expr) and "delta_binary_unpack(" in txt and "NumpyIO(assign[" in txt:
                    kind = "delta"
                if kind:
                    sites.append((st_.lineno, kind, guard, txt))
        walk(v2.tree.body, [])
        if not [s for s in sites if s[1] == "plain"] or not [s for s in sites if s[1] == "delta"]:
            res.add("read_data_page_v2.read_into_sites_found", UNKNOWN, {"sites": [(s[0], s[1]) for s in sites]}, 0.0, "ast",
                    "the statements that store page bytes / decoded values straight into the output were not recognised (shape changed)")
        for ln, kind, guard, txt in sites:
            atoms = {}
            g = z3.And(*[(_bool_formula(t, defs, atoms) if pos else z3.Not(_bool_formula(t, defs, atoms))) for t, pos in guard]) if guard else z3.BoolVal(True)
            ci = atoms.get("converts_inplace(se)")
            uc = atoms.get("use_cat", z3.BoolVal(False))
            goal = z3.Or(uc, ci) if ci is not None else z3.BoolVal(False)
            st, m, secs = solve([g, z3.Not(goal)], timeout)
            res.add(f"read_data_page_v2.read_into_only_under_converts_inplace[{kind}@L{ln}]", st,
                    {"guard_atoms_true": [k for k, a in atoms.items() if m is not None and z3.is_true(m.eval(a, model_completion=True))]} if m is not None else None,
                    secs, "z3 (propositional, on the ast)", f"`{txt[:90]}` is reached only when use_cat or converts_inplace(se) (guard: "
                    + " and ".join(("" if pos else "not ") + "(" + ast.unparse(t)[:60] + ")" for t, pos in guard) + "; into / into0 expanded)")
            if kind == "plain":
                want = [k for k in atoms if k == "see" or k.replace('"', "'") in ("assign.dtype.kind != 'O'", "assign.dtype.kind not in 'Mm'")]
                ok3 = len(want) == 3
                goal = z3.And(*[atoms[k] for k in want]) if ok3 else z3.BoolVal(False)
                # `see` stands under `converts_inplace(se) and see`: required on the non-categorical disjunct only
                goal = z3.Or(uc, goal) if ok3 else goal
                goal2 = z3.And(*[atoms[k] for k in want if k != "see"]) if ok3 else z3.BoolVal(False)
                st, m, secs = solve([g, z3.Not(z3.And(goal, goal2))], timeout)
                res.add(f"read_data_page_v2.plain_read_into_guards[L{ln}]", st, None, secs, "z3 (propositional, on the ast)",
                        "the PLAIN read-into statement is reached only with an output whose kind is not 'O' and not in 'Mm', and (outside "
                        "categorical reads) with `see`: input and output item sizes match")
    # ---- executed: the table ---------------------------------------------------------------------------------------------------------------
    simple = getattr(M.ct, "simple", {})
    for row in reader_rows():
        R = reader_row_name(row)
        if rows_sel is not None and not rows_sel(row):
            continue
        name = f"converts_inplace.true_only_when_raw_bytes_are_the_values[{R}]"
        t0 = time.time()
        se = make_se(M.pt, row)
        f = se_facts(M.pt, se)
        try:
            ans = M.ct.converts_inplace(se)
        except Exception as ex:
            res.add(name, PROVED, None, time.time() - t0, "enumeration", f"converts_inplace raises {type(ex).__name__}: never 'in place'")
            continue
        if not ans:
            res.add(name, PROVED, None, time.time() - t0, "enumeration", f"{R}: False - the page is decoded by read_plain and copied")
            continue
        try:
            dt = np.dtype(predicted_dtype(M, se))
        except Exception as ex:
            res.add(name, UNKNOWN, None, time.time() - t0, "enumeration", f"typemap refuses: {ex}")
            continue
        ptn = row["type"]
        vals = reader_boundary(row) or ([True, False, True, True, False, False, False, True, True, False, True] if ptn == "BOOLEAN" else [])
        # PLAIN encoding of the boundary values, written here from the format description
        if ptn == "BOOLEAN":
            plain = bytes(sum((1 << i) for i, v in enumerate(vals[k:k + 8]) if v) for k in range(0, len(vals), 8))
        elif ptn == "INT96":
            plain = b"".join(struct.pack("<qi", v["ns"], v["day"]) for v in vals)
        elif ptn in PHYS_DT:
            plain = np.array(vals, dtype=PHYS_DT[ptn]).tobytes()
        else:
            vals = [b"ab", b"", b"xyz\x00"] if ptn == "BYTE_ARRAY" else [b"abcd", b"\x00\x01\x02\x03"]
            plain = b"".join((struct.pack("<i", len(x)) if ptn == "BYTE_ARRAY" else b"") + x for x in vals)
        n = len(vals)
        assign = np.empty(n, dtype=dt)
        # (a) the PLAIN read-into site, under ITS guards evaluated on this output
        try:
            see = bool(eval(compile(ast.Expression(see_expr), "<see>", "eval"), {"se": se, "assign": assign, "simple": simple, "np": np})) \
                if see_expr is not None else True
        except Exception:
            see = True
        admitted = see and dt.kind != "O" and dt.kind not in "Mm"
        why = None
        if admitted:
            try:
                with warnings.catch_warnings(), np.errstate(all="ignore"):
                    warnings.simplefilter("ignore")
                    assign.view("uint8")[:] = np.frombuffer(plain, dtype="uint8")
                    M.ct.convert(assign, se)                      # result discarded, as in the source
                if ptn == "BOOLEAN":
                    got, exp = [bool(x) for x in assign], [bool(x) for x in vals]
                elif ptn in PHYS_DT and ptn != "INT96":
                    exp = []
                    for v in vals:
                        x = z3.IntVal(int(v)) if np.dtype(PHYS_DT[ptn]).kind != "f" else z3.Q(*fractions.Fraction(float(v)).as_integer_ratio())
                        try:
                            exp.append(_pyval(spec_meaning(f, x)[1]))
                        except Unsupported:
                            exp.append(int(v) if np.dtype(PHYS_DT[ptn]).kind != "f" else fractions.Fraction(float(v)))
                    got = []
                    for y in assign:
                        b = int(np.asarray(y).view("i8")) if dt.kind in "Mm" else (fractions.Fraction(float(y)) if dt.kind == "f" else int(y))
                        got.append(_pyval(pandas_meaning(dt, z3.IntVal(b) if dt.kind != "f" else z3.Q(b.numerator, b.denominator))[1]))
                else:
                    got, exp = None, "?"
                if got != exp:
                    why = f"PLAIN read-into: {n} values {vals[:6]} encoded as {plain[:12].hex()}.. copied into {dt} give {list(assign[:6])}"
            except Exception as ex:
                why = f"PLAIN read-into: copying the {len(plain)} PLAIN bytes of {n} values into {n} x {dt} raises {type(ex).__name__}: {str(ex)[:80]}"
        # (b) the DELTA site: guarded by converts_inplace(se) alone
        why_b = None
        if ptn in ("INT32", "INT64") and dt.itemsize != np.dtype(PHYS_DT[ptn]).itemsize:
            why_b = (f"DELTA_BINARY_PACKED branch (guard: converts_inplace(se) only): {ptn} values are decoded straight into {dt} items of "
                     f"{dt.itemsize} bytes, then convert(assign, se) runs on that array")
        det = (f"{R}: True; announced dtype {dt}; PLAIN read-into " + ("admitted by its guards (see, kind): the PLAIN bytes copied into the output, "
               "then convert in place, are the spec's values" if admitted else
               f"excluded by its guards (see={see}, output kind {dt.kind!r}; posed as read_data_page_v2.plain_read_into_guards): nothing claimed there")
               + ("; DELTA site (guard: converts_inplace only): announced item size == physical item size" if ptn in ("INT32", "INT64") else ""))
        if why or why_b:
            res.add(name, REFUTED, {"converts_inplace": True, "announced_dtype": str(dt), "why": why or why_b, "site": "plain" if why else "delta"},
                    time.time() - t0, "enumeration", det)
        else:
            res.add(name, PROVED, None, time.time() - t0, "enumeration", det)


# ==== writer.convert against an ARBITRARY numeric schema element of the dataset (append / overwrite / write_row_groups) ======================
# append, append='overwrite' and ParquetFile.write_row_groups check column NAMES only and hand the frame to the schema of the existing
# dataset: the (dtype, schema element) pair is NOT the one make_metadata would produce together.  For every dtype D of writer.typemap and
# every numeric schema element find_type can produce (physical type T in writer.revmap, with its converted type):
#   convert.cast_target_is_the_schema_elements_physical_type[D -> T]   the array handed to the encoder has the item dtype of T (LogicalTypes /
#        PLAIN: INT32 <i4, INT64 <i8, FLOAT <f4, DOUBLE <f8), so encode_plain's bytes are T's PLAIN bytes - or convert raises      (symbolic run)
#   convert.cast_to_schema_type_preserves_value[D -> T]                 every value the column's annotated type can hold is written as itself
#   convert.cast_to_schema_type_raises_or_keeps_value[D -> T]  (C09)    ALL values: raises, or nothing narrowed / rounded / truncated
FID_NARROW = "C09-P-frame-dtype-wider-than-dataset-column-narrowed-silently"


def numeric_schema_elements(M):
    """the numeric schema elements the real find_type produces (type in revmap), by (type, converted type)"""
    out = {}
    for row in writer_rows(M.pd):
        if row["kind"] not in ("int", "uint", "float") or row.get("categories") or "vals" in row:
            continue
        try:
            ser = row["make"](boundary_values(row)[:2])
            se, _ = M.writer.find_type(ser)
        except Exception:
            continue
        if se.type in getattr(M.writer, "revmap", {}):
            out.setdefault((se.type, se.converted_type), se)
    return out


def _cast_rows(M):
    pd = M.pd
    rows = []
    for name in getattr(M.writer, "typemap", {}):
        for mk in ((lambda vals, d=name: pd.Series(np.array(vals, dtype=d), name="x")), (lambda vals, d=name: pd.Series(pd.array(list(vals), dtype=d), name="x"))):
            try:
                s0 = mk([0, 1])
                if s0.dtype.name != name:
                    continue
            except Exception:
                continue
            vals = s0.values
            vdt = vals.dtype if isinstance(vals, np.ndarray) else np.dtype(s0.dtype.numpy_dtype)
            rows.append({"name": name, "make": mk, "vdt": vdt})
            break
    return rows


def _cast_boundary(vdt):
    if vdt.kind == "b":
        return [False, True]
    if vdt.kind == "f":
        fi = np.finfo(vdt)
        return [0.0, 1.0, -2.0, 1.5, 7.0, 2.0 ** 24 + 1, 2.0 ** 31, -2.0 ** 31 - 1, 2.0 ** 53 + 2, 3.0e9, float(fi.max), 0.1]
    lo, hi = rng_of(vdt)
    return sorted({x for x in (lo, hi, 0, 1, 7, -1, 127, 128, 255, 256, 32767, 32768, 65535, 65536, 2 ** 24 + 1, 2 ** 31 - 1, 2 ** 31, 2 ** 32 - 1, 2 ** 32,
                               2 ** 53 + 1, 2 ** 63 - 1, 2 ** 63) if lo <= x <= hi})


def _as_real(t):
    return z3.ToReal(t) if z3.is_expr(t) and t.sort() == z3.IntSort() else t


def check_cast_target(ctx, M, res, timeout, all_values=False):
    ses = numeric_schema_elements(M)
    rows = _cast_rows(M)
    n_pairs = 0
    silent = []
    for (T, cv), se in sorted(ses.items(), key=lambda kv: (kv[0][0], kv[0][1] if kv[0][1] is not None else -1)):
        f = se_facts(M.pt, se)
        tname = f["type"] + ("/" + f["converted"] if f["converted"] else "")
        pdt = np.dtype(PHYS_DT[f["type"]])
        for row in rows:
            D, vdt = row["name"], row["vdt"]
            key = f"{D} -> {tname}"
            n1, n2, n3 = (f"convert.cast_target_is_the_schema_elements_physical_type[{key}]", f"convert.cast_to_schema_type_preserves_value[{key}]",
                          f"convert.cast_to_schema_type_raises_or_keeps_value[{key}]")
            n_pairs += 1
            try:
                v, vdt, outs, eng = run_writer_convert(M, row, se, row["make"]([0, 1]))
            except Unsupported as ex:
                res.add(n1, UNKNOWN, None, 0.0, "engine", f"out of reach: {ex}")
                continue
            rets = [q for q in outs if q.ctl[0] == "ret"]
            if not rets:
                res.add(n1, PROVED, None, 0.0, "engine", f"convert raises for every value ({'; '.join(sorted({str(q.ctl[1]) for q in outs}))}): nothing is written")
                continue
            paths = []
            for q in rets:
                r = q.ctl[1]
                rdt = r.h.dt if is_narr(r) else None
                ok = rdt is not None and rdt == pdt
                res.add(n1, PROVED if ok else REFUTED, None if ok else {"frame_dtype": D, "schema_element": annotation_name(f), "array_handed_to_the_encoder": str(rdt),
                                                                        "PLAIN_item_dtype_of_the_schema_type": str(pdt)}, 0.0, "engine (symbolic run)",
                        f"frame column {D}, dataset column {annotation_name(f)}: the array writer.convert returns has item dtype {pdt} "
                        f"(the PLAIN layout of {f['type']}), so encode_plain writes {f['type']} values - on every returning path")
                if not ok:
                    continue
                e = r.h.load(q)
                try:
                    cls_s, val_s, valid_s = spec_meaning(f, e)
                    cls_p, val_p = pandas_meaning(vdt, v)
                except Unsupported as ex:
                    res.add(n2, UNKNOWN, None, 0.0, "engine", str(ex))
                    continue
                goal = z3.And(valid_s, _as_real(val_s) == _as_real(val_p))
                # the values the dataset column can hold: the range of its annotated integer type (UINT_32: 0 .. 2**32 - 1, INT_8: -128 .. 127)
                cvn = f["converted"]
                if pdt.kind == "f":
                    in_col = z3.BoolVal(True)
                else:
                    bits = int(cvn.split("_")[1]) if cvn else pdt.itemsize * 8
                    clo, chi = (0, 2 ** bits - 1) if (cvn or "").startswith("UINT") else (-2 ** (bits - 1), 2 ** (bits - 1) - 1)
                    in_col = z3.And(_as_real(val_p) >= clo, _as_real(val_p) <= chi)
                hyp = list(q.pc) + [events_ok(q), in_col]
                st0, _, _ = solve(hyp, timeout)
                if st0 == REFUTED:
                    res.vac["requires_sat"] += 1
                    # "values the dataset column can hold": the annotated range too (an INT_8 column holds -128..127)
                    st, m, secs = solve(hyp + [valid_s, z3.Not(goal)], timeout)
                    res.add(n2, st, _model(m, v=v, written=e, written_means=val_s, cell=val_p), secs, "z3",
                            f"every {D} value that {annotation_name(f)} can hold (no narrowing / rounding / truncation needed) is written as itself")
                else:
                    res.add(n2, PROVED, None, 0.0, "z3", f"no {D} value is guaranteed to survive the cast to {pdt} (always flagged as lossy): nothing claimed")
                stw, mw, secsw = solve(list(q.pc) + [z3.Not(z3.And(events_ok(q), valid_s, goal))], timeout)
                if stw == REFUTED:
                    silent.append(key)
                if all_values:
                    mod = _model(mw, v=v, written=e)
                    if mw is not None:
                        mod["lossy"] = _why_events(mw, q) or ["the value written is outside the range of the column's annotated type"]
                    res.add(n3, stw, mod, secsw, "z3", f"ALL {D} values: convert raises, or the value fits {annotation_name(f)} and nothing was narrowed, "
                            "rounded or truncated (C18: 'values that cannot be encoded as declared' end in an exception)")
                paths.append((q, v, e))
            # translation validation of the cast model on boundary values where no event fires
            n_ok = n_bad = 0
            bad = []
            for val in _cast_boundary(vdt):
                try:
                    with warnings.catch_warnings(), np.errstate(all="ignore"):
                        warnings.simplefilter("ignore")
                        out = np.asarray(M.writer.convert(row["make"]([val]), se))
                    nat = fractions.Fraction(float(out[0])) if out.dtype.kind == "f" else int(out[0])
                except Exception:
                    continue
                if vdt.kind == "f" and not np.isfinite(np.array([val]).astype(vdt)[0]):
                    continue
                sv = fractions.Fraction(float(np.array([val], dtype=vdt)[0])) if vdt.kind == "f" else int(val)
                for q, v_, e in paths:
                    subs = [(v_, z3.Q(sv.numerator, sv.denominator) if vdt.kind == "f" else z3.IntVal(sv))]
                    if _subst_eval(events_ok(q), subs) is not True:
                        continue
                    pm = _subst_eval(e, subs)
                    if pm is None:
                        # float -> int goes through a constrained fresh integer: compare through the constraint instead
                        st_, _, _ = solve([c for c in q.pc] + [v_ == subs[0][1], e != int(nat)] if not isinstance(nat, fractions.Fraction) else [z3.BoolVal(False)], 2000)
                        good = st_ == PROVED
                    else:
                        good = fractions.Fraction(pm) == nat
                    n_ok += 1 if good else 0
                    if not good:
                        n_bad += 1
                        bad.append({"v": str(val), "model": str(pm), "native": str(nat)})
            if n_ok + n_bad:
                if ctx is not None:
                    ctx.tv["inputs"] += n_ok + n_bad
                    ctx.tv["mismatches"] += n_bad
                if n_bad:
                    res.add(f"units.model_agrees_with_native[writer.convert,{key}]", UNKNOWN, {"mismatches": bad[:4]}, 0.0, EXEC, "cast model vs native convert")
    if ctx is not None:
        ctx.vacuity["covers"] += n_pairs
        ctx.note(f"convert vs an arbitrary numeric schema element: {len(rows)} frame dtypes x {len(ses)} schema elements = {n_pairs} pairs; "
                 f"{len(silent)} pairs narrow / round / truncate some value without raising (frame dtype wider than the dataset column: outside "
                 "C07's 'same dtypes' quantifier; posed for C09 as convert.cast_to_schema_type_raises_or_keeps_value)")
    return n_pairs


def _native_cast_case(M, name):
    """-> failure text on the real code for the pair in `name`, or None"""
    key = name[name.index("[") + 1:-1]
    D, tname = key.split(" -> ")
    row = next((r for r in _cast_rows(M) if r["name"] == D), None)
    se = next((s for (T, cv), s in numeric_schema_elements(M).items()
               if se_facts(M.pt, s)["type"] + ("/" + se_facts(M.pt, s)["converted"] if se_facts(M.pt, s)["converted"] else "") == tname), None)
    if row is None or se is None:
        return None
    f = se_facts(M.pt, se)
    pdt = np.dtype(PHYS_DT[f["type"]])
    for val in _cast_boundary(row["vdt"]):
        try:
            with warnings.catch_warnings(), np.errstate(all="ignore"):
                warnings.simplefilter("ignore")
                if row["vdt"].kind == "f" and not np.isfinite(np.array([val]).astype(row["vdt"])[0]):
                    continue
                ser = row["make"]([val])
                out = np.asarray(M.writer.convert(ser, se))
                raw = bytes(M.writer.encode_plain(ser, se))
        except Exception:
            continue
        if out.dtype != pdt:
            back = np.frombuffer(raw[:pdt.itemsize * (len(raw) // pdt.itemsize)], dtype=pdt)
            return (f"{D} value {val!r} for a {annotation_name(f)} column: convert returns {out.dtype}, encode_plain writes {raw.hex()} "
                    f"which a reader of {f['type']} decodes as {back.tolist()}")
        if name.startswith("convert.cast_target"):
            continue
        sv = fractions.Fraction(float(np.array([val], dtype=row["vdt"])[0])) if row["vdt"].kind == "f" else fractions.Fraction(int(val))
        x = z3.Q(*fractions.Fraction(float(out[0])).as_integer_ratio()) if pdt.kind == "f" else z3.IntVal(int(out[0]))
        _, sm, valid = spec_meaning(f, x)
        # what the column reads back as: the annotated type applied by converted_types.convert
        back = np.asarray(M.ct.convert(np.frombuffer(raw, dtype=pdt).copy(), se))
        bv = fractions.Fraction(float(back[0])) if back.dtype.kind == "f" else fractions.Fraction(int(back[0]))
        if bv != sv and not (isinstance(val, float) and not np.isfinite(val)):
            return f"{D} value {val!r} appended to a {annotation_name(f)} column is written as {out[0]!r} and reads back as {back[0]!r}, without any exception"
    return None
