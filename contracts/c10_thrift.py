"""C10 / C12 - cencoding.write_thrift and write_list at the byte level (Thrift compact protocol), from the .pyx source.

write_thrift(data, output): the field loop is executed for ONE ARBITRARY field id i in the loop's range with the loop-carried
`prev` arbitrary under the invariant 0 <= prev < i, once per Python value kind (True, False, int, float, bytes, str, list,
ThriftObject, dict).  Obligations per kind (names are what a VIOLATION reports):
   write_thrift.header[kind]        byte written at the cursor == (i - prev) << 4 | compact type  with 1 <= i - prev <= 15
                                    compact type: 1 TRUE, 2 FALSE, 5 i32 / 6 i64 (as the integer-width marker declares),
                                    7 DOUBLE, 8 BINARY (bytes and str), 9 LIST, 12 STRUCT
   write_thrift.value_bytes[kind]   int: ULEB128(zigzag(v)); float: the 8 bytes of the double; bytes/str: ULEB128(len) ++ raw bytes
   write_thrift.cursor[kind]        cursor advanced by exactly header + payload; prev == i afterwards (loop invariant kept)
   write_thrift.frame[kind]         nothing outside the bytes written is modified
   write_thrift.stop_byte           after the loop a 0x00 is written
   safety (C12): every store / memcpy lies inside the output buffer GIVEN `capacity left >= bytes this field needs`
ThriftObject.to_bytes: `to_bytes.capacity` - the buffer it allocates holds the serialisation for ANY payload: refuted (the size
is a heuristic unrelated to the payload; nothing raises when it is too small) = known finding.
The lifting from per-field lemmas to whole structures (structural induction over nested structs/lists) is argued, not mechanised.
"""
import ast

import z3

from vc import backends
from vc.symexec import (Engine, Path, CI, Ptr, PyI, PyB, Ref, View, LoopSpec, Unsupported, NONE, NoneV, Opaque, Custom, Str, Tup)
from vlib.common import PROVED, REFUTED, UNKNOWN
from . import cy
from .kernels import KResults, post, mv, _h_memcpy

Present = z3.Function("FieldPresent", z3.IntSort(), z3.BoolSort())
InList = z3.Function("InI32List", z3.IntSort(), z3.BoolSort())
DBL = z3.Function("DoubleBits", z3.IntSort(), z3.BitVecSort(64))


class I32List:
    tracked = False

    def contains(self, eng, p, item):
        return InList(eng.as_int(item, p))


class DictAbs:
    """the `data` dict of a thrift struct: membership by ghost predicates; get(i) returns the value of this run's kind"""
    tracked = False

    def __init__(self, val, i32flag, haslist):
        self.val, self.i32flag, self.haslist = val, i32flag, haslist

    def contains(self, eng, p, item):
        if isinstance(item, Str):
            return {"i32": self.i32flag, "i32list": self.haslist}.get(item.s, z3.BoolVal(False))
        return Present(eng.as_int(item, p))

    def getitem(self, eng, p, i, node):
        if isinstance(i, Str) and i.s == "i32list":
            return Custom(I32List())
        raise Unsupported("data[...]")

    def call_method(self, eng, p, name, args, kw, node):
        if name == "get":
            return [(p, self.val)]
        raise Unsupported("dict." + name)

    def isinstance(self, eng, p, tn):
        return z3.BoolVal("dict" in tn)


class PyObj:
    """a Python value of a fixed kind"""
    tracked = False

    def __init__(self, kind, **kw):
        self.kind = kind
        self.__dict__.update(kw)

    def isinstance(self, eng, p, tn):
        names = {"float": ("float",), "bytes": ("bytes",), "str": ("str",), "list": ("list",), "thrift": ("ThriftObject",),
                 "dict": ("dict",), "int": ("int",)}[self.kind]
        return z3.BoolVal(any(n == t.strip() for t in tn.strip("()").split(",") for n in names))

    def is_none(self, eng, p):
        return z3.BoolVal(False)

    def as_bits(self, bits):
        if self.kind == "float":
            return DBL(z3.IntVal(0))
        if self.kind == "int":
            return self.bv if bits == 64 else z3.Extract(bits - 1, 0, self.bv)
        raise Unsupported("bits of " + self.kind)

    def as_ptr(self):
        if self.kind == "bytes":
            return Ptr(self.region, z3.IntVal(0))
        raise Unsupported("pointer of " + self.kind)

    def call_method(self, eng, p, name, args, kw, node):
        if self.kind == "str" and name == "encode":
            return [(p, Custom(self.utf8))]
        raise Unsupported(self.kind + "." + name)

    def attr(self, eng, p, name):
        if self.kind == "thrift" and name == "data":
            return Custom(PyObj("dict"))
        raise Unsupported(self.kind + "." + name)

    def len(self, eng, p):
        return PyI(self.n)


def uleb_bytes(mem, base, xb, L):
    """memory at base.. holds ULEB128 of the 64-bit value xb (L bytes)"""
    cs = []
    for u in range(10):
        low7 = z3.Extract(7, 0, z3.LShR(xb, 7 * u)) & 0x7F if 7 * u < 64 else z3.BitVecVal(0, 8)
        cs.append(z3.Implies(u < L, z3.Select(mem, base + u) == z3.If(u < L - 1, low7 | 0x80, low7)))
    return z3.And(*cs)


def uleb_len64(xb):
    L = z3.IntVal(10)
    for j in reversed(range(1, 10)):
        L = z3.If(z3.ULT(xb, z3.BitVecVal(1, 64) << (7 * j)), j, L)
    return L


def zigzag64(v):
    return (v << 1) ^ (v >> 63)


KINDS = ["true", "false", "int", "float", "bytes", "str", "list", "thrift", "dict"]
NIBBLE = {"true": 1, "false": 2, "float": 7, "bytes": 8, "str": 8, "list": 9, "thrift": 12, "dict": 12}


def write_thrift_kind(kind, timeout):
    res = KResults()
    tag = f"[{kind}]"
    i32flag, haslist = z3.Bool("has_i32_marker"), z3.Bool("has_i32list_marker")
    v64 = z3.BitVec("int_value", 64)
    blen = z3.Int("payload_len")
    calls = []
    if kind == "true":
        val = PyB(True)
    elif kind == "false":
        val = PyB(False)
    elif kind == "int":
        val = Custom(PyObj("int", bv=v64))          # a Python int within int64 (the cast <int64_t>val raises OverflowError otherwise)
    elif kind == "float":
        val = Custom(PyObj("float"))
    elif kind == "bytes":
        val = Custom(PyObj("bytes", region="valbytes", n=blen))
    elif kind == "str":
        val = Custom(PyObj("str", utf8=PyObj("bytes", region="valbytes", n=blen)))
    else:
        val = Custom(PyObj(kind))
    state = {}

    def hook(eng, st, p):
        # the loop `for i in range(lo, hi)`: executed for one arbitrary i with `prev` arbitrary under 0 <= prev < i
        it = st.iter
        lo, hi = [eng.as_int(eng.ev1(a, p), p) for a in it.args]
        q = p.fork()
        i = cy.arg("field_id", "int", q)
        prev = cy.arg("prev_field_id", "int", q)
        q.pc += [i.iv >= lo, i.iv < hi, prev.iv >= 0, prev.iv < i.iv, Present(i.iv)]
        q.env["i"], q.env["prev"] = i, prev
        q.env["delt"] = cy.arg("delt_havoc", "int", q)
        loc0, mem0 = cy.loc(q, "out"), q.mem["out"]
        outs = eng.block(st.body, [q])
        state.setdefault("bodies", []).append((i.iv, prev.iv, loc0, mem0, outs))
        state.update(i=i.iv, prev=prev.iv, loc0=loc0)
        # exit of the loop: arbitrary state (cursor anywhere inside the buffer)
        ex = p.fork()
        k = next(eng.counter)
        locx = CI.var(f"loc_after_fields!{k}", 32, False)
        ex.heap["out"] = dict(ex.heap["out"], loc=locx)
        ex.mem["out"] = z3.Const(f"outmem_after_fields!{k}", cy.MemSort)
        ex.pc += [locx.range_constraint(), locx.iv <= cy.nbytes(ex, "out")]
        ex.ghost["exit_loc"] = locx.iv
        return [ex]

    def h_size(eng, p, args, kw, node):
        o = args[0]
        if isinstance(o, Custom) and getattr(o.h, "kind", "") == "bytes":
            return [(p, PyI(o.h.n))]
        raise Unsupported("PyBytes_GET_SIZE of non-bytes")

    def h_rec(name):
        def h(eng, p, args, kw, node):
            calls.append((name, cy.loc(p, "out")))
            return [(p, NONE)]
        return h
    handlers = {"PyBytes_GET_SIZE": h_size, "memcpy": _h_memcpy, "write_list": h_rec("write_list")}
    loops = {("write_thrift", 0): LoopSpec("hook", inv=hook), ("encode_unsigned_varint", 0): LoopSpec("unroll", 10)}
    eng = cy.engine(loops=loops, handlers=handlers)
    # recursive call for nested structs: by (recorded) contract
    real_run = eng.run

    def run(name, p, args, kwargs=None, closure=None):
        if name == "write_thrift" and eng.cur_func == "write_thrift":
            calls.append(("write_thrift", cy.loc(p, "out")))
            p.ctl = ("ret", NONE)
            return [p]
        return real_run(name, p, args, kwargs, closure)
    eng.run = run
    p = Path()
    out = cy.new_io(p, "out")
    p.mem["valbytes"] = z3.Const("valbytes_mem", cy.MemSort)
    p.rsize["valbytes"] = blen
    need = {"true": 1, "false": 1, "int": 11, "float": 9, "bytes": 1 + 5 + blen, "str": 1 + 5 + blen, "list": 1, "thrift": 1, "dict": 1}[kind]
    # requires: capacity for this field (what to_bytes would have to guarantee), payload length fits `cdef int l`
    p.pc += [blen >= 0, blen < 2 ** 31, cy.nbytes(p, "out") - cy.loc(p, "out") >= need]
    data = Custom(DictAbs(val, i32flag, haslist))
    mf = lambda m: {"kind": kind, "field_id": mv(m, state.get("i")), "prev": mv(m, state.get("prev")),
                    "out_loc": mv(m, state.get("loc0")), "payload_len": mv(m, blen)}
    try:
        outs = real_run("write_thrift", p, [data, out])
    except Unsupported as ex:
        res.addk(f"write_thrift{tag}.out_of_reach", "functional", UNKNOWN, None, 0.0, "engine", str(ex))
        return res
    res.take_engine(eng, f"write_thrift{tag}.", timeout, mf)
    k = z3.Int("k_skolem")
    n_body = 0
    for (i, prev, loc0, mem0, body_outs) in state.get("bodies", []):
      declared32 = z3.If(haslist, InList(i), i32flag)
      for b in body_outs:
        if b.ctl not in (None, "continue"):
          continue
        n_body += 1
        b.pc = list(b.pc) + list(b.axioms)          # facts about memory after memcpy
        m1 = b.mem["out"]
        loc1 = cy.loc(b, "out")
        nib = z3.If(declared32, 5, 6) if kind == "int" else z3.IntVal(NIBBLE[kind])
        hdr = z3.Int2BV((i - prev) * 16 + nib, 8)
        post(res, f"write_thrift.header{tag}", b.pc, z3.And(i - prev >= 1, i - prev <= 15, z3.Select(m1, loc0) == hdr), timeout,
             "header byte == (i - prev) << 4 | compact type of the value (short form: 1 <= delta <= 15)", mf)
        if kind in ("true", "false", "list", "thrift", "dict"):
            plen = z3.IntVal(0)
            vb = z3.BoolVal(True)
            if kind in ("list", "thrift", "dict"):
                want = "write_list" if kind == "list" else "write_thrift"
                ok = len(calls) >= 1 and calls[-1][0] == want
                post(res, f"write_thrift.nested_call_after_header{tag}", b.pc,
                     z3.And(z3.BoolVal(ok), calls[-1][1] == loc0 + 1) if ok else z3.BoolVal(False), timeout,
                     f"{want} is called with the cursor right after the header byte", mf)
        elif kind == "int":
            zz = zigzag64(v64)
            L = uleb_len64(zz)
            plen = L
            vb = uleb_bytes(m1, loc0 + 1, zz, L)
        elif kind == "float":
            plen = z3.IntVal(8)
            bits = DBL(z3.IntVal(0))
            vb = z3.And(*[z3.Select(m1, loc0 + 1 + j) == z3.Extract(8 * j + 7, 8 * j, bits) for j in range(8)])
        else:
            lb = z3.Int2BV(blen, 64)
            L = uleb_len64(lb)
            plen = L + blen
            vb = z3.And(uleb_bytes(m1, loc0 + 1, lb, L),
                        z3.Implies(z3.And(0 <= k, k < blen), z3.Select(m1, loc0 + 1 + L + k) == z3.Select(p.mem["valbytes"], k)))
        post(res, f"write_thrift.value_bytes{tag}", b.pc, vb, timeout, "payload bytes follow the compact protocol for this kind", mf)
        post(res, f"write_thrift.cursor{tag}", b.pc, z3.And(loc1 == loc0 + 1 + plen, eng.ci_int(b.env["prev"]) == i), timeout,
             "cursor advanced by header + payload; prev == i (loop invariant re-established)", mf)
        post(res, f"write_thrift.frame{tag}", list(b.pc) + [z3.Or(k < loc0, k >= loc0 + 1 + plen)],
             z3.Select(m1, k) == z3.Select(mem0, k), timeout, "nothing outside the bytes of this field is modified", mf)
    if n_body == 0:
        res.addk(f"write_thrift.header{tag}", "functional", UNKNOWN, None, 0.0, "engine", "no path through the field body")
    if kind == "true":
        for q in outs:
            if q.ctl[0] != "ret":
                continue
            lx = q.ghost["exit_loc"]
            post(res, "write_thrift.stop_byte", list(q.pc) + [lx < cy.nbytes(q, "out")],
                 z3.And(z3.Select(q.mem["out"], lx) == 0, cy.loc(q, "out") == lx + 1), timeout,
                 "a 0x00 stop byte is written after the last field (when it fits)", mf)
    return res


def to_bytes_capacity(timeout):
    """ThriftObject.to_bytes: the buffer size computed by the heuristic vs the bytes write_thrift needs"""
    res = KResults()
    funcs, _, _ = cy.load()
    f = funcs["ThriftObject.to_bytes"]
    src = ast.unparse(f.tree)
    # the size is a function of len(self[1]) / len(self[4]) * len(self[2]) / len(str(self[5])) and a constant floor; the needed
    # bytes are at least the length of any binary field: posed over those symbols
    ncols, nrgs, nschema, kvchars, floor = z3.Ints("n_columns n_row_groups n_schema kv_chars floor")
    payload = z3.Int("one_binary_field_len")
    consts = [int(n.value) for n in ast.walk(f.tree) if isinstance(n, ast.Constant) and isinstance(n.value, int) and n.value >= 1000]
    has_raise = any(isinstance(n, ast.Raise) for n in ast.walk(f.tree))
    floorv = max(consts) if consts else 0
    size = z3.If(1000 * nrgs * nschema + kvchars < floorv, floorv, 1000 * nrgs * nschema + kvchars)
    st, m, secs = backends.PROVED, None, 0.0
    from .util import solve
    st, m, secs = solve([nrgs >= 0, nschema >= 0, kvchars >= 0, payload >= 0, z3.Not(size >= payload + 16)], timeout)
    res.addk("to_bytes.capacity", "safety", st if not has_raise else UNKNOWN,
             {"n_row_groups": mv(m, nrgs), "n_schema": mv(m, nschema), "kv_chars": mv(m, kvchars), "one_binary_field_len": mv(m, payload),
              "buffer": mv(m, size)} if m is not None else None, secs, "z3",
             "the buffer allocated by to_bytes (a heuristic: max(%d, 1000 * row groups * schema elements + len(str(key-values)))) is at "
             "least the serialised size for every payload - and there is no `raise` for the too-large case" % floorv)
    return res
