"""C11 / C12 - contracts on the native kernels of cencoding.pyx, discharged on the source extracted from the
.pyx on every run (vc.front_cy), with C integer semantics (vc.symexec).

Every check function returns a `Results`; obligation names are what a VIOLATION reports.  Obligations come in
two kinds, recorded in Results.kind[name]:
   'functional'  (C11)  the value computed / the bytes written / the cursor reached equal the specification
   'safety'      (C12)  load/store inside the region it was handed, shift amount < promoted width, no division
                        by zero, unwinding assertions (loop bounded by operand width)
Specifications are written from the Parquet format's "Encodings" text and the Thrift compact protocol
(ULEB128 varints, zigzag, LSB-first bit packing, RLE runs), not from the code.
"""
import ast
import time

import z3

from vc import backends
from vc.symexec import (Engine, Path, CI, Ptr, PyI, PyB, Ref, View, LoopSpec, Unsupported, NONE, NoneV, Opaque, CT)
from vlib.common import PROVED, REFUTED, UNKNOWN
from . import cy
from .util import Results, solve

SAFETY_KINDS = ("safety", "unwind", "assert")
ASSUMED = [
    "two's-complement wrap on signed overflow in + - * and on left shift of negative values (gcc/clang; the .so is built without -ftrapv)",
    "`char` is signed (x86-64 Linux); little-endian multi-byte loads and stores",
    "pointer offsets are mathematical integers (no 64-bit address wrap)",
    "each NumpyIO owns a region of exactly `nbytes` bytes starting at `ptr` (what NumpyIO.__cinit__ establishes from a contiguous array)",
    "Cython compiles the extracted subset as the front end models it: validated every run by differential execution of the "
    "extracted function (concrete inputs through the same executor) against the compiled extension",
]


class KResults(Results):
    def __init__(self):
        super().__init__()
        self.kind = {}
        self.models = {}

    def addk(self, name, kind, status, model=None, secs=0.0, backend="z3", detail=None):
        self.kind[name] = kind
        self.add(name, status, model, secs, backend, detail)

    def take_engine(self, eng, prefix, timeout, model_fn=None):
        for ob in eng.oblig:
            st, be, secs, m = backends.discharge(ob, timeout)
            nm = prefix + ob.name.split(".", 1)[-1]
            self.kind[nm] = "safety" if ob.kind in SAFETY_KINDS else "functional"
            self.add(nm, st, model_fn(m) if (m is not None and model_fn) else ({"z3_model": str(m)[:400]} if m is not None else None),
                     secs, be, ob.note or ob.kind)
        eng.oblig = []


def post(res, name, constraints, goal, timeout, detail, model_fn=None, kind="functional"):
    st, m, secs = solve(list(constraints) + [z3.Not(goal)], timeout)
    res.addk(name, kind, st, model_fn(m) if (m is not None and model_fn) else ({"z3_model": str(m)[:400]} if m is not None else None),
             secs, "z3", detail)
    return st


def mv(m, t):
    return backends.model_value(m, t)


# =================================================================================================
# zigzag, mask, width_from_max_int
# =================================================================================================
def k_zigzag(timeout):
    res = KResults()
    eng = cy.engine()
    n = z3.BitVec("n", 64)
    o = eng.run("zigzag_long", Path(), [CI(n, 64, False)])[0]
    r = o.ctl[1]
    spec = z3.If(n & 1 == 0, z3.LShR(n, 1), ~z3.LShR(n, 1))        # even -> n/2 ; odd -> -(n+1)/2 == ~(n>>1)
    post(res, "zigzag_long.matches_spec", o.pc, r.bv == spec, timeout, "zigzag_long(n) == n/2 if n even else -(n+1)/2 (all 2**64 n)",
         lambda m: {"n": mv(m, n)})
    x = z3.BitVec("x", 64)
    p = Path()
    o1 = eng.run("long_zigzag", p, [CI(x, 64, True)])[0]
    enc = o1.ctl[1]
    spec_e = z3.If(x >= 0, x << 1, ~(x << 1))                        # x >= 0 -> 2x ; x < 0 -> -2x-1
    post(res, "long_zigzag.matches_spec", o1.pc, enc.bv == spec_e, timeout, "long_zigzag(x) == 2x if x >= 0 else -2x-1 (all 2**64 x)",
         lambda m: {"x": mv(m, x)})
    o1.ctl = None
    o2 = eng.run("zigzag_long", o1, [enc])[0]
    post(res, "zigzag.roundtrip_i64", o2.pc, o2.ctl[1].bv == x, timeout, "zigzag_long(long_zigzag(x)) == x for every int64 x",
         lambda m: {"x": mv(m, x)})
    o3 = eng.run("long_zigzag", Path(), [eng.run("zigzag_long", Path(), [CI(n, 64, False)])[0].ctl[1]])[0]
    post(res, "zigzag.roundtrip_u64", [], o3.ctl[1].bv == n, timeout, "long_zigzag(zigzag_long(n)) == n for every uint64 n",
         lambda m: {"n": mv(m, n)})
    o4 = eng.run("zigzag_int", Path(), [CI(n, 64, False)])[0]
    post(res, "zigzag_int.is_low_32_bits_of_zigzag", [], o4.ctl[1].bv == z3.Extract(31, 0, spec), timeout,
         "zigzag_int(n) == low 32 bits of the zigzag decoding", lambda m: {"n": mv(m, n)})
    res.take_engine(eng, "zigzag.", timeout)
    return res


def k_mask(timeout):
    res = KResults()
    for i in range(0, 33):
        eng = cy.engine()
        o = eng.run("_mask_for_bits", Path(), [PyI(i, lit=True)])[0]
        r = o.ctl[1]
        want = (1 << i) - 1
        post(res, f"_mask_for_bits.value[i={i}]", o.pc, r.bv == z3.BitVecVal(want & 0xFFFFFFFF, 32), timeout,
             "low 32 bits of 2**i - 1", lambda m, i=i: {"i": i})
        res.take_engine(eng, f"_mask_for_bits[i={i}].", timeout, lambda m, i=i: {"i": i})
    return res


def k_width_from_max_int(timeout):
    res = KResults()
    eng = cy.engine(loops={("width_from_max_int", 0): LoopSpec("unroll", 64)})
    p = Path()
    v = cy.arg("value", "int64_t", p)
    p.pc.append(v.iv >= 0)
    outs = eng.run("width_from_max_int", p, [v])
    res.take_engine(eng, "width_from_max_int.", timeout, lambda m: {"value": mv(m, v.iv)})
    for q in outs:
        if q.ctl[0] != "ret":
            continue
        r = q.ctl[1]
        if isinstance(r, NoneV):
            # falling off the loop (value still non-zero after 64 halvings): impossible for value >= 0
            post(res, "width_from_max_int.always_returns_a_width", q.pc, z3.BoolVal(False), timeout,
                 "for value >= 0 the loop returns within 64 iterations", lambda m: {"value": mv(m, v.iv)})
            continue
        k = z3.simplify(r.iv if r.iv is not None else z3.BV2Int(r.bv, True))
        kk = k.as_long()
        goal = z3.And(v.iv < 2 ** kk, z3.Or(kk == 0, v.iv >= 2 ** (kk - 1)))
        post(res, "width_from_max_int.is_bit_length", q.pc, goal, timeout, "result == bit_length(value) for 0 <= value < 2**63",
             lambda m: {"value": mv(m, v.iv)})
    return res


# =================================================================================================
# varints
# =================================================================================================
def _uleb_spec_bv(mem, base, t):
    """value of the ULEB128 varint occupying bytes base .. base+t (t continuation bytes), mod 2**64"""
    acc = z3.BitVecVal(0, 64)
    for u in range(t + 1):
        b = z3.ZeroExt(56, z3.Select(mem, base + u) & 0x7F)
        acc = acc | (b << (7 * u)) if 7 * u < 64 else acc
    return acc


def k_read_varint(timeout):
    res = KResults()
    eng = cy.engine(loops={("read_unsigned_var_int", 0): LoopSpec("unroll", 10)})
    p = Path()
    f = cy.new_io(p, "f")
    loc0, n = cy.loc(p, "f"), cy.nbytes(p, "f")
    mem0 = p.mem["f"]
    # requires: a terminator byte (high bit clear) exists among the next 10 bytes, inside the buffer
    t = z3.Int("t_len")
    p.pc += [0 <= t, t < 10, loc0 + t < n, (z3.Select(mem0, loc0 + t) & 0x80) == 0]
    u_ = z3.Int("u_q")
    p.pc.append(z3.ForAll([u_], z3.Implies(z3.And(0 <= u_, u_ < t), (z3.Select(mem0, loc0 + u_) & 0x80) != 0)))
    outs = eng.run("read_unsigned_var_int", p, [f])
    mf = lambda m: {"bytes": [mv(m, z3.Select(mem0, loc0 + k)) for k in range(10)], "loc": mv(m, loc0), "nbytes": mv(m, n)}
    res.take_engine(eng, "read_unsigned_var_int.", timeout, mf)
    for q in outs:
        if q.ctl[0] != "ret":
            continue
        r = q.ctl[1]
        loc1 = cy.loc(q, "f")
        for tt in range(10):
            cs = list(q.pc) + [t == tt]
            if solve(cs, 2000)[0] == PROVED:     # path infeasible for this length
                continue
            post(res, f"read_unsigned_var_int.value[len={tt + 1}]", cs, r.bv == _uleb_spec_bv(mem0, loc0, tt), timeout,
                 "result == sum (byte_u & 0x7F) << 7u  (mod 2**64)", mf)
            post(res, f"read_unsigned_var_int.cursor[len={tt + 1}]", cs, loc1 == loc0 + tt + 1, timeout,
                 "cursor advanced by the encoded length", mf)
        post(res, "read_unsigned_var_int.input_not_written", q.pc, q.mem["f"] == mem0, timeout, "nothing is written", mf)
    return res


def k_encode_varint(timeout):
    res = KResults()
    eng = cy.engine(loops={("encode_unsigned_varint", 0): LoopSpec("unroll", 10),
                           ("read_unsigned_var_int", 0): LoopSpec("unroll", 10)})
    p = Path()
    o = cy.new_io(p, "o")
    x = z3.BitVec("x", 64)
    loc0, n = cy.loc(p, "o"), cy.nbytes(p, "o")
    mem0 = p.mem["o"]
    loc_ci0 = p.heap["o"]["loc"]
    outs = eng.run("encode_unsigned_varint", p, [CI(x, 64, False), o])
    mf = lambda m: {"x": mv(m, x), "loc": mv(m, loc0), "nbytes": mv(m, n)}
    res.take_engine(eng, "encode_unsigned_varint.", timeout, mf)
    k = z3.Int("k_skolem")
    n_paths = 0
    for q in outs:
        if q.ctl[0] != "ret":
            continue
        n_paths += 1
        loc1 = cy.loc(q, "o")
        # spec length L: smallest L >= 1 with x < 2**(7L)
        L = z3.Int("L_spec")
        lcs = [L >= 1, L <= 10]
        lspec = z3.And(*[z3.Implies(L == j, z3.And(z3.ULT(x, z3.BitVecVal(1, 64) << (7 * j)) if 7 * j < 64 else z3.BoolVal(True),
                                                   z3.UGE(x, z3.BitVecVal(1, 64) << (7 * (j - 1))) if j > 1 else z3.BoolVal(True)))
                         for j in range(1, 11)])
        cs = list(q.pc) + lcs + [lspec]
        w = z3.If(loc0 + L <= n, L, n - loc0)
        post(res, "encode_unsigned_varint.cursor", cs, loc1 == loc0 + w, timeout,
             "cursor advanced by min(uleb_len(x), capacity left): bytes beyond the buffer are silently dropped", mf)
        post(res, "encode_unsigned_varint.frame", cs, z3.Implies(z3.Or(k < loc0, k >= loc0 + w), z3.Select(q.mem["o"], k) == z3.Select(mem0, k)),
             timeout, "nothing outside [loc, loc + written) is modified", mf)
        # decoder o encoder = id  (when the whole varint fitted)
        q.ctl = None
        q2 = q.fork(loc0 + L <= n)
        q2.pc += lcs + [lspec]
        q2.heap["o"]["loc"] = loc_ci0                  # rewind the cursor to where the varint starts
        for r in eng.run("read_unsigned_var_int", q2, [o]):
            if r.ctl[0] != "ret":
                continue
            post(res, "varint.roundtrip_u64", list(r.pc) + lcs + [lspec], r.ctl[1].bv == x, timeout,
                 "read_unsigned_var_int(encode_unsigned_varint(x)) == x for every uint64 x", mf)
            post(res, "varint.roundtrip_cursor", list(r.pc) + lcs + [lspec], cy.loc(r, "o") == loc0 + L, timeout,
                 "the decoder consumes exactly the bytes the encoder wrote", mf)
        res.take_engine(eng, "varint.roundtrip.", timeout, mf)
    if n_paths == 0:
        res.addk("encode_unsigned_varint.paths", "functional", UNKNOWN, None, 0.0, "engine", "no returning path")
    return res


# =================================================================================================
# NumpyIO methods
# =================================================================================================
class Pre:
    def __init__(self, loc, n, mem):
        self.loc, self.n, self.mem = loc, n, mem


def k_numpyio(timeout):
    res = KResults()
    k = z3.Int("k_skolem")

    def run(method, args_fn, wf=True, pre=None):
        eng = cy.engine()
        p = Path()
        io = cy.new_io(p, "io", wf=wf)
        args = args_fn(p)
        if pre is not None:
            p.pc.append(pre(p))
        pre_state = Pre(cy.loc(p, "io"), cy.nbytes(p, "io"), p.mem["io"])
        outs = eng.run("NumpyIO." + method, p, [io] + args)
        mf = lambda m: {"loc": mv(m, pre_state.loc), "nbytes": mv(m, pre_state.n)}
        res.take_engine(eng, f"NumpyIO.{method}.", timeout, mf)
        return pre_state, outs, mf
    # write_byte / write_int / write_long: store LE at loc and advance, or do nothing when it does not fit
    for method, size, ctype in (("write_byte", 1, "uint8_t"), ("write_int", 4, "int32_t"), ("write_long", 8, "int64_t")):
        v = z3.BitVec("v", 8 * size)
        p, outs, mf = run(method, lambda p, v=v, size=size, ctype=ctype: [CI(v, 8 * size, CT[ctype][1])])
        loc0, n, mem0 = p.loc, p.n, p.mem
        for q in outs:
            fits = loc0 + size <= n
            m1 = q.mem["io"]
            stored = z3.And(*[z3.Select(m1, loc0 + b) == z3.Extract(8 * b + 7, 8 * b, v) for b in range(size)])
            post(res, f"NumpyIO.{method}.effect", q.pc,
                 z3.If(fits, z3.And(cy.loc(q, "io") == loc0 + size, stored), z3.And(cy.loc(q, "io") == loc0, m1 == mem0)),
                 timeout, "value stored little-endian at loc and loc advanced - or nothing at all when fewer bytes remain", mf)
            post(res, f"NumpyIO.{method}.frame", q.pc,
                 z3.Implies(z3.Or(k < loc0, k >= loc0 + size), z3.Select(m1, k) == z3.Select(mem0, k)), timeout,
                 "no other byte is modified", mf)
    # read_int / read_long
    for method, size in (("read_int", 4), ("read_long", 8)):
        p, outs, mf = run(method, lambda p: [])
        loc0, n, mem0 = p.loc, p.n, p.mem
        for q in outs:
            r = q.ctl[1]
            fits = loc0 + size <= n
            val = z3.Concat(*[z3.Select(mem0, loc0 + b) for b in reversed(range(size))])
            post(res, f"NumpyIO.{method}.effect", q.pc,
                 z3.If(fits, z3.And(r.bv == val, cy.loc(q, "io") == loc0 + size), z3.And(r.bv == 0, cy.loc(q, "io") == loc0)),
                 timeout, "little-endian value at loc and loc advanced - or 0 and no advance when fewer bytes remain", mf)
    # read_byte: requires loc < nbytes (unchecked in the code: callers must establish it)
    p, outs, mf = run("read_byte", lambda p: [], pre=lambda p: cy.loc(p, "io") < cy.nbytes(p, "io"))
    for q in outs:
        post(res, "NumpyIO.read_byte.effect", q.pc,
             z3.And(q.ctl[1].bv == z3.Select(p.mem, p.loc), cy.loc(q, "io") == p.loc + 1), timeout,
             "byte at loc, loc advanced by 1 (precondition loc < nbytes)", mf)
    # seek: loc' = min(target mod 2**32, nbytes)
    for wh in (0, 1, 2):
        off = z3.Int("off")
        p, outs, mf = run("seek", lambda p, off=off, wh=wh: [_ci_arg(p, "off", "int32_t"), PyI(wh, lit=True)])
        offv = z3.Int("off")
        loc0, n = p.loc, p.n
        tgt = {0: offv, 1: loc0 + offv, 2: n + offv}[wh] % (2 ** 32)
        for q in outs:
            post(res, f"NumpyIO.seek.effect[whence={wh}]", q.pc, cy.loc(q, "io") == z3.If(tgt > n, n, tgt), timeout,
                 "loc' == min(target mod 2**32, nbytes): the cursor never leaves the buffer", mf)
            post(res, f"NumpyIO.seek.keeps_class_invariant[whence={wh}]", q.pc, cy.loc(q, "io") <= n, timeout, "loc <= nbytes", mf)
    # tell, so_far, read
    p, outs, mf = run("tell", lambda p: [])
    for q in outs:
        rv = q.ctl[1].iv if q.ctl[1].iv is not None else z3.BV2Int(q.ctl[1].bv, True)
        post(res, "NumpyIO.tell.effect", q.pc, z3.Implies(p.loc < 2 ** 31, rv == p.loc), timeout,
             "returns loc (declared int32_t: exact below 2**31)", mf, kind="functional")
    p, outs, mf = run("so_far", lambda p: [])
    for q in outs:
        v = q.ctl[1]
        post(res, "NumpyIO.so_far.effect", q.pc, z3.And(v.off == 0, v.n == p.loc), timeout, "view of bytes [0, loc)", mf)
    xarg = z3.Int("x")
    p, outs, mf = run("read", lambda p: [_ci_arg(p, "x", "int32_t")])
    loc0, n = p.loc, p.n
    mfx = lambda m: dict(mf(m), x=mv(m, xarg))
    for q in outs:
        v = q.ctl[1]
        avail = n - loc0
        post(res, "NumpyIO.read.view[x>=1]", list(q.pc) + [xarg >= 1, loc0 + xarg < 2 ** 32], z3.And(v.off == loc0, v.n == z3.If(xarg < avail, xarg, avail)),
             timeout, "x >= 1 (and loc + x < 2**32: cursors are uint32): the bytes [loc, loc + x) clamped to the buffer", mfx)
        post(res, "NumpyIO.read.view[x<0]", list(q.pc) + [xarg < 0], z3.And(v.off == loc0, v.n == avail), timeout,
             "x < 0 (default -1): the rest of the buffer", mfx)
        post(res, "NumpyIO.read.view[x==0]", list(q.pc) + [xarg == 0], v.n == 0, timeout,
             "reading 0 bytes returns 0 bytes", mfx)
        post(res, "NumpyIO.read.keeps_class_invariant", list(q.pc) + [z3.Or(xarg < 1, xarg <= avail)], cy.loc(q, "io") <= n, timeout,
             "loc <= nbytes after the call, provided x <= bytes remaining (required of callers: the cursor is advanced by x, "
             "not by what was available)", mfx)
    # write(d): memcpy destination
    eng = cy.engine()
    p = Path()
    io = cy.new_io(p, "io")
    src = "srcbuf"
    ln = z3.Int("d_len")
    p.mem[src] = z3.Const("src_mem", cy.MemSort)
    p.rsize[src] = ln
    p.pc += [ln >= 1, cy.loc(p, "io") + ln <= cy.nbytes(p, "io")]
    eng.handlers["memcpy"] = _h_memcpy
    try:
        eng.run("NumpyIO.write", p, [io, View(src, z3.IntVal(0), ln, (8, True))])
    except Unsupported as ex:
        res.addk("NumpyIO.write.out_of_reach", "safety", UNKNOWN, None, 0.0, "engine", str(ex))
    res.take_engine(eng, "NumpyIO.write.", timeout)
    return res


def _ci_arg(p, name, ctype):
    return cy.arg(name, ctype, p)


def _h_memcpy(eng, p, args, kw, node):
    """memcpy(dest, src, n): both ranges must lie inside regions the function was handed"""
    dst, src, n = args
    nn = eng.as_int(n)
    fn = eng.cur_func
    for what, ptr in (("dest", dst), ("src", src)):
        size = p.rsize.get(ptr.region) if isinstance(ptr, Ptr) else None
        if size is None:
            eng.oblige(p, f"{fn}.memcpy_{what}_in_region@L{node.lineno}", "safety", z3.BoolVal(False), node,
                       note=f"memcpy {what} is not a pointer into a known buffer: {getattr(ptr, 'region', ptr)}")
        else:
            eng.oblige(p, f"{fn}.memcpy_{what}_in_region@L{node.lineno}", "safety",
                       z3.And(ptr.off >= 0, nn >= 0, ptr.off + nn <= size), node)
    if isinstance(dst, Ptr) and dst.region in p.mem and isinstance(src, Ptr) and src.region in p.mem:
        i = z3.Int(f"mc!{next(eng.counter)}")
        old, sm, d0, s0 = p.mem[dst.region], p.mem[src.region], dst.off, src.off
        # memory after the copy as a lambda term: selecting from it beta-reduces, no quantified axiom is needed
        p.mem[dst.region] = z3.Lambda([i], z3.If(z3.And(i >= d0, i < d0 + nn), z3.Select(sm, s0 + (i - d0)), z3.Select(old, i)))
    return [(p, NONE)]


# =================================================================================================
# read_rle
# =================================================================================================
def _rle_inv(which, item):
    kname = f"__k{which}_read_rle"

    def inv(eng, p):
        k = p.env[kname].z
        out0, mem0 = p.ghost["out0"], p.ghost["omem0"]
        count = eng.ci_int(p.env["count"])
        outptr = p.env["outptr"]
        data = p.env["data"].bv
        j, idx = z3.Int("jq"), z3.Int("idxq")
        m = p.mem["o"]
        if item == 4:
            filled = z3.ForAll([j], z3.Implies(z3.And(0 <= j, j < k), z3.And(*[z3.Select(m, out0 + 4 * j + b) == z3.Extract(8 * b + 7, 8 * b, data)
                                                                                 for b in range(4)])))
        else:
            filled = z3.ForAll([j], z3.Implies(z3.And(0 <= j, j < k), z3.Select(m, out0 + j) == z3.Extract(7, 0, data)))
        frame = z3.ForAll([idx], z3.Implies(z3.Or(idx < out0, idx >= out0 + item * k), z3.Select(m, idx) == z3.Select(mem0, idx)))
        return z3.And(0 <= k, k <= count, outptr.off == out0 + item * k, filled, frame)
    return LoopSpec("invariant", inv=inv, modifies=["outptr", "i"], havoc_mem=["o"],
                    variant=lambda eng, p: eng.ci_int(p.env["count"]) - p.env[kname].z)


def k_read_rle(timeout):
    res = KResults()
    for item in (4, 1):
        loops = {("read_rle", 0): LoopSpec("unroll", 4), ("read_rle", 1): _rle_inv(1, 4), ("read_rle", 2): _rle_inv(2, 1)}
        eng = cy.engine(loops=loops)
        p = Path()
        f, o = cy.new_io(p, "f"), cy.new_io(p, "o")
        header, bw = cy.arg("header", "int32_t", p), cy.arg("bit_width", "int32_t", p)
        floc0, fn, oloc0, on = cy.loc(p, "f"), cy.nbytes(p, "f"), cy.loc(p, "o"), cy.nbytes(p, "o")
        fmem0, omem0 = p.mem["f"], p.mem["o"]
        W = (bw.iv + 7) / 8
        # requires (type/safety invariant of the inputs + what callers establish, see core.read_data / read_rle_bit_packed_hybrid)
        p.pc += [header.iv >= 0, header.iv % 2 == 0, bw.iv >= 0, bw.iv <= 32, fn - floc0 >= W]
        if item == 1:
            p.pc.append(bw.iv <= 8)
        p.ghost["out0"], p.ghost["omem0"] = oloc0, omem0
        outs = eng.run("read_rle", p, [f, header, bw, o, PyI(item, lit=True)])
        mf = lambda m: {"header": mv(m, header.iv), "bit_width": mv(m, bw.iv), "itemsize": item, "f_loc": mv(m, floc0), "f_nbytes": mv(m, fn),
                        "o_loc": mv(m, oloc0), "o_nbytes": mv(m, on), "in_bytes": [mv(m, z3.Select(fmem0, floc0 + k)) for k in range(4)]}
        tag = f"[itemsize={item}]"
        res.take_engine(eng, f"read_rle{tag}.", timeout, mf)
        cap = (on - oloc0) / item
        cnt = header.iv / 2
        m_ = z3.If(cnt < cap, cnt, cap)
        val = z3.BitVecVal(0, 32)
        for i in range(4):
            val = val | z3.If(i < W, z3.ZeroExt(24, z3.Select(fmem0, floc0 + i)) << (8 * i), z3.BitVecVal(0, 32))
        j, b_, idx = z3.Int("j_sk"), z3.Int("b_sk"), z3.Int("idx_sk")
        for q in outs:
            if q.ctl[0] != "ret":
                continue
            m1 = q.mem["o"]
            post(res, f"read_rle{tag}.output_cursor", q.pc, cy.loc(q, "o") == oloc0 + m_ * item, timeout,
                 "o.loc advanced by min(header >> 1, capacity) items", mf)
            post(res, f"read_rle{tag}.input_cursor", q.pc, cy.loc(q, "f") == floc0 + W, timeout,
                 "f.loc advanced by ceil(bit_width / 8) bytes", mf)
            if item == 4:
                want = z3.And(*[z3.Select(m1, oloc0 + 4 * j + b) == z3.Extract(8 * b + 7, 8 * b, val) for b in range(4)])
            else:
                want = z3.Select(m1, oloc0 + j) == z3.Extract(7, 0, val)
            post(res, f"read_rle{tag}.values", list(q.pc) + [0 <= j, j < m_], want, timeout,
                 "every one of the min(count, capacity) output items equals the little-endian value of the run", mf)
            post(res, f"read_rle{tag}.frame", list(q.pc) + [z3.Or(idx < oloc0, idx >= oloc0 + m_ * item)],
                 z3.Select(m1, idx) == z3.Select(omem0, idx), timeout, "no byte outside the emitted items is written", mf)
            post(res, f"read_rle{tag}.input_not_written", q.pc, q.mem["f"] == fmem0, timeout, "the input buffer is not written", mf)
    return res


# =================================================================================================
# read_bitpacked1  (np.unpackbits, LSB first)
# =================================================================================================
def _bit(mem, base, j):
    """bit j (LSB-first) of the byte stream starting at mem[base] as an 8-bit 0/1 value"""
    byte_ = z3.Select(mem, base + j / 8)
    sh = z3.Int2BV(j % 8, 8)
    return z3.LShR(byte_, sh) & 1


def k_read_bitpacked1(timeout):
    res = KResults()
    kname = "__k0_read_bitpacked1"

    def inv(eng, p):
        k = p.env[kname].z
        in0, out0, fmem, omem0 = p.ghost["in0"], p.ghost["out0"], p.ghost["fmem0"], p.ghost["omem0"]
        m = p.mem["o"]
        j, idx = z3.Int("jq"), z3.Int("idxq")
        filled = z3.ForAll([j], z3.Implies(z3.And(0 <= j, j < 8 * k), z3.Select(m, out0 + j) == _bit(fmem, in0, j)))
        frame = z3.ForAll([idx], z3.Implies(z3.Or(idx < out0, idx >= out0 + 8 * k), z3.Select(m, idx) == z3.Select(omem0, idx)))
        return z3.And(0 <= k, k <= eng.ci_int(p.env["count"]) / 8, p.env["inptr"].off == in0 + k, p.env["outptr"].off == out0 + 8 * k,
                      filled, frame)
    loops = {("read_bitpacked1", 0): LoopSpec("invariant", inv=inv, modifies=["inptr", "outptr", "data", "counter", "i"], havoc_mem=["o"],
                                              variant=lambda eng, p: eng.ci_int(p.env["count"]) / 8 - p.env[kname].z),
             ("read_bitpacked1", 1): LoopSpec("unroll", 8), ("read_bitpacked1", 2): LoopSpec("unroll", 7)}
    eng = cy.engine(loops=loops)
    p = Path()
    f, o = cy.new_io(p, "f"), cy.new_io(p, "o")
    count = cy.arg("count", "int32_t", p)
    floc0, fn, oloc0, on = cy.loc(p, "f"), cy.nbytes(p, "f"), cy.loc(p, "o"), cy.nbytes(p, "o")
    fmem0, omem0 = p.mem["f"], p.mem["o"]
    cap = on - oloc0
    m_ = z3.If(count.iv < cap, count.iv, cap)
    # requires: 0 <= count <= INT32_MAX - 7 (`(startcount + 7) // 8` is computed in int32); the run's bytes are present
    p.pc += [count.iv >= 0, count.iv <= 2 ** 31 - 8, fn - floc0 >= (count.iv + 7) / 8]
    p.ghost.update(in0=floc0, out0=oloc0, fmem0=fmem0, omem0=omem0)
    outs = eng.run("read_bitpacked1", p, [f, count, o])
    mf = lambda m: {"count": mv(m, count.iv), "f_loc": mv(m, floc0), "f_nbytes": mv(m, fn), "o_loc": mv(m, oloc0), "o_nbytes": mv(m, on),
                    "in_bytes": [mv(m, z3.Select(fmem0, floc0 + k)) for k in range(4)]}
    res.take_engine(eng, "read_bitpacked1.", timeout, mf)
    j, idx = z3.Int("j_sk"), z3.Int("idx_sk")
    for q in outs:
        if q.ctl[0] != "ret":
            continue
        m1 = q.mem["o"]
        post(res, "read_bitpacked1.values", list(q.pc) + [0 <= j, j < m_], z3.Select(m1, oloc0 + j) == _bit(fmem0, floc0, j), timeout,
             "output byte j == bit j (LSB first) of the input stream, for j < min(count, capacity)", mf)
        post(res, "read_bitpacked1.output_cursor", q.pc, cy.loc(q, "o") == oloc0 + m_, timeout, "o.loc advanced by min(count, capacity)", mf)
        post(res, "read_bitpacked1.input_cursor", q.pc, cy.loc(q, "f") == floc0 + (count.iv + 7) / 8, timeout,
             "f.loc advanced by ceil(count / 8): the whole run is consumed even when the output is clamped", mf)
        post(res, "read_bitpacked1.frame", list(q.pc) + [z3.Or(idx < oloc0, idx >= oloc0 + m_)],
             z3.Select(m1, idx) == z3.Select(omem0, idx), timeout, "no byte outside the emitted values is written", mf)
    return res


# =================================================================================================
# read_bitpacked: control-state closure (DESIGN 3.4)
# =================================================================================================
def spec_bitpacked_value(mem, in0, w, j, out_bits=32):
    """value j of a bit-packed run of width w (LSB first): stream bits [w*j, w*j + w) - Parquet 'Encodings', RLE/bit-packing hybrid.
    Built from the 5 bytes that can contain them (w <= 32)."""
    bit0 = w * j
    byte0 = bit0 / 8
    sh = z3.Int2BV(bit0 % 8, 40)
    win = z3.Concat(*[z3.Select(mem, in0 + byte0 + k) for k in reversed(range(5))])
    v = z3.LShR(win, sh) & z3.BitVecVal((1 << w) - 1, 40)
    return z3.Extract(out_bits - 1, 0, v)


def _cval(c):
    s = z3.simplify(c.iv) if c.iv is not None else z3.simplify(z3.BV2Int(c.bv, c.signed))
    if z3.is_int_value(s):
        return s.as_long()
    return None


def read_bitpacked_closure(w, s, timeout, max_states=400, zero_groups=False):
    """all obligations of read_bitpacked for one (width, itemsize); zero_groups: the degenerate run header>>1 == 0"""
    res = KResults()
    tag = f"[w={w},itemsize={s}]" + ("[groups=0]" if zero_groups else "")
    state = {"seen": {}, "failed": False}
    SPEC = z3.Function(f"SPECVAL_w{w}_s{s}", z3.IntSort(), z3.BitVecSort(8 * s))

    def mk_inv(p, l, r, c, e, data, ooff, count0, cap, in0, out0, fmem, omem0, with_mem=True):
        """invariant of control state (l, r) over the symbolic ghost variables c (bytes consumed), e (values emitted)"""
        base = in0 + c - l // 8
        win = z3.Concat(*[z3.Select(fmem, base + k) for k in reversed(range(8))])      # 64 stream bits starting at data bit 0
        lia = [c >= 1, 0 <= e, e <= count0, 8 * c - l + r == w * e, ooff == out0 + s * z3.If(e < cap, e, cap),
               8 * (c - 1) < w * z3.If(e + 1 < count0, e + 1, count0)]
        bvs = []
        if l <= 32:
            bvs.append(data == (z3.Extract(31, 0, win) & z3.BitVecVal((1 << l) - 1 if l < 32 else 0xFFFFFFFF, 32)))
        else:
            bvs.append(z3.BoolVal(False))          # the 32-bit accumulator cannot hold l > 32 valid bits
        memf = []
        if with_mem:
            j, idx = z3.Int("jq"), z3.Int("idxq")
            me = z3.If(e < cap, e, cap)
            m = p.mem["o"]
            # SPEC(j) is *defined* as spec_bitpacked_value(stream, w, j); the quantified invariant mentions only the
            # function symbol, and instances of the definition are added where a particular j is needed (sound: instances
            # of a definition)
            if s == 4:
                memf.append(z3.ForAll([j], z3.Implies(z3.And(0 <= j, j < me),
                                                      z3.And(*[z3.Select(m, out0 + 4 * j + b) == z3.Extract(8 * b + 7, 8 * b, SPEC(j))
                                                               for b in range(4)]))))
            else:
                memf.append(z3.ForAll([j], z3.Implies(z3.And(0 <= j, j < me), z3.Select(m, out0 + j) == SPEC(j))))
            memf.append(z3.ForAll([idx], z3.Implies(z3.Or(idx < out0, idx >= out0 + s * me), z3.Select(m, idx) == z3.Select(omem0, idx))))
        return lia, bvs, memf

    def hook(eng, st, p):
        g = p.ghost
        in0, out0, fmem, omem0, count0, cap = g["in0"], g["out0"], g["fmem0"], g["omem0"], g["count0"], g["cap"]
        l0, r0 = _cval(p.env["left"]), _cval(p.env["right"])
        # entry: the prologue established the invariant of the initial control state with c = 1, e = 0
        lia, bvs, memf = mk_inv(p, l0, r0, z3.IntVal(1), z3.IntVal(0), p.env["data"].bv, p.env["outptr"].off, count0, cap, in0, out0, fmem,
                                omem0)
        eng.oblige(p, f"read_bitpacked.closure.invariant_on_entry(l={l0},r={r0})", "inv", z3.And(*lia, *bvs, *memf), st)
        eng.oblige(p, "read_bitpacked.closure.entry_count", "inv", eng.ci_int(p.env["count"]) == count0, st)
        todo, exits = [(l0, r0)], []
        while todo and len(state["seen"]) < max_states:
            l, r = todo.pop()
            if (l, r) in state["seen"]:
                continue
            state["seen"][(l, r)] = True
            q = p.fork()
            k = next(eng.counter)
            c, e, ooff = z3.Int(f"c!{k}"), z3.Int(f"e!{k}"), z3.Int(f"ooff!{k}")
            data = z3.BitVec(f"data!{k}", 32)
            q.mem["o"] = z3.Const(f"omem!{k}", cy.MemSort)
            lia, bvs, memf = mk_inv(q, l, r, c, e, data, ooff, count0, cap, in0, out0, fmem, omem0)
            q.pc += lia + bvs + memf
            cnt = z3.Int(f"cnt!{k}")
            q.pc += [cnt == count0 - e, cnt >= 0]
            q.env = dict(q.env)
            q.env["left"] = CI(z3.BitVecVal(l, 8), 8, False, z3.IntVal(l), (l, l))
            q.env["right"] = CI(z3.BitVecVal(r, 8), 8, False, z3.IntVal(r), (r, r))
            q.env["data"] = CI(data, 32, False)
            q.env["count"] = CI(z3.Int2BV(cnt, 32), 32, False, cnt, (0, 2 ** 32 - 1))
            q.env["inptr"] = Ptr("f", in0 + c)
            q.env["outptr"] = Ptr("o", ooff)
            # exit of the loop from this control state (count == 0)
            ex = q.fork(cnt == 0)
            if eng.feasible(ex):
                exits.append(ex)
            body = q.fork(cnt != 0)
            if not eng.feasible(body):
                continue
            n_before = len(eng.oblig)
            outs = eng.block(st.body, [body])
            # rename the safety obligations of this transition
            for ob in eng.oblig[n_before:]:
                ob.name = ob.name + f"@state(l={l},r={r})"
            for b in outs:
                if b.ctl is not None:
                    raise Unsupported("abrupt exit inside the read_bitpacked loop body")
                l2, r2 = _cval(b.env["left"]), _cval(b.env["right"])
                if l2 is None or r2 is None:
                    raise Unsupported("control variables not concrete after one loop iteration")
                c2 = z3.simplify(b.env["inptr"].off - in0)
                cnt2 = eng.ci_int(b.env["count"])
                e2 = z3.If(cnt2 == cnt, e, e + 1)
                emitted = z3.simplify(cnt2 != cnt)
                lia2, bvs2, memf2 = mk_inv(b, l2, r2, c2, e2, b.env["data"].bv, b.env["outptr"].off, count0, cap, in0, out0, fmem, omem0)
                nm = f"read_bitpacked.closure.state(l={l},r={r})->(l={l2},r={r2})"
                eng.oblige(b, nm + ".count_decreases_by_at_most_one", "inv", z3.Or(cnt2 == cnt, cnt2 == cnt - 1), st)
                eng.oblige(b, nm + ".accumulator_holds_stream_bits", "inv", z3.And(*bvs2), st,
                           note="data == the low `left` bits of the stream window (no valid bit shifted out of the 32-bit accumulator)")
                eng.oblige(b, nm + ".cursor_algebra", "inv", z3.And(*lia2), st)
                # cut: the value stored at an emit is the specification value (proved on its own, then used as a lemma)
                if b.mem["o"] is not q.mem["o"] and not z3.eq(b.mem["o"], q.mem["o"]):
                    # index arithmetic of the specification value e, as a linear lemma (proved, then used)
                    idx_lemma = z3.And((w * e) / 8 == c - l // 8 + r // 8, (w * e) % 8 == r % 8)
                    eng.oblige(b, nm + ".spec_index_arithmetic", "inv", idx_lemma, st,
                               note="bits [w*e, ..) start at byte c - left/8 + right/8, bit right%8 (from 8c - left + right == w*e)")
                    b.pc.append(idx_lemma)
                    if s == 4:
                        stored = z3.Concat(*[z3.Select(b.mem["o"], ooff + k2) for k2 in reversed(range(4))])
                        lemma = stored == spec_bitpacked_value(fmem, in0 + 0, w, e, 32)
                    else:
                        lemma = z3.Select(b.mem["o"], ooff) == spec_bitpacked_value(fmem, in0 + 0, w, e, 8)
                    eng.oblige(b, nm + ".emitted_value_is_spec", "post", lemma, st,
                               note="the stored value == bits [w*e, w*e+w) of the stream (LSB first)")
                    b.pc.append(lemma)
                    b.pc.append(SPEC(e) == spec_bitpacked_value(fmem, in0 + 0, w, e, 8 * s))      # instance of the definition of SPEC
                eng.oblige(b, nm + ".output_prefix_is_spec_and_frame", "inv", z3.And(*memf2), st)
                todo.append((l2, r2))
        if todo:
            raise Unsupported("control-state closure did not close within the state budget")
        return exits
    loops = {("read_bitpacked", 0): LoopSpec("hook", inv=hook)}
    handlers = {}
    called = {}

    def h_rb1(eng, p, args, kw, node):
        called["read_bitpacked1"] = args
        return [(p, NONE)]
    if w == 1 and s == 1:
        handlers["read_bitpacked1"] = h_rb1
    eng = cy.engine(loops=loops, handlers=handlers)
    p = Path()
    f, o = cy.new_io(p, "f"), cy.new_io(p, "o")
    header = cy.arg("header", "int32_t", p)
    floc0, fn, oloc0, on = cy.loc(p, "f"), cy.nbytes(p, "f"), cy.loc(p, "o"), cy.nbytes(p, "o")
    fmem0, omem0 = p.mem["f"], p.mem["o"]
    groups = header.iv / 2
    N = 8 * groups
    cap = (on - oloc0) / s
    # requires: bit-packed run header (low bit set), 0 <= groups < 2**28, the run's bytes are present (valid stream; at least the
    # byte the prologue reads unconditionally)
    need = groups * w
    p.pc += [header.iv >= 0, header.iv % 2 == 1, groups < 2 ** 28, fn - floc0 >= z3.If(need > 1, need, 1)]
    if not zero_groups:
        p.pc.append(groups >= 1)
    else:
        p.pc.append(groups == 0)
    p.ghost.update(in0=floc0, out0=oloc0, fmem0=fmem0, omem0=omem0, count0=N, cap=cap)
    mf = lambda m: {"width": w, "itemsize": s, "header": mv(m, header.iv), "f_loc": mv(m, floc0), "f_nbytes": mv(m, fn),
                    "o_loc": mv(m, oloc0), "o_nbytes": mv(m, on), "in_bytes": [mv(m, z3.Select(fmem0, floc0 + k)) for k in range(8)]}
    try:
        outs = eng.run("read_bitpacked", p, [f, header, PyI(w, lit=True), o, PyI(s, lit=True)])
    except Unsupported as ex:
        res.take_engine(eng, f"read_bitpacked{tag}.", timeout, mf)
        res.addk(f"read_bitpacked{tag}.closure_completed", "functional", UNKNOWN, None, 0.0, "engine", str(ex))
        return res
    res.take_engine(eng, f"read_bitpacked{tag}.", timeout, mf)
    res.addk(f"read_bitpacked{tag}.closure_completed", "functional", PROVED, None, 0.0, "closure",
             f"{len(state['seen'])} control states (left, right) reachable; closed under the real loop body")
    if w == 1 and s == 1:
        a = called.get("read_bitpacked1")
        ok = a is not None and a[0] is f and a[2] is o
        post(res, f"read_bitpacked{tag}.delegates_to_read_bitpacked1", p.pc,
             z3.And(z3.BoolVal(bool(ok)), eng.ci_int(a[1]) == N) if a is not None else z3.BoolVal(False), timeout,
             "width 1 / itemsize 1 is delegated to read_bitpacked1 with count == 8 * groups (its contract gives the bits)", mf)
        return res
    j, idx = z3.Int("j_sk"), z3.Int("idx_sk")
    m_ = z3.If(N < cap, N, cap)
    for q in outs:
        if q.ctl[0] != "ret":
            continue
        m1 = q.mem["o"]
        post(res, f"read_bitpacked{tag}.output_cursor", q.pc, cy.loc(q, "o") == oloc0 + s * m_, timeout,
             "o.loc advanced by min(8 * groups, capacity) items", mf)
        post(res, f"read_bitpacked{tag}.input_cursor", q.pc, cy.loc(q, "f") == floc0 + groups * w, timeout,
             "f.loc advanced by groups * width bytes (exactly the run)", mf)
        if s == 4:
            got = z3.Concat(*[z3.Select(m1, oloc0 + 4 * j + b) for b in reversed(range(4))])
        else:
            got = z3.Select(m1, oloc0 + j)
        post(res, f"read_bitpacked{tag}.values", list(q.pc) + [0 <= j, j < m_, SPEC(j) == spec_bitpacked_value(fmem0, floc0 + 0, w, j, 8 * s)],
             got == spec_bitpacked_value(fmem0, floc0 + 0, w, j, 8 * s),
             timeout, "output item j == stream bits [w*j, w*j + w) (LSB first) for every j < min(8*groups, capacity)", mf)
        post(res, f"read_bitpacked{tag}.frame", list(q.pc) + [z3.Or(idx < oloc0, idx >= oloc0 + s * m_)],
             z3.Select(m1, idx) == z3.Select(omem0, idx), timeout, "nothing outside the emitted items is written", mf)
    return res


# =================================================================================================
# delta_read_bitpacked: control-state closure (left, right are int8_t; 64-bit accumulator)
# =================================================================================================
def spec_bitpacked_value64(mem, in0, w, j, out_bits):
    """bits [w*j, w*j + w) of the LSB-first stream starting at mem[in0], truncated to out_bits (w <= 64: 9 bytes suffice)"""
    bit0 = w * j
    byte0 = bit0 / 8
    sh = z3.Int2BV(bit0 % 8, 72)
    win = z3.Concat(*[z3.Select(mem, in0 + byte0 + k) for k in reversed(range(9))])
    v = z3.LShR(win, sh) & z3.BitVecVal((1 << w) - 1, 72)
    return z3.Extract(out_bits - 1, 0, v)


def delta_bitpacked_closure(w, longval, timeout, max_states=600):
    res = KResults()
    size = 8 if longval else 4
    tag = f"[w={w},longval={longval}]"
    state = {"seen": {}}
    SPEC = z3.Function(f"DSPECVAL_w{w}_l{longval}", z3.IntSort(), z3.BitVecSort(8 * size))

    def mk_inv(p, l, r, c, e, data, count0, cap, in0, out0, fmem, omem0):
        base = in0 + c - l // 8
        win = z3.Concat(*[z3.Select(fmem, base + k) for k in reversed(range(8))])
        lia = [c >= 0, 0 <= e, e <= count0, 8 * c - l + r == w * e,
               cy.loc(p, "f") == in0 + c, cy.loc(p, "o") == out0 + size * z3.If(e < cap, e, cap),
               8 * c < w * z3.If(e + 1 < count0, e + 1, count0) + 8]
        if 0 <= l <= 64 and 0 <= r <= l:
            bvs = [data == (win & z3.BitVecVal((1 << l) - 1, 64))]
        else:
            bvs = [z3.BoolVal(False)]          # more than 64 valid bits cannot be held / control variables out of range
        j, idx = z3.Int("jq"), z3.Int("idxq")
        me = z3.If(e < cap, e, cap)
        m = p.mem["o"]
        memf = [z3.ForAll([j], z3.Implies(z3.And(0 <= j, j < me),
                                          z3.And(*[z3.Select(m, out0 + size * j + b) == z3.Extract(8 * b + 7, 8 * b, SPEC(j)) for b in range(size)]))),
                z3.ForAll([idx], z3.Implies(z3.Or(idx < out0, idx >= out0 + size * me), z3.Select(m, idx) == z3.Select(omem0, idx)))]
        return lia, bvs, memf

    def hook(eng, st, p):
        g = p.ghost
        in0, out0, fmem, omem0, count0, cap = g["in0"], g["out0"], g["fmem0"], g["omem0"], g["count0"], g["cap"]
        l0, r0 = _cval(p.env["left"]), _cval(p.env["right"])
        lia, bvs, memf = mk_inv(p, l0, r0, z3.IntVal(0), z3.IntVal(0), p.env["data"].bv, count0, cap, in0, out0, fmem, omem0)
        eng.oblige(p, f"delta_read_bitpacked.closure.invariant_on_entry(l={l0},r={r0})", "inv", z3.And(*lia, *bvs, *memf), st)
        todo, exits = [(l0, r0)], []
        while todo and len(state["seen"]) < max_states:
            l, r = todo.pop()
            if (l, r) in state["seen"]:
                continue
            state["seen"][(l, r)] = True
            q = p.fork()
            k = next(eng.counter)
            c, e = z3.Int(f"c!{k}"), z3.Int(f"e!{k}")
            data = z3.BitVec(f"data!{k}", 64)
            q.mem["o"] = z3.Const(f"omem!{k}", cy.MemSort)
            cnt = z3.Int(f"cnt!{k}")
            q.heap["f"] = dict(q.heap["f"])
            q.heap["o"] = dict(q.heap["o"])
            floc, oloc = z3.Int(f"floc!{k}"), z3.Int(f"oloc!{k}")
            q.heap["f"]["loc"] = CI(z3.Int2BV(floc, 32), 32, False, floc, (0, 2 ** 32 - 1))
            q.heap["o"]["loc"] = CI(z3.Int2BV(oloc, 32), 32, False, oloc, (0, 2 ** 32 - 1))
            q.pc += [floc >= 0, floc < 2 ** 32, oloc >= 0, oloc <= cy.nbytes(q, "o")]
            lia, bvs, memf = mk_inv(q, l, r, c, e, data, count0, cap, in0, out0, fmem, omem0)
            q.pc += lia + bvs + memf + [cnt == count0 - e, cnt >= 0]
            q.env = dict(q.env)
            q.env["left"] = CI(z3.BitVecVal(l, 8), 8, True, z3.IntVal(l), (l, l))
            q.env["right"] = CI(z3.BitVecVal(r, 8), 8, True, z3.IntVal(r), (r, r))
            q.env["data"] = CI(data, 64, False)
            q.env["count"] = CI(z3.Int2BV(cnt, 64), 64, False, cnt, (0, 2 ** 64 - 1))
            ex = q.fork(cnt == 0)
            if eng.feasible(ex):
                exits.append(ex)
            body = q.fork(cnt != 0)
            if not eng.feasible(body):
                continue
            n_before = len(eng.oblig)
            outs = eng.block(st.body, [body])
            for ob in eng.oblig[n_before:]:
                ob.name = ob.name + f"@state(l={l},r={r})"
            for b in outs:
                if b.ctl is not None:
                    raise Unsupported("abrupt exit inside the delta_read_bitpacked loop body")
                l2, r2 = _cval(b.env["left"]), _cval(b.env["right"])
                if l2 is None or r2 is None:
                    # a write_long/write_int that may or may not fit forks the path but the control state is the same
                    raise Unsupported("control variables not concrete after one loop iteration")
                c2 = z3.simplify(cy.loc(b, "f") - in0)
                cnt2 = eng.ci_int(b.env["count"])
                e2 = z3.If(cnt2 == cnt, e, e + 1)
                nm = f"delta_read_bitpacked.closure.state(l={l},r={r})->(l={l2},r={r2})"
                lia2, bvs2, memf2 = mk_inv(b, l2, r2, c2, e2, b.env["data"].bv, count0, cap, in0, out0, fmem, omem0)
                eng.oblige(b, nm + ".accumulator_holds_stream_bits", "inv", z3.And(*bvs2), st,
                           note="data == the low `left` bits of the stream window; int8 control variables did not wrap")
                eng.oblige(b, nm + ".cursor_algebra", "inv", z3.And(*lia2), st)
                emitted = not z3.eq(z3.simplify(cnt2), z3.simplify(cnt))
                if emitted:
                    idx_lemma = z3.And((w * e) / 8 == c - l // 8 + r // 8, (w * e) % 8 == r % 8)
                    eng.oblige(b, nm + ".spec_index_arithmetic", "inv", idx_lemma, st)
                    b.pc.append(idx_lemma)
                    oloc0 = q.heap["o"]["loc"].iv
                    stored = z3.Concat(*[z3.Select(b.mem["o"], oloc0 + k2) for k2 in reversed(range(size))])
                    fits = oloc0 + size <= cy.nbytes(q, "o")
                    lemma = z3.Implies(fits, stored == spec_bitpacked_value64(fmem, in0 + 0, w, e, 8 * size))
                    eng.oblige(b, nm + ".emitted_value_is_spec", "post", lemma, st,
                               note="the stored value == bits [w*e, w*e+w) of the stream (LSB first), truncated to the item size")
                    b.pc.append(lemma)
                    b.pc.append(SPEC(e) == spec_bitpacked_value64(fmem, in0 + 0, w, e, 8 * size))
                eng.oblige(b, nm + ".output_prefix_is_spec_and_frame", "inv", z3.And(*memf2), st)
                if not z3.is_false(z3.simplify(z3.And(*bvs2))):
                    todo.append((l2, r2))
        if todo:
            raise Unsupported("control-state closure did not close within the state budget")
        return exits
    loops = {("delta_read_bitpacked", 0): LoopSpec("hook", inv=hook)}
    eng = cy.engine(loops=loops)
    p = Path()
    f, o = cy.new_io(p, "f"), cy.new_io(p, "o")
    count = cy.arg("count", "uint64_t", p)
    floc0, fn, oloc0, on = cy.loc(p, "f"), cy.nbytes(p, "f"), cy.loc(p, "o"), cy.nbytes(p, "o")
    fmem0, omem0 = p.mem["f"], p.mem["o"]
    cap = (on - oloc0) / size
    # requires: 1 <= bitwidth <= 64 (the caller skips width 0), count < 2**32, the packed values are present in the input
    p.pc += [count.iv >= 1, count.iv < 2 ** 32, 8 * (fn - floc0) >= w * count.iv, fn < 2 ** 31]
    p.ghost.update(in0=floc0, out0=oloc0, fmem0=fmem0, omem0=omem0, count0=count.iv, cap=cap)
    mf = lambda m: {"bitwidth": w, "longval": longval, "count": mv(m, count.iv), "f_loc": mv(m, floc0), "f_nbytes": mv(m, fn),
                    "o_loc": mv(m, oloc0), "o_nbytes": mv(m, on)}
    try:
        outs = eng.run("delta_read_bitpacked", p, [f, PyI(w, lit=True), o, count, PyI(longval, lit=True)])
    except Unsupported as ex:
        res.take_engine(eng, f"delta_read_bitpacked{tag}.", timeout, mf)
        res.addk(f"delta_read_bitpacked{tag}.closure_completed", "functional", UNKNOWN, None, 0.0, "engine", str(ex))
        return res
    res.take_engine(eng, f"delta_read_bitpacked{tag}.", timeout, mf)
    res.addk(f"delta_read_bitpacked{tag}.closure_completed", "functional", PROVED, None, 0.0, "closure",
             f"{len(state['seen'])} control states (left, right) reachable; closed under the real loop body")
    j, idx = z3.Int("j_sk"), z3.Int("idx_sk")
    m_ = z3.If(count.iv < cap, count.iv, cap)
    for q in outs:
        if q.ctl[0] != "ret":
            continue
        m1 = q.mem["o"]
        post(res, f"delta_read_bitpacked{tag}.output_cursor", q.pc, cy.loc(q, "o") == oloc0 + size * m_, timeout,
             "o.loc advanced by min(count, capacity) items", mf)
        got = z3.Concat(*[z3.Select(m1, oloc0 + size * j + b) for b in reversed(range(size))])
        post(res, f"delta_read_bitpacked{tag}.values", list(q.pc) + [0 <= j, j < m_, SPEC(j) == spec_bitpacked_value64(fmem0, floc0 + 0, w, j, 8 * size)],
             got == spec_bitpacked_value64(fmem0, floc0 + 0, w, j, 8 * size), timeout,
             "output item j == stream bits [w*j, w*j + w) (LSB first, truncated to the item size) for every j < min(count, capacity)", mf)
        post(res, f"delta_read_bitpacked{tag}.frame", list(q.pc) + [z3.Or(idx < oloc0, idx >= oloc0 + size * m_)],
             z3.Select(m1, idx) == z3.Select(omem0, idx), timeout, "nothing outside the emitted items is written", mf)
        post(res, f"delta_read_bitpacked{tag}.input_cursor_within_one_byte", q.pc,
             z3.And(8 * (cy.loc(q, "f") - floc0) >= w * count.iv, 8 * (cy.loc(q, "f") - floc0) < w * count.iv + 8), timeout,
             "exactly the bytes holding the packed values are consumed (ceil(w * count / 8))", mf)
    return res
