"""C12 / C11 / C03 - fastparquet/speedups.pyx under contract, from the .pyx source re-read on every run (vc.front_cy):
pack_byte_array, unpack_byte_array, array_encode_utf8 (the file has no other def/cdef function; there is no array_decode_utf8
in this revision: decoding to str is the `utf` flag of unpack_byte_array) - plus the Python call sites that hand them buffers
and counts (encoding.read_plain, core.read_dictionary_page, core.read_data_page, core.read_data_page_v2, writer.encode_plain,
writer.convert).

SPECIFICATION (Parquet "Encodings", PLAIN, BYTE_ARRAY: "length in 4 bytes little endian followed by the bytes"), shared by
the encoder, the decoder and the round trip - written over an abstract list xs[0..n) given by Len(k) / Byte(k, j):
    Start(0) = 0,  Start(k+1) = Start(k) + 4 + Len(k)          value k starts at 4k + sum of the earlier lengths
    Enc(Start(k) + b)     = byte b of the 32-bit little-endian two's-complement of Len(k)      b in 0..3, 0 <= Len(k) < 2**31
    Enc(Start(k) + 4 + j) = Byte(k, j)                                                         0 <= j < Len(k)
    encoding(xs) = Enc[0, Start(n))
The only inductive fact about the spec itself is `Start is monotone` (spec.start_monotone.base / .step are posed as their
own obligations, then instances are used as lemmas).

pack_byte_array(items)      loops are executed for ONE ARBITRARY iteration k with every assigned local havoc'd under the invariant
  size loop:   inv  total_size == Start(k)  and  every item j < k is an exact bytes object
  copy loop:   inv  data == start + Start(k)  and  out[0, Start(k)) == Enc[0, Start(k))
  post         the returned bytes object has Start(n) bytes and equals encoding(items) at every index (Skolem index);
               a non-bytes item ends in TypeError; safety: list index in range (boundscheck=False: raw), PyBytes_GET_SIZE /
               PyBytes_AS_STRING only on bytes objects, the int store and the memcpy inside the freshly allocated object, the
               memcpy source inside the item, `assert` never fires.
  posed separately, WITHOUT the representability precondition Len(k) < 2**31: the 4-byte prefix decodes to the item length
  (an item the 4-byte length cannot express must end in an exception) -> refuted = finding.
unpack_byte_array(raw_bytes, n, utf)
  [well-formed]  precondition = what the call sites hand over for a well-formed page: the buffer holds n values back to back
               (DLen(k) := the int32 LE at DStart(k) is >= 0, DStart(k+1) = DStart(k) + 4 + DLen(k), DStart(n) <= len(buffer) < 2**31).
               inv: i == k, ptr == buffer + DStart(k), bytecount == len - DStart(k), out[j] for j < k is the object made of the
               bytes [DStart(j) + 4, + DLen(j)) (bytes or str by `utf`), out[j] for j >= k untouched.  post: all n values decoded
               (the loop cannot stop early), whole output array at a Skolem index, input not written; safety: every load, every
               PyBytes_FromStringAndSize / PyUnicode_DecodeUTF8 read inside the buffer, out[] index in range.
  [unchecked input]  NO well-formedness: arbitrary bytes, arbitrary n >= 0, len < 2**31; inv: 0 <= consumed, consumed is 0 or >= 4,
               consumed + bytecount == len.  The same safety obligations: a corrupt / short page ("an input too large for an internal
               limit") must end in a Python exception, not in a read outside the buffer -> refuted = findings (natively replayed).
  bytecount_is_buffer_length   posed for every buffer length (the C `int` bytecount vs the Py_ssize_t shape) -> refuted >= 2 GiB.
array_encode_utf8(inp)       inv: result[j] == utf8(arr[j]) for j < k; safety: both unchecked buffer indexes in range
round trip                    encoding(xs) satisfies unpack's [well-formed] precondition with DStart == Start, DLen == Len and
                              the value bytes are Byte(k, .): roundtrip.* (spec level; the two code contracts are composed through it)
call sites                    callsite.*: which buffer and which count reach the kernel
"""
import ast
import os
import re

import z3

from vc import backends, front_cy
from vc.front_py import parse_module
from vc.symexec import (Engine, Path, CI, Ptr, PyI, PyB, View, LoopSpec, Unsupported, NONE, NoneV, Opaque, Custom, Str, Tup, Opt)
from vlib.common import PROVED, REFUTED, UNKNOWN, REPO
from . import cy
from .kernels import KResults, post, mv, _h_memcpy
from .c10_read import havoc_assigned
from .util import solve

PYX = "speedups.pyx"
FUNCS = ["pack_byte_array", "unpack_byte_array", "array_encode_utf8"]

ASSUMED = [
    "CPython API contracts: PyBytes_FromStringAndSize(NULL, n) returns a new bytes object whose buffer has n writable bytes (n >= 0; "
    "SystemError for n < 0, MemoryError when it cannot be allocated); PyBytes_FromStringAndSize(p, n) / PyUnicode_DecodeUTF8(p, n, errors) "
    "read exactly the n bytes at p (n > 0), raise SystemError for n < 0 and read nothing for n == 0; PyBytes_GET_SIZE / PyBytes_AS_STRING are "
    "unchecked macros that require an exact-or-subclass bytes object; PyBytes_CheckExact has no side effect; "
    "PyUnicode_AsUTF8String(o) returns the UTF-8 encoding of a str and raises (TypeError / UnicodeEncodeError) otherwise",
    "np.empty(n, dtype=object) is a 1-d array of n slots (ValueError for n < 0); assigning to a `np.ndarray[object, ndim=1]` typed local "
    "acquires a 1-d object buffer or raises; `list items` is an exact list that is not mutated during the call (the GIL is held and no "
    "Python-level code of the caller runs; finalisers triggered by an allocation are not modelled)",
    "the sizes of existing objects sum to less than 2**62 (address space), so Py_ssize_t sums of them do not wrap",
    "a typed memoryview `const unsigned char[::1]` of length L is a readable region of exactly L bytes; indexing and pointer "
    "arithmetic are unchecked (boundscheck=False, wraparound=False)",
    "induction over the naturals lifts spec.start_monotone.base/.step to `a <= b => Start(a) <= Start(b)`, and the one-arbitrary-iteration "
    "step obligations (invariant on entry / preserved) to every iteration (argued, not mechanised)",
    "utf=True decodes with errors='ignore' (the literal is checked): for a valid file the bytes of a UTF8 column are valid UTF-8, so nothing is dropped",
]

BV8 = z3.BitVecSort(8)
I, B = z3.IntSort(), z3.BoolSort()
MAXSZ = 2 ** 62


def ci(x, bits=64, signed=True, lo=None, hi=None):
    """C integer with an integer view x (caller constrains x to the type's range)"""
    r = (-(1 << (bits - 1)), (1 << (bits - 1)) - 1) if signed else (0, (1 << bits) - 1)
    return CI(z3.Int2BV(x, bits), bits, signed, x, (r[0] if lo is None else lo, r[1] if hi is None else hi))


# SInt32(w): the signed integer value of the 32-bit word w.  The solver sees an UNINTERPRETED function (z3 does not push facts through
# bv2int of a concatenation of array reads) together with instances of the lemma spec.int32_le_decodes_its_encoding, which is proved
# about the real conversion; abstraction is sound for PROVED, refutations are replayed natively.
SInt32 = z3.Function("int32_value_of", z3.BitVecSort(32), z3.IntSort())


def word32(mem, off):
    """the 4 bytes at off as a little-endian 32-bit vector (built the way the executor builds a 4-byte load)"""
    return z3.simplify(z3.Concat(*[z3.Select(mem, off + b) for b in reversed(range(4))]))


# =================================================================================================
# engine with integer views on loaded words, proof-script objects
# =================================================================================================
class SpdEngine(Engine):
    """a multi-byte load through a pointer gets an integer view: a fresh Int x with the DEFINING hypothesis
    x == value of the loaded bit-vector (definitional extension: sound), so cursor arithmetic stays linear"""

    def load_sub(self, o, i, p, node):
        v = super().load_sub(o, i, p, node)
        if isinstance(o, Ptr) and p.rsize.get(o.region) is not None:
            # assert-then-assume: the in-region obligation of this load has just been emitted; what follows on this path is judged
            # for executions in which the load was inside its buffer (so a later obligation reports ITS OWN failure, not this one's)
            off = o.off + self.as_int(i) * (o.elem[0] // 8)
            p.pc.append(z3.And(off >= 0, off + o.elem[0] // 8 <= p.rsize[o.region]))
        if isinstance(o, Ptr) and isinstance(v, CI) and v.iv is None and v.bits >= 16:
            x = self.fresh_int("loaded_word")
            c = CI(v.bv, v.bits, v.signed, x)
            p.pc += [x == (SInt32(v.bv) if (v.bits, v.signed) == (32, True) else z3.BV2Int(v.bv, is_signed=v.signed)), c.range_constraint()]
            p.ghost["loaded"] = p.ghost.get("loaded", []) + [(x, v.bv)]
            return c
        return v


SAFETY_KINDS = ("safety", "unwind", "assert")


def take(res, eng, prefix, timeout, mf=None, drop=()):
    """discharge the engine's obligations into res.  Names carry no line number (stable under edits that move lines; the .pyx line is
    in the detail).  kinds: 'safety' (C12), 'invariant' = a loop-invariant step that SAFETY proofs rely on (cursor / size bookkeeping:
    reported under C12 and under the functional properties), 'functional' (C11 / C03)"""
    for ob in eng.oblig:
        base = re.sub(r"@L\d+", "", ob.name.split(".", 1)[-1])
        if any(d in base for d in drop):
            continue
        st, be, secs, m = backends.discharge(ob, timeout)
        nm = prefix + base
        res.kind[nm] = "safety" if ob.kind in SAFETY_KINDS else "invariant" if ob.kind == "cursor_inv" else "functional"
        res.add(nm, st, mf(m) if (m is not None and mf) else ({"z3_model": str(m)[:300]} if m is not None else None), secs, be,
                (ob.note or ob.kind) + (f" [{PYX} line ~{ob.lineno}]" if ob.lineno else ""))
    eng.oblig = []


def retag(eng, n0, func, site):
    """obligations emitted since index n0 get the loop they belong to in their name"""
    for ob in eng.oblig[n0:]:
        if ob.name.startswith(func + ".") and not ob.name.startswith(f"{func}.{site}."):
            ob.name = f"{func}.{site}." + ob.name[len(func) + 1:]


def engine(loops=None, handlers=None):
    funcs, fields, consts = cy.load(PYX)
    eng = SpdEngine(funcs=funcs, inline=("*",), loops=loops or {}, handlers=handlers or {})
    eng.class_fields = fields
    return eng


class Obj:
    """a Python object of a fixed kind made / inspected by the kernels"""
    tracked = False

    def __init__(self, kind, **kw):
        self.kind = kind
        self.__dict__.update(kw)

    def is_none(self, eng, p):
        return z3.BoolVal(False)

    def truth(self, eng, p):
        return z3.BoolVal(True)


class ObjArr:
    """1-d object ndarray accessed through the buffer interface WITHOUT bounds checks: element state lives in ghost arrays
    (field -> Array Int X); every index is a safety obligation"""
    tracked = False

    def __init__(self, name, n, fields, encode=None, readonly=False):
        self.name, self.n, self.fields, self.encode, self.readonly = name, n, fields, encode, readonly

    def key(self):
        return "arr:" + self.name

    def fresh_state(self, eng, p, tag):
        st = {f: z3.Const(f"{self.name}_{f}_{tag}!{next(eng.counter)}", z3.ArraySort(I, s)) for f, s in self.fields.items()}
        p.ghost[self.key()] = st
        return st

    def _idx(self, eng, p, i, node, what):
        idx = eng.as_int(i, p)
        eng.oblige(p, f"{eng.cur_func}.{self.name}_index_in_range@L{getattr(node, 'lineno', 0)}", "safety", z3.And(idx >= 0, idx < self.n), node,
                   note=f"{what} {self.name}[i]: unchecked buffer access (boundscheck=False, wraparound=False) must be inside the {self.name} array")
        return idx

    def setitem(self, eng, p, i, v, node=None):
        if p.ctl is not None:
            return                # the right-hand side raised: the store does not happen
        idx = self._idx(eng, p, i, node, "store to")
        st = dict(p.ghost[self.key()])
        vals = self.encode(eng, p, v)
        if vals is None:
            raise Unsupported(f"store of an unmodelled value into {self.name}")
        for f in self.fields:
            st[f] = z3.Store(st[f], idx, vals[f])
        p.ghost[self.key()] = st
        p.ghost["nstores:" + self.name] = p.ghost.get("nstores:" + self.name, 0) + 1

    def getitem(self, eng, p, i, node=None):
        idx = self._idx(eng, p, i, node, "load of")
        return Custom(Obj("elem", arr=self.name, idx=idx))

    def attr(self, eng, p, name):
        if name == "shape":
            return Tup([PyI(self.n)])
        raise Unsupported(f"ndarray.{name}")

    def len(self, eng, p):
        return PyI(self.n)

    def is_none(self, eng, p):
        return z3.BoolVal(False)

    def truth(self, eng, p):
        return z3.BoolVal(True)


def _raise(p, exc):
    p.ctl = ("raise", exc)
    p.trace.append(("raise", 0))
    return (p, Opaque("raised:" + exc))


def h_np_empty(name, fields, encode, made):
    def h(eng, p, args, kw, node):
        nn = eng.as_int(args[0], p)
        dt = kw.get("dtype") if "dtype" in kw else (args[1] if len(args) > 1 else None)
        is_obj = (isinstance(dt, Str) and dt.s in ("object", "O")) or (isinstance(dt, Opaque) and dt.tag == "global:object")
        if not is_obj:
            raise Unsupported("np.empty with a dtype other than object")
        out = []
        neg = p.fork(nn < 0)
        if eng.feasible(neg):
            out.append(_raise(neg, "ValueError"))
        ok = p.fork(nn >= 0)
        if eng.feasible(ok):
            arr = ObjArr(name, nn, fields, encode)
            st = arr.fresh_state(eng, ok, "new")
            st["set"] = z3.K(I, z3.BoolVal(False))          # a fresh object array is all None: no slot is set
            made.append(arr)
            out.append((ok, Custom(arr)))
        return out
    return h


# =================================================================================================
# the byte-level specification
# =================================================================================================
class Spec:
    def __init__(self, tag):
        self.Len = z3.Function(f"Len_{tag}", I, I)
        self.Byte = z3.Function(f"Byte_{tag}", I, I, BV8)
        self.Start = z3.Function(f"Start_{tag}", I, I)
        self.Enc = z3.Function(f"Enc_{tag}", I, BV8)

    def defs_at(self, k):
        """instances at k of the definitions of Start (and Len >= 0: sizes of objects / decoded lengths of a well-formed page)"""
        return [self.Start(0) == 0, self.Start(k + 1) == self.Start(k) + 4 + self.Len(k), self.Len(k) >= 0]

    def mono(self, a, b):
        """instance of the lemma spec.start_monotone (posed as its own obligations)"""
        return z3.Implies(z3.And(0 <= a, a <= b), self.Start(a) <= self.Start(b))

    def facts(self, k, n):
        return self.defs_at(k) + [self.mono(0, k), self.mono(k + 1, n), self.mono(0, n), self.mono(k, n)]

    def enc_at(self, k, j):
        """instances of the definition of Enc for value k: its 4 length bytes, and payload byte j"""
        l32 = z3.Int2BV(self.Len(k), 32)
        return [self.Enc(self.Start(k) + b) == z3.Extract(8 * b + 7, 8 * b, l32) for b in range(4)] + \
               [z3.Implies(z3.And(0 <= j, j < self.Len(k)), self.Enc(self.Start(k) + 4 + j) == self.Byte(k, j))]


def spec_lemmas(timeout):
    """the inductive facts about the specification itself, each posed once; instances are then used as lemmas (cuts)"""
    res = KResults()
    S = Spec("lemma")
    a, b, L = z3.Ints("a b L")
    post(res, "spec.start_monotone.base", [0 <= a], S.Start(a) <= S.Start(a), timeout, "Start(a) <= Start(a)", kind="invariant")
    post(res, "spec.start_monotone.step", [0 <= a, a <= b, S.Start(a) <= S.Start(b)] + S.defs_at(b), S.Start(a) <= S.Start(b + 1), timeout,
         "Start(a) <= Start(b) and Len(b) >= 0  =>  Start(a) <= Start(b + 1)   (induction step over b)", kind="invariant")
    post(res, "spec.int32_le_decodes_its_encoding", [L >= -2 ** 31, L < 2 ** 31], z3.BV2Int(z3.Int2BV(L, 32), is_signed=True) == L, timeout,
         "reading the 32-bit two's-complement of L back as a signed integer gives L, for every L in the int32 range")
    # vacuity / must-fail: without Len >= 0 monotonicity is NOT provable (the lemma is not trivially true)
    st, m, secs = solve([0 <= a, a <= b, S.Start(a) <= S.Start(b), S.Start(b + 1) == S.Start(b) + 4 + S.Len(b), z3.Not(S.Start(a) <= S.Start(b + 1))], timeout)
    res.addk("spec.start_monotone.must_fail_without_nonnegative_lengths", "functional", PROVED if st == REFUTED else UNKNOWN, None, secs, "z3",
             "vacuity guard: the step is refutable when lengths may be negative")
    return res


# =================================================================================================
# pack_byte_array
# =================================================================================================
class ItemList:
    """`list items`: n objects; item k is an exact bytes object iff IsBytes(k), of Len(k) bytes Byte(k, .)"""
    tracked = False

    def __init__(self, n, S, is_bytes):
        self.n, self.S, self.is_bytes = n, S, is_bytes

    def len(self, eng, p):
        return PyI(self.n)

    def getitem(self, eng, p, i, node=None):
        idx = eng.as_int(i, p)
        eng.oblige(p, f"{eng.cur_func}.items_index_in_range@L{getattr(node, 'lineno', 0)}", "safety", z3.And(idx >= 0, idx < self.n), node,
                   note="items[i] on a typed list with boundscheck=False is a raw PyList_GET_ITEM: must be inside the list")
        return Custom(Obj("item", idx=idx))

    def is_none(self, eng, p):
        return z3.BoolVal(False)


def _pack_handlers(S, IsBytes, n_items):
    def h_len(eng, p, args, kw, node):
        v = args[0]
        if isinstance(v, Custom) and isinstance(v.h, ItemList):
            return [(p, ci(v.h.n, 64, True, 0, MAXSZ))]
        raise Unsupported("len of an unmodelled object")

    def h_check(eng, p, args, kw, node):
        o = args[0]
        if isinstance(o, Custom) and o.h.kind == "item":
            return [(p, PyB(IsBytes(o.h.idx)))]
        raise Unsupported("PyBytes_CheckExact of an unmodelled object")

    def need_bytes(eng, p, o, api, node):
        if isinstance(o, Custom) and o.h.kind == "item":
            eng.oblige(p, f"{eng.cur_func}.{api}_on_bytes_object@L{node.lineno}", "safety", IsBytes(o.h.idx), node,
                       note=f"{api} is an unchecked macro: its argument must be a bytes object")
            return True
        if isinstance(o, Custom) and o.h.kind == "bytes":
            return True
        eng.oblige(p, f"{eng.cur_func}.{api}_on_bytes_object@L{node.lineno}", "safety", z3.BoolVal(False), node,
                   note=f"{api} applied to something that is not known to be a bytes object")
        return False

    def h_size(eng, p, args, kw, node):
        o = args[0]
        need_bytes(eng, p, o, "PyBytes_GET_SIZE", node)
        if isinstance(o, Custom) and o.h.kind == "item":
            return [(p, ci(S.Len(o.h.idx), 64, True, 0, MAXSZ))]
        if isinstance(o, Custom) and o.h.kind == "bytes":
            return [(p, ci(o.h.n, 64, True, 0, MAXSZ))]
        return [(p, CI(eng.fresh("wild_size", z3.BitVecSort(64)), 64, True))]

    def h_as_string(eng, p, args, kw, node):
        o = args[0]
        need_bytes(eng, p, o, "PyBytes_AS_STRING", node)
        if isinstance(o, Custom) and o.h.kind == "item":
            reg = "item"
            j = z3.Int("jq_item")
            p.mem[reg] = z3.Lambda([j], S.Byte(o.h.idx, j))
            p.rsize[reg] = S.Len(o.h.idx)
            p.ghost["item_region_idx"] = o.h.idx
            return [(p, Ptr(reg, z3.IntVal(0), (8, True)))]
        if isinstance(o, Custom) and o.h.kind == "bytes":
            return [(p, Ptr(o.h.region, z3.IntVal(0), (8, True)))]
        return [(p, Ptr(("wild", "PyBytes_AS_STRING"), z3.IntVal(0), (8, True)))]

    def h_new(eng, p, args, kw, node):
        src, size = args[0], args[1]
        if not (isinstance(src, Opaque) and src.tag == "global:NULL"):
            raise Unsupported("PyBytes_FromStringAndSize with a source pointer in pack_byte_array")
        nn = eng.as_int(size, p)
        out = []
        neg = p.fork(nn < 0)
        if eng.feasible(neg):
            out.append(_raise(neg, "SystemError"))
        ok = p.fork(nn >= 0)
        if eng.feasible(ok):
            ok.mem["out"] = z3.Const(f"out_mem_new!{next(eng.counter)}", cy.MemSort)
            ok.rsize["out"] = nn
            out.append((ok, Custom(Obj("bytes", region="out", n=nn, fresh=True))))
        return out
    return {"len": h_len, "PyBytes_CheckExact": h_check, "PyBytes_GET_SIZE": h_size, "PyBytes_AS_STRING": h_as_string,
            "PyBytes_FromStringAndSize": h_new, "memcpy": _h_memcpy}


def k_pack(timeout):
    res = KResults()
    S = Spec("p")
    IsBytes = z3.Function("IsExactBytes", I, B)
    n = z3.Int("n_items")
    idxS, jS, j2 = z3.Int("idx_skolem"), z3.Int("j_skolem"), z3.Int("j2_skolem")
    st8 = {}
    items = Custom(ItemList(n, S, IsBytes))

    def hook_size(eng, st, p):
        hi = eng.as_int(eng.ev1(st.iter.args[0], p), p)
        st8["trip1"], st8["pc1"] = hi, list(p.pc)
        eng.oblige(p, "pack_byte_array.size_loop.invariant_on_entry", "cursor_inv", eng.ci_int(p.env["total_size"]) == S.Start(0), st,
                   note="total_size == Start(0) == 0 before the first item")
        # one arbitrary iteration
        q = p.fork()
        k = z3.Int("k_size_loop")
        havoc_assigned(eng, st, q, skip=("total_size", "i"))
        T = z3.Int("total_size_in")
        q.env["i"] = ci(k)
        q.env["total_size"] = ci(T)
        q.pc += [0 <= k, k < hi, T == S.Start(k), z3.Implies(z3.And(0 <= jS, jS < k), IsBytes(jS))] + S.facts(k, n) + [S.Start(n) < MAXSZ]
        n0 = len(eng.oblig)
        outs = eng.block(st.body, [q])
        retag(eng, n0, "pack_byte_array", "size_loop")
        st8["body1"] = dict(k=k, outs=outs)
        # exit: invariant at kx with the loop condition false
        ex = p.fork()
        kx, Tx = z3.Int("k_size_exit"), z3.Int("total_size_exit")
        havoc_assigned(eng, st, ex, skip=("total_size", "i"))
        ex.env["i"] = ci(z3.Int("i_after_size_loop"))
        ex.pc.append(ex.env["i"].range_constraint())
        ex.env["val"] = Opaque("val_after_size_loop")
        ex.env["total_size"] = ci(Tx)
        ex.pc += [0 <= kx, z3.Or(kx <= hi, kx == 0), z3.Not(kx < hi), Tx == S.Start(kx), S.Start(0) == 0, S.mono(0, n), S.Start(n) < MAXSZ]
        ex.ghost["all_bytes_below"] = kx          # exit invariant: every item j < kx is exact bytes (instantiated where needed)
        return [ex]

    def hook_copy(eng, st, p):
        hi = eng.as_int(eng.ev1(st.iter.args[0], p), p)
        st8["trip2"], st8["pc2"] = hi, list(p.pc)
        data0, mem_in = p.env["data"], p.mem.get("out")
        if not (isinstance(data0, Ptr) and data0.region == "out"):
            raise Unsupported("copy loop: `data` does not point into the freshly allocated bytes object")
        eng.oblige(p, "pack_byte_array.copy_loop.invariant_on_entry", "cursor_inv", data0.off == S.Start(0), st,
                   note="data == start + Start(0): the cursor is at the first byte of the new object")
        st8["start"] = p.env.get("start")
        q = p.fork()
        k = z3.Int("k_copy_loop")
        havoc_assigned(eng, st, q, skip=("data", "i"))
        q.env["i"] = ci(k)
        q.env["data"] = Ptr("out", S.Start(k), data0.elem)
        m0 = z3.Const("out_mem_iter", cy.MemSort)
        q.mem["out"] = m0
        below = p.ghost.get("all_bytes_below")
        q.pc += [0 <= k, k < hi] + S.facts(k, n) + S.enc_at(k, idxS - S.Start(k) - 4) + \
                [z3.Implies(z3.And(0 <= idxS, idxS < S.Start(k)), z3.Select(m0, idxS) == S.Enc(idxS))]
        if below is not None:
            q.pc.append(z3.Implies(k < below, IsBytes(k)))
        n0 = len(eng.oblig)
        outs = eng.block(st.body, [q])
        retag(eng, n0, "pack_byte_array", "copy_loop")
        st8["body2"] = dict(k=k, outs=outs, m0=m0)
        ex = p.fork()
        kx = z3.Int("k_copy_exit")
        havoc_assigned(eng, st, ex, skip=("data", "i"))
        ex.env["i"] = ci(z3.Int("i_after_copy_loop"))
        ex.pc.append(ex.env["i"].range_constraint())
        ex.env["data"] = Ptr("out", S.Start(kx), data0.elem)
        mx = z3.Const("out_mem_exit", cy.MemSort)
        ex.mem["out"] = mx
        ex.pc += [0 <= kx, z3.Or(kx <= hi, kx == 0), z3.Not(kx < hi), z3.Implies(z3.And(0 <= idxS, idxS < S.Start(kx)), z3.Select(mx, idxS) == S.Enc(idxS))]
        st8["exit2"] = dict(kx=kx, mx=mx)
        return [ex]

    loops = {("pack_byte_array", 0): LoopSpec("hook", inv=hook_size), ("pack_byte_array", 1): LoopSpec("hook", inv=hook_copy)}
    eng = engine(loops=loops, handlers=_pack_handlers(S, IsBytes, n))
    p = Path()
    p.pc += [n >= 0, n < MAXSZ, S.Start(0) == 0]
    mf = lambda m: {"n_items": mv(m, n), "k": mv(m, z3.Int("k_copy_loop")), "item_len": mv(m, S.Len(z3.Int("k_copy_loop"))),
                    "k_size_loop": mv(m, z3.Int("k_size_loop")), "start_k": mv(m, S.Start(z3.Int("k_copy_loop")))}
    try:
        outs = eng.run("pack_byte_array", p, [items])
    except Unsupported as ex:
        take(res, eng, "pack_byte_array.", timeout, mf)
        res.addk("pack_byte_array.out_of_reach", "functional", UNKNOWN, None, 0.0, "engine", str(ex))
        return res
    take(res, eng, "pack_byte_array.", timeout, mf)
    # ---- size loop
    if "body1" not in st8 or "body2" not in st8:
        res.addk("pack_byte_array.out_of_reach", "functional", UNKNOWN, None, 0.0, "engine", "the two loops were not both reached")
        return res
    post(res, "pack_byte_array.size_loop.covers_all_items", st8["pc1"], st8["trip1"] == n, timeout, "the size loop runs over all len(items) items", mf,
         kind="invariant")
    post(res, "pack_byte_array.copy_loop.covers_all_items", st8["pc2"], st8["trip2"] == n, timeout, "the copy loop runs over all len(items) items", mf,
         kind="invariant")
    B1 = st8["body1"]
    k = B1["k"]
    n_ok = 0
    for b in B1["outs"]:
        pc = list(b.pc) + list(b.axioms)
        if b.ctl == ("raise", "TypeError"):
            post(res, "pack_byte_array.TypeError_only_for_non_bytes_item", pc, z3.Not(IsBytes(k)), timeout,
                 "TypeError is raised only when the item is not an exact bytes object", mf)
            continue
        if b.ctl not in (None, "continue"):
            res.addk("pack_byte_array.size_loop.invariant_preserved", "invariant", REFUTED, {"ctl": str(b.ctl)}, 0.0, "trace",
                     "unexpected exit from the size loop")
            continue
        n_ok += 1
        post(res, "pack_byte_array.size_loop.invariant_preserved", pc,
             z3.And(eng.ci_int(b.env["total_size"]) == S.Start(k + 1), z3.Implies(z3.And(0 <= jS, jS < k + 1), IsBytes(jS))), timeout,
             "total_size == Start(k+1) == Start(k) + 4 + Len(k) (no Py_ssize_t wrap), and item k was checked to be exact bytes: a non-bytes "
             "item cannot pass silently (the allocation size and the unchecked macros of the copy loop rely on this)", mf, kind="invariant")
    if n_ok == 0:
        res.addk("pack_byte_array.size_loop.invariant_preserved", "invariant", UNKNOWN, None, 0.0, "engine", "no normal path through the size loop body")
    # ---- copy loop
    B2 = st8["body2"]
    k, m0 = B2["k"], B2["m0"]
    small = S.Len(k) < 2 ** 31
    n_ok = 0
    for b in B2["outs"]:
        pc = list(b.pc) + list(b.axioms)
        if b.ctl not in (None, "continue"):
            res.addk("pack_byte_array.copy_loop.cursor", "invariant", REFUTED, {"ctl": str(b.ctl)}, 0.0, "trace", "unexpected exit from the copy loop")
            continue
        n_ok += 1
        m1 = b.mem["out"]
        d = b.env["data"]
        post(res, "pack_byte_array.copy_loop.cursor", pc, z3.And(z3.BoolVal(isinstance(d, Ptr) and d.region == "out"), d.off == S.Start(k + 1)), timeout,
             "after value k the cursor is at Start(k+1) = 4(k+1) + sum of the first k+1 lengths", mf, kind="invariant")
        w = word32(m1, S.Start(k))
        post(res, "pack_byte_array.copy_loop.length_prefix", pc + [small], w == z3.Int2BV(S.Len(k), 32), timeout,
             "the 4 bytes at Start(k) are the little-endian 32-bit length of item k (items shorter than 2**31 bytes)", mf)
        post(res, "pack_byte_array.length_prefix_decodes_to_item_length[any item size]", pc, z3.SignExt(32, w) == z3.Int2BV(S.Len(k), 64), timeout,
             "WITHOUT the precondition Len(k) < 2**31: on every normally returning path the stored prefix, read back as int32, is the item's "
             "length (an item too long for a 4-byte length has to end in an exception)", mf)
        post(res, "pack_byte_array.copy_loop.payload", pc + [0 <= jS, jS < S.Len(k)], z3.Select(m1, S.Start(k) + 4 + jS) == S.Byte(k, jS), timeout,
             "the Len(k) bytes after the prefix are the item's bytes, in order", mf)
        post(res, "pack_byte_array.copy_loop.frame", pc + [z3.Or(j2 < S.Start(k), j2 >= S.Start(k + 1))], z3.Select(m1, j2) == z3.Select(m0, j2), timeout,
             "iteration k writes nothing outside [Start(k), Start(k+1))", mf)
        post(res, "pack_byte_array.copy_loop.invariant_preserved", pc + [small],
             z3.Implies(z3.And(0 <= idxS, idxS < S.Start(k + 1)), z3.Select(m1, idxS) == S.Enc(idxS)), timeout,
             "out[0, Start(k+1)) == Enc[0, Start(k+1)): the prefix written so far is the specified encoding (Skolem index)", mf)
    if n_ok == 0:
        res.addk("pack_byte_array.copy_loop.cursor", "invariant", UNKNOWN, None, 0.0, "engine", "no normal path through the copy loop body")
    # ---- whole output
    n_ret = 0
    for q in outs:
        if q.ctl[0] != "ret":
            continue
        n_ret += 1
        rv = q.ctl[1]
        pc = list(q.pc) + list(q.axioms)
        is_out = isinstance(rv, Custom) and getattr(rv.h, "kind", "") == "bytes" and getattr(rv.h, "region", "") == "out"
        X = st8["exit2"]
        goal = z3.And(z3.BoolVal(bool(is_out)), rv.h.n == S.Start(n), X["kx"] == n,
                      z3.Implies(z3.And(0 <= idxS, idxS < S.Start(n)), z3.Select(q.mem["out"], idxS) == S.Enc(idxS))) if is_out else z3.BoolVal(False)
        post(res, "pack_byte_array.returns_whole_encoding", pc, goal, timeout,
             "the returned bytes object has exactly Start(n) = 4n + sum(len) bytes and equals Enc at every index: the concatenation of "
             "(4-byte LE length, payload) of all items, nothing else", mf)
    if n_ret == 0:
        res.addk("pack_byte_array.returns_whole_encoding", "functional", UNKNOWN, None, 0.0, "engine", "no returning path")
    # vacuity: the precondition of the arbitrary copy iteration is satisfiable with a non-empty item
    st, m, secs = solve(list(B2["outs"][0].pc) + [S.Len(k) >= 1, small] if B2["outs"] else [z3.BoolVal(False)], timeout)
    res.addk("pack_byte_array.vacuity.requires_satisfiable", "functional", PROVED if st == REFUTED else UNKNOWN, None, secs, "z3",
             "the hypotheses of the arbitrary copy iteration are satisfiable (with a non-empty item)")
    return res


# =================================================================================================
# unpack_byte_array
# =================================================================================================
OUT_FIELDS = {"set": B, "off": I, "len": I, "isstr": B, "errors_ignore": B}


def _enc_out(eng, p, v):
    if isinstance(v, Custom) and isinstance(v.h, Obj) and v.h.kind in ("bytes", "str") and getattr(v.h, "region", None) == "raw":
        return {"set": z3.BoolVal(True), "off": v.h.off, "len": v.h.n, "isstr": z3.BoolVal(v.h.kind == "str"),
                "errors_ignore": z3.BoolVal(getattr(v.h, "errors", None) == "ignore")}
    return None


def _unpack_handlers(made, tag):
    def h_from(kind):
        def h(eng, p, args, kw, node):
            ptr, size = args[0], args[1]
            if not isinstance(ptr, Ptr):
                raise Unsupported("source of PyBytes_FromStringAndSize / PyUnicode_DecodeUTF8 is not a pointer")
            nn = eng.as_int(size, p)
            out = []
            neg = p.fork(nn < 0)
            if eng.feasible(neg):
                out.append(_raise(neg, "SystemError"))
            ok = p.fork(nn >= 0)
            if eng.feasible(ok):
                sz = ok.rsize.get(ptr.region)
                api = "PyBytes_FromStringAndSize" if kind == "bytes" else "PyUnicode_DecodeUTF8"
                eng.oblige(ok, f"{eng.cur_func}.value_bytes_inside_buffer[{api}]", "safety",
                           z3.Implies(nn > 0, z3.And(ptr.off >= 0, ptr.off + nn <= sz)) if sz is not None else z3.BoolVal(False), node,
                           note=f"{api}(ptr, n) reads [ptr, ptr + n): the declared length must not run past the end of the buffer handed in")
                errs = args[2].s if len(args) > 2 and isinstance(args[2], Str) else None
                out.append((ok, Custom(Obj(kind, region=ptr.region, off=ptr.off, n=nn, errors=errs))))
            return out
        return h
    return {"np.empty": h_np_empty("out", OUT_FIELDS, _enc_out, made), "PyBytes_FromStringAndSize": h_from("bytes"),
            "PyUnicode_DecodeUTF8": h_from("str")}


def _out_inv(st, D, k, j, utf_true, n):
    """slot j of the output array under the invariant at k: decoded values below k, untouched (None) from k on"""
    return z3.And(z3.Implies(z3.And(0 <= j, j < k), z3.And(z3.Select(st["set"], j), z3.Select(st["off"], j) == D.Start(j) + 4,
                                                          z3.Select(st["len"], j) == D.Len(j), z3.Select(st["isstr"], j) == utf_true,
                                                          z3.Implies(utf_true, z3.Select(st["errors_ignore"], j)))),
                  z3.Implies(j >= k, z3.Not(z3.Select(st["set"], j))))


def k_unpack(mode, timeout):
    """mode: 'wellformed' | 'unchecked'"""
    res = KResults()
    wf = mode == "wellformed"
    tag = "" if wf else "[unchecked input]"
    pre_name = "unpack_byte_array" + tag + "."
    D = Spec("d")                      # DStart / DLen: the decoder's view of the buffer
    nbytes, jS = z3.Int("buffer_len"), z3.Int("j_skolem")
    n = CI.var("n", 64, True)
    utf = CI.var("utf", 8, True)
    utf_true = utf.iv != 0
    made, st8 = [], {}
    mem0 = z3.Const("raw_mem", cy.MemSort)

    def dfacts(k):
        """well-formed page, instances at value k: the length word at DStart(k) IS DLen(k) (definition), it is >= 0, values are back
        to back and all n of them lie inside the buffer"""
        return [D.Len(k) == SInt32(word32(mem0, D.Start(k)))] + D.facts(k, n.iv) + [D.Start(n.iv) <= nbytes]

    def hook(eng, st, p):
        arr = made[-1] if made else None
        if arr is None or not isinstance(p.env.get("out"), Custom) or p.env["out"].h is not arr:
            raise Unsupported("`out` is not the array made by np.empty(n, dtype=object)")
        ptr0, bc0, i0 = p.env["ptr"], p.env["bytecount"], p.env["i"]
        if not (isinstance(ptr0, Ptr) and ptr0.region == "raw"):
            raise Unsupported("`ptr` does not point into raw_bytes")
        st8["pc_entry"] = list(p.pc)
        eng.oblige(p, "unpack_byte_array.bytecount_is_buffer_length", "inv", eng.ci_int(bc0) == nbytes, st,
                   note="for EVERY buffer length: the C int `bytecount` holds raw_bytes.shape[0] (Py_ssize_t)")
        q0 = p.fork(nbytes < 2 ** 31)
        eng.oblige(q0, "unpack_byte_array.loop.cursor_invariant_on_entry", "cursor_inv",
                   z3.And(eng.ci_int(i0) == 0, ptr0.off == D.Start(0) if wf else ptr0.off == 0, eng.ci_int(bc0) == nbytes - ptr0.off), st,
                   note="i == 0, ptr at the first byte, bytecount == len(buffer) (buffers below 2 GiB: what a page can be)")
        if wf:
            eng.oblige(q0, "unpack_byte_array.loop.output_invariant_on_entry", "inv",
                       _out_inv(p.ghost[arr.key()], D, z3.IntVal(0), jS, utf_true, n.iv), st, note="no output slot is set before the loop")
        # ---- one arbitrary iteration
        q = p.fork(nbytes < 2 ** 31)
        k, P, BC = z3.Int("k_iter"), z3.Int("consumed_in"), z3.Int("bytecount_in")
        havoc_assigned(eng, st, q, skip=("out", "i", "ptr", "bytecount"))
        q.env["i"] = ci(k)
        q.env["ptr"] = Ptr("raw", P, ptr0.elem)
        q.env["bytecount"] = ci(BC, 32, True)
        sti = arr.fresh_state(eng, q, "iter")
        q.ghost["nstores:out"] = 0
        q.pc += [0 <= k, k < 2 ** 63, BC >= -2 ** 31, BC < 2 ** 31, P + BC == nbytes, P >= 0]
        if wf:
            q.pc += [P == D.Start(k), k <= n.iv] + dfacts(k) + [_out_inv(sti, D, k, jS, utf_true, n.iv)]
        else:
            q.pc += [z3.Or(z3.And(P == 0, k == 0), z3.And(P >= 4, k >= 1))]
        bodies, exits_arb = [], []
        n0 = len(eng.oblig)
        for r, c in eng.cond(st.test, q):
            t = r.fork(c)
            if eng.feasible(t):
                for b in eng.block(st.body, [t]):
                    bodies.append(b)
            e = r.fork(z3.Not(c))
            if eng.feasible(e):
                exits_arb.append(e)
        retag(eng, n0, "unpack_byte_array", "loop")
        st8["iter"] = dict(k=k, P=P, BC=BC, bodies=bodies, exits=exits_arb, st_in=sti, arr=arr)
        # ---- exit state: the invariant at kx with the loop condition false
        ex = p.fork(nbytes < 2 ** 31)
        kx, Px, BCx = z3.Int("k_exit"), z3.Int("consumed_exit"), z3.Int("bytecount_exit")
        havoc_assigned(eng, st, ex, skip=("out", "i", "ptr", "bytecount"))
        ex.env["i"] = ci(kx)
        ex.env["ptr"] = Ptr("raw", Px, ptr0.elem)
        ex.env["bytecount"] = ci(BCx, 32, True)
        stx = arr.fresh_state(eng, ex, "exit")
        ex.pc += [0 <= kx, kx < 2 ** 63, BCx >= -2 ** 31, BCx < 2 ** 31, Px + BCx == nbytes, Px >= 0]
        if wf:
            ex.pc += [Px == D.Start(kx), kx <= n.iv] + dfacts(kx) + [_out_inv(stx, D, kx, jS, utf_true, n.iv)]
        st8["exit"] = dict(kx=kx, stx=stx)
        outs = []
        for r, c in eng.cond(st.test, ex):
            e = r.fork(z3.Not(c))
            if eng.feasible(e):
                outs.append(e)
        return outs

    eng = engine(loops={("unpack_byte_array", 0): LoopSpec("hook", inv=hook)}, handlers=_unpack_handlers(made, tag))
    p = Path()
    p.mem["raw"] = mem0
    p.rsize["raw"] = nbytes
    p.pc += [nbytes >= 0, nbytes < MAXSZ, n.range_constraint(), utf.range_constraint()]
    if wf:
        p.pc += [n.iv >= 0, D.Start(0) == 0]
    raw = View("raw", z3.IntVal(0), nbytes, (8, False))

    def mf(m):
        d = {"buffer_len": mv(m, nbytes), "n": mv(m, n.iv), "utf": mv(m, utf.iv)}
        it = st8.get("iter")
        if it:
            d.update(i=mv(m, it["k"]), consumed=mv(m, it["P"]), bytecount=mv(m, it["BC"]), declared_length=mv(m, SInt32(word32(mem0, it["P"]))))
        return d
    try:
        outs = eng.run("unpack_byte_array", p, [raw, n, utf])
    except Unsupported as ex:
        take(res, eng, pre_name, timeout, mf)
        res.addk(pre_name + "out_of_reach", "functional", UNKNOWN, None, 0.0, "engine", str(ex))
        return res
    # bytecount_is_buffer_length is posed once (in the well-formed run)
    take(res, eng, pre_name, timeout, mf, drop=() if wf else ("bytecount_is_buffer_length",))
    it = st8.get("iter")
    if it is None:
        res.addk(pre_name + "out_of_reach", "functional", UNKNOWN, None, 0.0, "engine", "the value loop was not reached")
        return res
    k, P, BC, arr = it["k"], it["P"], it["BC"], it["arr"]
    n_ok = 0
    for b in it["bodies"]:
        pc = list(b.pc) + list(b.axioms)
        if isinstance(b.ctl, tuple) and b.ctl[0] == "raise":
            if wf:
                res.addk("unpack_byte_array.loop.value_stored", "functional", REFUTED, {"ctl": str(b.ctl)}, 0.0, "trace",
                         "a well-formed value must not raise")
            # [unchecked input]: an exception is what the property asks for on malformed input - nothing to prove on this path
            continue
        if b.ctl not in (None, "continue"):
            res.addk(pre_name + "loop.cursor_invariant_preserved", "invariant", REFUTED, {"ctl": str(b.ctl)}, 0.0, "trace", "unexpected exit from the loop body")
            continue
        n_ok += 1
        i1, p1, bc1 = eng.ci_int(b.env["i"]), b.env["ptr"], eng.ci_int(b.env["bytecount"])
        st1 = b.ghost[arr.key()]
        if wf:
            post(res, "unpack_byte_array.loop.value_stored", pc,
                 z3.And(z3.BoolVal(b.ghost.get("nstores:out") == 1), z3.Select(st1["set"], k), z3.Select(st1["off"], k) == D.Start(k) + 4,
                        z3.Select(st1["len"], k) == D.Len(k), z3.Select(st1["isstr"], k) == utf_true), timeout,
                 "iteration k stores exactly one object, at out[k]: made of the DLen(k) bytes that follow the 4-byte length at DStart(k); "
                 "bytes when utf is false, str (UTF-8 decoded) when utf is true", mf)
            post(res, "unpack_byte_array.loop.cursor_invariant_preserved", pc,
                 z3.And(i1 == k + 1, k + 1 <= n.iv, z3.BoolVal(isinstance(p1, Ptr) and p1.region == "raw"), p1.off == D.Start(k + 1),
                        bc1 == nbytes - D.Start(k + 1)), timeout,
                 "i == k+1 <= n, ptr at DStart(k+1) = 4(k+1) + sum of the first k+1 lengths, bytecount == bytes left", mf, kind="invariant")
            post(res, "unpack_byte_array.loop.output_invariant_preserved", pc, _out_inv(st1, D, k + 1, jS, utf_true, n.iv), timeout,
                 "out[0..k] hold the decoded values 0..k, the slots from k+1 on are untouched", mf)
            post(res, "unpack_byte_array.input_not_written", pc, b.mem["raw"] == mem0, timeout, "the input buffer is not written", mf)
        else:
            # the invariant of the unchecked run is kept BY ITERATIONS WHOSE READS WERE INSIDE THE BUFFER (so that every reachable
            # state is covered by the arbitrary iteration; the reads themselves are the safety obligations above)
            L = SInt32(word32(mem0, P))
            post(res, pre_name + "negative_length_never_continues", pc, L >= 0, timeout,
                 "an iteration that completes without an exception had a declared length >= 0: a negative length (which would move the cursor "
                 "backwards) always ends in a Python exception (SystemError from the CPython API)", mf, kind="safety")
            post(res, pre_name + "loop.cursor_invariant_preserved", pc + [P + 4 <= nbytes, P + 4 + L <= nbytes],
                 z3.And(p1.off >= 4, p1.off + bc1 == nbytes, i1 == k + 1), timeout,
                 "consumed' = consumed + 4 + length >= 4 and consumed' + bytecount' == len(buffer) after an iteration that stayed inside the buffer", mf,
                 kind="invariant")
    if n_ok == 0:
        res.addk(pre_name + "loop.cursor_invariant_preserved", "invariant", UNKNOWN, None, 0.0, "engine", "no normal path through the loop body")
    if wf:
        for e in it["exits"]:
            post(res, "unpack_byte_array.loop_stops_only_when_all_values_decoded", list(e.pc) + list(e.axioms), k == n.iv, timeout,
                 "on a well-formed page the loop cannot stop before i == n: while i < n at least 4 bytes are left, so bytecount > 0", mf)
        n_ret = 0
        for q in outs:
            if q.ctl[0] == "raise":
                post(res, "unpack_byte_array.no_exception_on_well_formed_page", list(q.pc) + list(q.axioms), z3.BoolVal(False), timeout,
                     "with n >= 0 and a well-formed page no exception is raised", mf)
                continue
            n_ret += 1
            rv = q.ctl[1]
            X = st8["exit"]
            pc = list(q.pc) + list(q.axioms)
            is_out = isinstance(rv, Custom) and rv.h is arr
            stq = q.ghost[arr.key()]
            post(res, "unpack_byte_array.returns_all_decoded_values", pc,
                 z3.And(z3.BoolVal(bool(is_out)), arr.n == n.iv, X["kx"] == n.iv,
                        z3.Implies(z3.And(0 <= jS, jS < n.iv),
                                   z3.And(z3.Select(stq["set"], jS), z3.Select(stq["off"], jS) == D.Start(jS) + 4, z3.Select(stq["len"], jS) == D.Len(jS),
                                          z3.Select(stq["isstr"], jS) == utf_true))), timeout,
                 "the returned array has n slots and slot j (every j < n, Skolem index) is value j of the page: the DLen(j) bytes after the "
                 "length word at DStart(j) = 4j + sum of the earlier lengths; bytes / str by the utf flag", mf)
        if n_ret == 0:
            res.addk("unpack_byte_array.returns_all_decoded_values", "functional", UNKNOWN, None, 0.0, "engine", "no returning path")
        # vacuity guards
        if it["bodies"]:
            st, m, secs = solve(list(it["bodies"][0].pc) + [D.Len(k) >= 1, k >= 1], timeout)
            res.addk("unpack_byte_array.vacuity.requires_satisfiable", "functional", PROVED if st == REFUTED else UNKNOWN, None, secs, "z3",
                     "the hypotheses of the arbitrary iteration (well-formed page, k >= 1, non-empty value) are satisfiable")
            b = it["bodies"][0]
            st, m, secs = solve(list(b.pc) + [z3.Not(b.env["ptr"].off == D.Start(k + 1) + 1)], timeout)
            res.addk("unpack_byte_array.vacuity.must_fail_refuted", "functional", PROVED if st == REFUTED else UNKNOWN, None, secs, "z3",
                     "a deliberately wrong cursor claim (ptr at DStart(k+1) + 1) is refuted")
    return res


# =================================================================================================
# array_encode_utf8
# =================================================================================================
RES_FIELDS = {"set": B, "src": I}


def k_encode_utf8(timeout):
    res = KResults()
    N = z3.Int("arr_len")
    IsStr = z3.Function("IsStr", I, B)
    Encodable = z3.Function("HasUtf8Encoding", I, B)
    jS = z3.Int("j_skolem")
    made, st8 = [], {}

    def enc(eng, p, v):
        if isinstance(v, Custom) and isinstance(v.h, Obj) and v.h.kind == "utf8":
            return {"set": z3.BoolVal(True), "src": v.h.src}
        return None

    def h_array(eng, p, args, kw, node):
        # np.array(inp, copy=False) assigned to `np.ndarray[object, ndim=1] arr`: a 1-d object array of N elements (or an exception)
        arr = ObjArr("arr", N, {}, None, readonly=True)
        p.ghost[arr.key()] = {}
        st8["arr"] = arr
        return [(p, Custom(arr))]

    def h_utf8(eng, p, args, kw, node):
        o = args[0]
        if not (isinstance(o, Custom) and isinstance(o.h, Obj) and o.h.kind == "elem" and o.h.arr == "arr"):
            raise Unsupported("PyUnicode_AsUTF8String of an unmodelled object")
        out = []
        ok = p.fork(z3.And(IsStr(o.h.idx), Encodable(o.h.idx)))
        if eng.feasible(ok):
            out.append((ok, Custom(Obj("utf8", src=o.h.idx))))
        bad = p.fork(z3.Not(z3.And(IsStr(o.h.idx), Encodable(o.h.idx))))
        if eng.feasible(bad):
            out.append(_raise(bad, "TypeError|UnicodeEncodeError"))
        return out

    def inv(st, k, j, n):
        return z3.And(z3.Implies(z3.And(0 <= j, j < k), z3.And(z3.Select(st["set"], j), z3.Select(st["src"], j) == j)),
                      z3.Implies(j >= k, z3.Not(z3.Select(st["set"], j))))

    def hook(eng, st, p):
        arr = made[-1] if made else None
        if arr is None or not isinstance(p.env.get("result"), Custom) or p.env["result"].h is not arr:
            raise Unsupported("`result` is not the array made by np.empty(n, dtype=object)")
        hi = eng.as_int(eng.ev1(st.iter.args[0], p), p)
        st8["trip"], st8["pc_loop"] = hi, list(p.pc)
        eng.oblige(p, "array_encode_utf8.loop.invariant_on_entry", "inv", inv(p.ghost[arr.key()], z3.IntVal(0), jS, hi), st,
                   note="no result slot is set before the loop")
        q = p.fork()
        k = z3.Int("k_iter")
        havoc_assigned(eng, st, q, skip=("result", "i"))
        q.env["i"] = ci(k)
        sti = arr.fresh_state(eng, q, "iter")
        q.ghost["nstores:result"] = 0
        q.pc += [0 <= k, k < hi, inv(sti, k, jS, hi)]
        n0 = len(eng.oblig)
        bodies = eng.block(st.body, [q])
        retag(eng, n0, "array_encode_utf8", "loop")
        st8["iter"] = dict(k=k, bodies=bodies, arr=arr)
        ex = p.fork()
        kx = z3.Int("k_exit")
        havoc_assigned(eng, st, ex, skip=("result", "i"))
        ex.env["i"] = ci(z3.Int("i_after_loop"))
        ex.pc.append(ex.env["i"].range_constraint())
        stx = arr.fresh_state(eng, ex, "exit")
        ex.pc += [0 <= kx, z3.Or(kx <= hi, kx == 0), z3.Not(kx < hi), inv(stx, kx, jS, hi)]
        st8["exit"] = dict(kx=kx)
        return [ex]

    eng = engine(loops={("array_encode_utf8", 0): LoopSpec("hook", inv=hook)},
                 handlers={"np.array": h_array, "np.empty": h_np_empty("result", RES_FIELDS, enc, made), "PyUnicode_AsUTF8String": h_utf8})
    p = Path()
    p.pc += [N >= 0, N < MAXSZ]
    mf = lambda m: {"arr_len": mv(m, N), "i": mv(m, z3.Int("k_iter"))}
    try:
        outs = eng.run("array_encode_utf8", p, [Opaque("inp")])
    except Unsupported as ex:
        take(res, eng, "array_encode_utf8.", timeout, mf)
        res.addk("array_encode_utf8.out_of_reach", "functional", UNKNOWN, None, 0.0, "engine", str(ex))
        return res
    take(res, eng, "array_encode_utf8.", timeout, mf)
    it = st8.get("iter")
    if it is None:
        res.addk("array_encode_utf8.out_of_reach", "functional", UNKNOWN, None, 0.0, "engine", "the loop was not reached")
        return res
    k, arr = it["k"], it["arr"]
    post(res, "array_encode_utf8.loop_covers_the_input", st8["pc_loop"], z3.And(st8["trip"] == N, arr.n == N), timeout,
         "the loop runs over all arr.shape[0] elements and the result array has that many slots", mf, kind="invariant")
    n_ok = 0
    for b in it["bodies"]:
        pc = list(b.pc) + list(b.axioms)
        if isinstance(b.ctl, tuple) and b.ctl[0] == "raise":
            post(res, "array_encode_utf8.raises_only_for_unencodable_element", pc, z3.Not(z3.And(IsStr(k), Encodable(k))), timeout,
                 "an exception only when element k is not a str with a UTF-8 encoding", mf)
            continue
        n_ok += 1
        st1 = b.ghost[arr.key()]
        post(res, "array_encode_utf8.element_is_utf8_of_input", pc,
             z3.And(z3.BoolVal(b.ghost.get("nstores:result") == 1), z3.Select(st1["set"], k), z3.Select(st1["src"], k) == k), timeout,
             "iteration k stores exactly one object, at result[k]: the UTF-8 encoding of arr[k] (same position)", mf)
        post(res, "array_encode_utf8.loop.invariant_preserved", pc, inv(st1, k + 1, jS, st8["trip"]), timeout,
             "result[j] == utf8(arr[j]) for j <= k, later slots untouched", mf)
    if n_ok == 0:
        res.addk("array_encode_utf8.element_is_utf8_of_input", "functional", UNKNOWN, None, 0.0, "engine", "no normal path through the loop body")
    n_ret = 0
    for q in outs:
        if q.ctl[0] != "ret":
            continue
        n_ret += 1
        rv = q.ctl[1]
        stq = q.ghost[arr.key()]
        post(res, "array_encode_utf8.returns_all_encoded", list(q.pc) + list(q.axioms),
             z3.And(z3.BoolVal(isinstance(rv, Custom) and rv.h is arr), st8["exit"]["kx"] == N,
                    z3.Implies(z3.And(0 <= jS, jS < N), z3.And(z3.Select(stq["set"], jS), z3.Select(stq["src"], jS) == jS))), timeout,
             "the returned array has len(arr) slots and slot j is the UTF-8 encoding of arr[j] for every j (Skolem index)", mf)
    if n_ret == 0:
        res.addk("array_encode_utf8.returns_all_encoded", "functional", UNKNOWN, None, 0.0, "engine", "no returning path")
    return res


# =================================================================================================
# round trip over the shared specification
# =================================================================================================
def k_roundtrip(timeout):
    """unpack's [well-formed] precondition follows from pack's postcondition: buffer == encoding(xs), every item < 2**31 bytes, the whole
    buffer < 2**31 bytes (a page).  Induction over k: DStart(k) == Start(k) (decoder and encoder agree where value k starts)."""
    res = KResults()
    S, D = Spec("p"), Spec("d")
    mem = z3.Const("buffer_mem", cy.MemSort)
    k, j, n, idx = z3.Ints("k j n idx")
    is_enc = lambda t: z3.Select(mem, t) == S.Enc(t)           # pack's post, instantiated at the indices needed
    small = [S.Len(k) >= 0, S.Len(k) < 2 ** 31]
    w = word32(mem, S.Start(k))
    mf = lambda m: {"k": mv(m, k), "len_k": mv(m, S.Len(k)), "start_k": mv(m, S.Start(k))}
    hyp = [0 <= k, k < n] + small + S.enc_at(k, j) + [is_enc(S.Start(k) + b) for b in range(4)]
    post(res, "roundtrip.length_word_is_int32_of_item_length", hyp, w == z3.Int2BV(S.Len(k), 32), timeout,
         "in encoding(xs) the 4 bytes at Start(k) are the 32-bit two's complement of Len(k)", mf)
    # cut: the word equality just proved + the instance of spec.int32_le_decodes_its_encoding at L = Len(k)
    lemma = [w == z3.Int2BV(S.Len(k), 32), SInt32(z3.Int2BV(S.Len(k), 32)) == S.Len(k)]
    ddef = [D.Len(k) == SInt32(word32(mem, D.Start(k))), D.Start(k + 1) == D.Start(k) + 4 + D.Len(k), D.Start(0) == 0]
    post(res, "roundtrip.decoder_length_is_item_length", hyp + lemma + ddef + [D.Start(k) == S.Start(k)], D.Len(k) == S.Len(k), timeout,
         "induction hypothesis DStart(k) == Start(k)  =>  the length the decoder reads for value k is Len(k) (so it is >= 0)", mf)
    post(res, "roundtrip.decoder_start_is_encoder_start.base", ddef + S.defs_at(k), D.Start(0) == S.Start(0), timeout, "both start at 0", mf)
    post(res, "roundtrip.decoder_start_is_encoder_start.step", hyp + ddef + S.defs_at(k) + [D.Start(k) == S.Start(k), D.Len(k) == S.Len(k)],
         D.Start(k + 1) == S.Start(k + 1), timeout, "DStart(k+1) == Start(k+1): value k+1 is found where the encoder put it", mf)
    post(res, "roundtrip.value_bytes_are_item_bytes", hyp + [0 <= j, j < S.Len(k), D.Start(k) == S.Start(k), D.Len(k) == S.Len(k), is_enc(S.Start(k) + 4 + j)],
         z3.Select(mem, D.Start(k) + 4 + j) == S.Byte(k, j), timeout,
         "byte j of decoded value k (buffer[DStart(k) + 4 + j]) is byte j of item k, for every j < Len(k): unpack(pack(xs))[k] == xs[k]", mf)
    post(res, "roundtrip.all_values_inside_buffer", [D.Start(n) == S.Start(n), S.Start(n) < 2 ** 31, n >= 0], z3.And(D.Start(n) <= S.Start(n), S.Start(n) < 2 ** 31), timeout,
         "with DStart(n) == Start(n) == len(encoding) < 2**31 the decoder's precondition `n values inside a buffer below 2 GiB` holds", mf)
    # must-fail: without the representability bound the decoder's length differs
    st, m, secs = solve([0 <= k, S.Len(k) >= 0] + S.enc_at(k, j) + [is_enc(S.Start(k) + b) for b in range(4)] +
                        [z3.Not(z3.SignExt(32, w) == z3.Int2BV(S.Len(k), 64))], timeout)
    res.addk("roundtrip.vacuity.must_fail_without_2GiB_bound", "functional", PROVED if st == REFUTED else UNKNOWN, None, secs, "z3",
             "vacuity guard: for an item of 2**31 bytes or more the decoded length is NOT the item length (the bound is needed)")
    return res


# =================================================================================================
# Python call sites
# =================================================================================================
class Rec:
    """opaque record whose attribute chains are remembered as a path tuple: header.data_page_header.num_values -> Field"""
    tracked = False

    def __init__(self, path, ints=None):
        self.path, self.ints = path, ints if ints is not None else {}

    def attr(self, eng, p, name):
        full = self.path + (name,)
        if full in self.ints:
            return PyI(self.ints[full])
        return Custom(Rec(full, self.ints))

    def call_method(self, eng, p, name, args, kw, node):
        return [(p, Opaque(("call", ".".join(self.path + (name,)), next(eng.counter))))]

    def is_none(self, eng, p):
        return z3.BoolVal(False)

    def truth(self, eng, p):
        return eng.fresh("truth_" + ".".join(self.path)[:24], B)

    def eq(self, eng, p, other):
        return eng.fresh("eq_" + ".".join(self.path)[:24], B)

    def isinstance(self, eng, p, tn):
        return eng.fresh("isinst", B)

    def contains(self, eng, p, item):
        return eng.fresh("in", B)

    def getitem(self, eng, p, i, node=None):
        return Opaque(("item", self.path, next(eng.counter)))


def _same(a, b):
    if a is b:
        return True
    if isinstance(a, Opaque) and isinstance(b, Opaque):
        return a.tag == b.tag
    if isinstance(a, Custom) and isinstance(b, Custom):
        return a.h is b.h
    return False


def k_callsites(ctx, timeout):
    res = KResults()
    kind = "invariant"    # the kernel's precondition is a safety precondition AND what makes the decoded values the page's values

    def add(name, ok, detail, model=None, k=None):
        res.addk(name, k or kind, PROVED if ok else REFUTED, None if ok else (model or {}), 0.0, "symexec", detail)

    # ---- encoding.read_plain: BYTE_ARRAY branch hands (raw_bytes, count, utf) on unchanged
    enc, _, _ = parse_module("fastparquet/encoding.py")
    if ctx is not None:
        ctx.function("encoding.read_plain", enc["read_plain"].sha, enc["read_plain"].report)
    seen = []

    def h_unpack(eng, p, args, kw, node):
        seen.append((p, args, kw, node.lineno))
        return [(p, Custom(Obj("unpack_result", line=node.lineno)))]
    eng = Engine(funcs=enc, handlers={"unpack_byte_array": h_unpack}, opaque_calls=True)
    raw, cnt, utf, stat = Opaque("raw_bytes"), PyI(z3.Int("count")), Opaque("utf"), PyB(z3.Bool("stat"))
    try:
        outs = eng.run("read_plain", Path(), [raw, Opaque("type_"), cnt, PyI(z3.Int("width")), utf, stat])
        ok = bool(seen) and all(len(a) >= 2 and _same(a[0], raw) and a[1] is cnt and _same(kw.get("utf", a[2] if len(a) > 2 else None), utf)
                                for _, a, kw, _ in seen)
        add("callsite.read_plain.byte_array_args_unchanged", ok,
            "encoding.read_plain hands raw_bytes, count and utf to unpack_byte_array exactly as it received them (no slicing, no other count)",
            {"calls": len(seen)})
        rets = [q for q in outs if q.ctl and q.ctl[0] == "ret" and isinstance(q.ctl[1], Custom) and isinstance(q.ctl[1].h, Obj)
                and q.ctl[1].h.kind == "unpack_result"]
        add("callsite.read_plain.returns_kernel_result", bool(rets), "the array made by the kernel is returned as is", k="functional")
        for q, a, kw, ln in seen:
            st, m, secs = solve(list(q.pc) + [z3.Bool("stat")], timeout)
            res.addk("callsite.read_plain.kernel_only_without_stat", "functional", st, None, secs, "z3",
                     "the kernel is reached only with stat=False (statistics values have no length prefix)")
    except Unsupported as ex:
        res.addk("callsite.read_plain.out_of_reach", kind, UNKNOWN, None, 0.0, "engine", str(ex))
    # ---- core.py
    core, _, _ = parse_module("fastparquet/core.py")
    if ctx is not None:
        for fn in ("read_dictionary_page", "read_data_page", "read_data_page_v2"):
            ctx.function("core." + fn, core[fn].sha, core[fn].report)
    # read_dictionary_page: the whole decompressed page, the dictionary header's num_values
    seen2 = []

    def h_unpack2(eng, p, args, kw, node):
        seen2.append((p, args, kw))
        return [(p, Opaque("values"))]
    page = []

    def h_read_page(eng, p, args, kw, node):
        v = Opaque(("page_bytes", next(eng.counter)))
        page.append(v)
        return [(p, v)]
    NV = z3.Int("dict_num_values")
    ph = Custom(Rec(("page_header",), {("page_header", "dictionary_page_header", "num_values"): NV}))
    eng = Engine(funcs=core, handlers={"unpack_byte_array": h_unpack2, "_read_page": h_read_page}, opaque_calls=True)
    utf2 = Opaque("utf")
    try:
        eng.run("read_dictionary_page", Path(), [Opaque("file_obj"), Custom(Rec(("schema_helper",))), ph, Custom(Rec(("column_metadata",))), utf2])
        ok = bool(seen2) and all(len(a) >= 2 and page and _same(a[0], page[-1]) and isinstance(a[1], PyI) and z3.eq(a[1].z, NV)
                                 and _same(kw.get("utf"), utf2) for _, a, kw in seen2)
        add("callsite.read_dictionary_page.whole_page_and_header_count", ok,
            "read_dictionary_page hands the whole page returned by _read_page and dictionary_page_header.num_values to unpack_byte_array")
    except Unsupported as ex:
        res.addk("callsite.read_dictionary_page.out_of_reach", kind, UNKNOWN, None, 0.0, "engine", str(ex))
    # read_data_page: read_plain(io_obj.read(), metadata.type, int(daph.num_values - num_nulls), ...)
    seen3 = []
    NV3, NN3 = z3.Int("page_num_values"), z3.Int("page_num_nulls")

    class IO:
        tracked = False

        def call_method(self, eng, p, name, args, kw, node):
            if name == "read":
                return [(p, Custom(Obj("io_read", nargs=len(args) + len(kw))))]
            if name in ("read_byte", "tell"):
                return [(p, PyI(eng.fresh_int(name)))]
            return [(p, Opaque(("io." + name, next(eng.counter))))]

        def attr(self, eng, p, name):
            return PyI(eng.fresh_int("io_" + name))

        def is_none(self, eng, p):
            return z3.BoolVal(False)

    def h_read_plain(eng, p, args, kw, node):
        seen3.append((p, args, kw, node.lineno))
        return [(p, Opaque("values"))]

    def h_read_def(eng, p, args, kw, node):
        p.ghost["levels_decoded"] = True
        return [(p, Tup([Opaque("definition_levels"), PyI(NN3)]))]
    hdr = Custom(Rec(("header",), {("header", "data_page_header", "num_values"): NV3}))
    hs = {"read_plain": h_read_plain, "read_def": h_read_def, "read_rep": lambda e, p, a, k, n: [(p, Opaque("repetition_levels"))],
          "_read_page": h_read_page, "encoding.NumpyIO": lambda e, p, a, k, n: [(p, Custom(IO()))],
          "skip_definition_bytes": lambda e, p, a, k, n: [(p, NONE)], "np.empty": lambda e, p, a, k, n: [(p, Opaque(("np.empty", next(e.counter))))],
          "np.zeros": lambda e, p, a, k, n: [(p, Opaque(("np.zeros", next(e.counter))))],
          "np.frombuffer": lambda e, p, a, k, n: [(p, Opaque(("np.frombuffer", next(e.counter))))]}
    eng = Engine(funcs=core, handlers=hs, opaque_calls=True)
    p = Path()
    p.pc += [NV3 >= 0, NN3 >= 0, NN3 <= NV3]
    try:
        eng.run("read_data_page", p, [Opaque("f"), Custom(Rec(("helper",))), hdr, Custom(Rec(("metadata",))),
                                      PyB(eng.fresh("skip_nulls", B)), PyB(False)])
        if not seen3:
            res.addk("callsite.read_data_page.plain_branch_reached", kind, UNKNOWN, None, 0.0, "engine", "read_plain call not reached")
        for q, a, kw, ln in seen3:
            buf_ok = len(a) >= 1 and isinstance(a[0], Custom) and isinstance(a[0].h, Obj) and a[0].h.kind == "io_read" and a[0].h.nargs == 0
            add("callsite.read_data_page.buffer_is_rest_of_page", buf_ok,
                "the buffer handed to read_plain is io_obj.read(): everything after the level blocks, to the end of the page")
            c = a[2] if len(a) > 2 else kw.get("count")
            if isinstance(c, (PyI, CI)):
                cz = eng.as_int(c, q)
                # on the skip_nulls path num_nulls is the constant 0 (values of nulls are absent AND not counted: selfmade required column)
                want = NV3 - NN3 if q.ghost.get("levels_decoded") else NV3
                st, m, secs = solve(list(q.pc) + [z3.Not(cz == want)], timeout)
                res.addk("callsite.read_data_page.count_is_non_null_values", kind, st,
                         {"count": str(m.eval(cz)) if m is not None else None} if st == REFUTED else None, secs, "z3",
                         "the count handed to read_plain is the page's num_values minus the nulls counted from its definition levels "
                         "(num_values itself where no levels are decoded)")
            else:
                add("callsite.read_data_page.count_is_non_null_values", False, "the count argument is not an integer expression of the page header",
                    {"count": str(c)})
    except Unsupported as ex:
        res.addk("callsite.read_data_page.out_of_reach", kind, UNKNOWN, None, 0.0, "engine", str(ex))
    # read_data_page_v2 (outside the executor's subset: structural)
    f2 = core["read_data_page_v2"].tree
    nv_def = None
    for node in ast.walk(f2):
        if isinstance(node, ast.Assign) and len(node.targets) == 1 and isinstance(node.targets[0], ast.Name) and node.targets[0].id == "n_values":
            nv_def = ast.unparse(node.value)
    calls = [c for c in ast.walk(f2) if isinstance(c, ast.Call) and ast.unparse(c.func) == "read_plain"]
    okv2 = bool(calls) and all(len(c.args) >= 3 and ast.unparse(c.args[2]) == "n_values" for c in calls) and \
        nv_def is not None and nv_def.replace(" ", "") == "data_header2.num_values-data_header2.num_nulls"
    res.addk("callsite.read_data_page_v2.count_is_non_null_values", kind, PROVED if okv2 else REFUTED,
             None if okv2 else {"n_values": nv_def, "calls": [ast.unparse(c)[:120] for c in calls]}, 0.0, "ast",
             "read_plain receives n_values = data_header2.num_values - data_header2.num_nulls (structural check: numpy fancy indexing puts the "
             "function outside the executor's subset)")
    # ---- writer.encode_plain / convert
    wr, _, _ = parse_module("fastparquet/writer.py")
    if ctx is not None:
        for fn in ("encode_plain", "convert"):
            ctx.function("writer." + fn, wr[fn].sha, wr[fn].report)
    seen4, conv = [], []

    def h_convert(eng, p, args, kw, node):
        v = Opaque(("converted", next(eng.counter)))
        conv.append((v, args))
        return [(p, v)]

    def h_list(eng, p, args, kw, node):
        return [(p, Custom(Obj("list_of", src=args[0] if args else None)))]

    def h_pack(eng, p, args, kw, node):
        seen4.append((p, args))
        return [(p, Custom(Obj("pack_result")))]
    eng = Engine(funcs=wr, handlers={"convert": h_convert, "list": h_list, "pack_byte_array": h_pack}, opaque_calls=True)
    data, se = Opaque("data"), Custom(Rec(("se",)))
    try:
        outs = eng.run("encode_plain", Path(), [data, se])
        ok = bool(seen4) and all(len(a) == 1 and isinstance(a[0], Custom) and isinstance(a[0].h, Obj) and a[0].h.kind == "list_of" and conv
                                 and _same(a[0].h.src, conv[-1][0]) and _same(conv[-1][1][0], data) for _, a in seen4)
        add("callsite.encode_plain.packs_list_of_converted_values", ok,
            "encode_plain hands list(convert(data, se)) - a real list of all converted values, in order - to pack_byte_array", k="functional")
        rets = [q for q in outs if q.ctl and q.ctl[0] == "ret" and isinstance(q.ctl[1], Custom) and isinstance(q.ctl[1].h, Obj)
                and q.ctl[1].h.kind == "pack_result"]
        add("callsite.encode_plain.returns_kernel_result", bool(rets), "the bytes object made by the kernel is the page's value section, unmodified",
            k="functional")
    except Unsupported as ex:
        res.addk("callsite.encode_plain.out_of_reach", "functional", UNKNOWN, None, 0.0, "engine", str(ex))
    # convert: every array_encode_utf8 call is on `data` itself and its result is what flows on (structural)
    cv = wr["convert"].tree
    ucalls = [c for c in ast.walk(cv) if isinstance(c, ast.Call) and ast.unparse(c.func) == "array_encode_utf8"]
    okc = bool(ucalls) and all(len(c.args) == 1 and ast.unparse(c.args[0]) == "data" for c in ucalls)
    asg = [n for n in ast.walk(cv) if isinstance(n, ast.Assign) and isinstance(n.value, ast.Call) and ast.unparse(n.value.func) == "array_encode_utf8"]
    okc = okc and len(asg) == len(ucalls) and all(len(a.targets) == 1 and ast.unparse(a.targets[0]) == "out" for a in asg)
    res.addk("callsite.convert.utf8_encodes_the_column", "functional", PROVED if okc else REFUTED,
             None if okc else {"calls": [ast.unparse(c) for c in ucalls]}, 0.0, "ast",
             "convert() applies array_encode_utf8 to the column `data` itself and assigns the result to `out` (structural)")
    return res


# =================================================================================================
TASKS = ["lemmas", "pack", "unpack:wellformed", "unpack:unchecked", "utf8", "roundtrip", "callsites"]


def run_task(task, timeout, ctx=None):
    if task == "lemmas":
        return spec_lemmas(timeout)
    if task == "pack":
        return k_pack(timeout)
    if task.startswith("unpack:"):
        return k_unpack(task.split(":")[1], timeout)
    if task == "utf8":
        return k_encode_utf8(timeout)
    if task == "roundtrip":
        return k_roundtrip(timeout)
    if task == "callsites":
        return k_callsites(ctx, timeout)
    raise KeyError(task)


C11_ONLY = ("unpack_byte_array.bytecount_is_buffer_length", "pack_byte_array.", "array_encode_utf8.", "callsite.encode_plain", "callsite.convert")


def props_of(name, kind):
    """which properties an obligation is reported under: 'safety' -> C12; 'functional' -> C11 (and C03 for the read side);
    'invariant' (a step the safety proofs rely on: cursor / size bookkeeping, the monotonicity lemma, the call sites) -> both"""
    fun = ("C11",) if name.startswith(C11_ONLY) else ("C11", "C03")
    if kind == "safety":
        return ("C12",)
    if kind == "invariant":
        return ("C12",) + fun
    return fun


def anchor_check():
    pyx = os.path.join(REPO, "fastparquet", PYX)
    return front_cy.c_anchor_check(pyx, os.path.join(REPO, "fastparquet", "speedups.c"))


# =================================================================================================
# native replay of refuted obligations (always in a subprocess: the extension may crash the interpreter)
# =================================================================================================
_PRE = "import sys, json\nsys.path.insert(0, %r)\nimport numpy as np\nfrom fastparquet import speedups as sp\n"

REPLAYS = {
    # fewer than 4 bytes left: the 4-byte length itself is read past the end of the view (the view is a prefix of a bigger array,
    # so the bytes behind it are known and the over-read is observable instead of undefined)
    "load_in_region": '''
left = max(1, min(3, int(MODEL.get("bytecount") or 1)))
first = b"\\x00\\x00\\x00\\x00"                                   # value 0: empty
big = np.zeros(64, "uint8")
view_len = len(first) + left
tail = [3, 0, 0, 0][:left]                                       # the part of the second length word that IS inside the view
big[:4] = list(first); big[4:4 + left] = tail
big[4 + left:8] = [3, 0, 0, 0][left:]                            # the rest of the word lies BEHIND the view
big[8:11] = [0x51, 0x52, 0x53]                                   # and so does the 3-byte payload it announces
r = sp.unpack_byte_array(big[:view_len], 2)
print(json.dumps(dict(VIOLATED=(r[1] == b"QRS"), detail=dict(view_len=view_len, bytes_left_for_second_length=left, decoded=[repr(x) for x in r],
      note="value 1 was assembled from a length word and a payload that lie outside the buffer handed in"))))
''',
    # declared length runs past the end of the view
    "value_bytes_inside_buffer": '''
utf = bool(MODEL.get("utf"))
big = np.full(64, 0x41, "uint8")
big[:4] = [20, 0, 0, 0]                                          # value 0 declares 20 bytes, the view holds 4 + 4
r = sp.unpack_byte_array(big[:8], 1, utf)
got = r[0]
print(json.dumps(dict(VIOLATED=(len(got) == 20), detail=dict(view_len=8, declared_length=20, returned_length=len(got), returned=repr(got),
      note="16 of the 20 returned bytes were read behind the end of the buffer handed in"))))
''',
    "bytecount_is_buffer_length": '''
b = np.zeros(2 ** 31, "uint8"); b[:5] = [1, 0, 0, 0, 65]
r = sp.unpack_byte_array(b, 1)
print(json.dumps(dict(VIOLATED=(r[0] != b"A"), detail=dict(buffer_len=2 ** 31, decoded=[repr(x) for x in r], expected="[b'A']"))))
''',
    "length_prefix_decodes_to_item_length": '''
x = bytes(2 ** 31)
o = sp.pack_byte_array([x])
dec = int.from_bytes(o[:4], "little", signed=True)
print(json.dumps(dict(VIOLATED=(dec != len(x)), detail=dict(item_len=len(x), prefix=repr(o[:4]), prefix_as_int32=dec, output_len=len(o),
      note="no exception; the 4-byte prefix is the wrapped length"))))
''',
}


REPLAY_FOR = [("load_in_region", r"^unpack_byte_array\[unchecked input\]\.loop\.load_in_region"),
              ("value_bytes_inside_buffer", r"^unpack_byte_array\[unchecked input\]\.loop\.value_bytes_inside_buffer"),
              ("bytecount_is_buffer_length", r"^unpack_byte_array\.bytecount_is_buffer_length"),
              ("length_prefix_decodes_to_item_length", r"^pack_byte_array\.length_prefix_decodes_to_item_length")]


def replay(name, model, repo=None):
    """-> (confirmed, text, program)"""
    import json
    import subprocess
    import sys
    key = next((k for k, rx in REPLAY_FOR if re.search(rx, name)), None)
    if key is None:
        return False, "no native replay registered for this obligation", None
    prog = (_PRE % (repo or REPO)) + "MODEL = " + json.dumps({k: v for k, v in (model or {}).items() if isinstance(v, (int, bool, type(None)))}) + REPLAYS[key]
    try:
        r = subprocess.run([sys.executable, "-c", prog], capture_output=True, text=True, timeout=300)
    except subprocess.TimeoutExpired:
        return False, "replay timed out", prog
    if r.returncode < 0:
        return True, f"real function died with signal {-r.returncode}", prog
    try:
        out = json.loads(r.stdout.strip().splitlines()[-1])
        return bool(out["VIOLATED"]), json.dumps(out["detail"])[:600], prog
    except Exception:
        return False, "replay produced no verdict: " + (r.stderr[-300:] or r.stdout[-300:]), prog
