"""C18 - validate before effect: writer.write and api.ParquetFile.write_row_groups, from their real sources, on an I/O EFFECT TRACE.

writer.write(filename, data, ..., file_scheme, partition_on, append, ...) is executed symbolically: pandas objects are opaque,
`file_scheme` / `pf.file_scheme` are symbolic strings (Int-coded, literals pairwise distinct), `append` is one of False / True /
'overwrite', `partition_on` is a str or a list.  Every call appends to the ghost trace of its path:
   effect      write_simple / write_multi / overwrite / pf.write_row_groups / mkdirs / default_mkdirs / open_with / default_open /
               open / os.makedirs / os.remove / os.rename / shutil.rmtree / any .mkdirs .makedirs .open .rm .mv .remove .rename .unlink
   validated   check_column_names / make_metadata returned normally (each ALSO has raising paths: duplicate / non-text column
               names, unsupported dtype)
   call        any other call; pure only if in PURE (getattr, json.dumps, str, set, tuple, reset_row_idx, get_fs, ParquetFile(...),
               pf._get_index ...); anything else makes the obligations of the paths it precedes UNKNOWN (undecided), never proved
Obligations (names are the rejections of the property statement):
   write.validate_before_effect[R]   on EVERY path that raises for rejection R the trace holds no effect
        R in  bad_file_scheme | append_scheme_mismatch | append_partitioning_mismatch | check_column_names |
              make_metadata:duplicate_column_names | make_metadata:non_text_column_names | make_metadata:unsupported_dtype | raise@L<n>
        (a raise statement of write itself is classified by what its path condition implies, not by its text)
   write.rejects[R]                  the refusal exists and is complete: EVERY path whose condition is compatible with
                                     R's input condition raises (and at least one does):
        bad_file_scheme               file_scheme not in {simple, hive, drill}
        append_scheme_mismatch        append (not 'overwrite'), file_scheme == simple and pf.file_scheme not in {simple, empty}, or
                                      file_scheme in {hive, drill} and pf.file_scheme not in {hive, empty, flat}
        append_partitioning_mismatch  append (not 'overwrite'), file_scheme in {hive, drill}, tuple(partition_on) != tuple(pf.cats)
        check_column_names / make_metadata:*   a raising path of that call is reached
   write.effect_only_after_validation[E]   a fresh (non-append) write reaches write_simple / write_multi only after
                                     check_column_names and make_metadata returned
api.ParquetFile.write_row_groups (the callee that guards an append of a DataFrame):
   write_row_groups.refuses_unequal_column_sets   data is a DataFrame and sorted(self.columns + list(self.cats)) != sorted(data.columns)
                                     (the two sorted lists are opaque values with ONE uninterpreted equality): every compatible path raises
   write_row_groups.accepts_equal_column_sets     a path that raises has a condition implying the disequality (the test is the
                                     equality of the two column sets, not more)
   write_row_groups.validate_before_effect[different_columns]   the raise precedes write_simple / write_multi / metadata writes
   write_row_groups.writes_after_check            every returning path wrote through write_simple or write_multi
ASSUMED: see the list at the end (which calls are effects, which are pure; the three facts about set differences).
"""
import ast
import itertools

import z3

from vc.front_py import parse_module
from vc.symexec import Engine, Path, Custom, Opaque, Str, PyB, NONE, Tup, Unsupported
from vlib.common import PROVED, REFUTED, UNKNOWN
from .util import Results, solve

_c = itertools.count()
_STR = {}


def strid(s):
    """string literals as pairwise distinct Int codes"""
    if s not in _STR:
        _STR[s] = len(_STR) + 1
    return z3.IntVal(_STR[s])


class SymStr:
    """a str whose value is symbolic; only ==, !=, in are asked of it"""
    tracked = False

    def __init__(self, z):
        self.z = z

    def eq(self, eng, p, other):
        if isinstance(other, Str):
            return self.z == strid(other.s)
        if isinstance(other, Custom) and isinstance(other.h, SymStr):
            return self.z == other.h.z
        return z3.BoolVal(False)

    def is_none(self, eng, p):
        return z3.BoolVal(False)

    def truth(self, eng, p):
        return self.z != strid("")


class AppendV:
    """the `append` argument: 0 False, 1 True, 2 'overwrite'"""
    tracked = False

    def __init__(self, z):
        self.z = z

    def eq(self, eng, p, other):
        if isinstance(other, Str):
            return self.z == 2 if other.s == "overwrite" else z3.BoolVal(False)
        if isinstance(other, PyB):
            return z3.If(other.z, self.z == 1, self.z == 0)
        raise Unsupported("append compared with " + type(other).__name__)

    def truth(self, eng, p):
        return self.z != 0

    def is_none(self, eng, p):
        return z3.BoolVal(False)


class Named:
    """an opaque value with a name (partition_on, pf.cats, columns, ...): identity is all that is used"""
    tracked = False

    def __init__(self, name, is_str=None):
        self.name, self.is_str = name, is_str

    def isinstance(self, eng, p, tn):
        if self.is_str is not None and tn == "str":
            return self.is_str
        key = ("isinstance", self.name, tn)
        if key not in p.opq:
            p.opq[key] = eng.fresh("isinst", z3.BoolSort())
        return p.opq[key]

    def truth(self, eng, p):
        key = ("truth", self.name)
        if key not in p.opq:
            p.opq[key] = eng.fresh("truth_" + self.name, z3.BoolSort())
        return p.opq[key]

    def is_none(self, eng, p):
        return z3.BoolVal(False)

    def attr(self, eng, p, name):
        return Custom(Named(self.name + "." + name))

    def setattr(self, eng, p, name, v):
        pass

    def getitem(self, eng, p, i, node):
        return Opaque((self.name, "[]", next(eng.counter)))

    def slice(self, eng, p, lo, hi, node):
        return Opaque((self.name, "[:]", next(eng.counter)))

    def binop(self, eng, p, op, other, node):
        if isinstance(op, ast.Add):
            return Custom(Cols(_parts(self) + _parts(other)))
        if isinstance(op, ast.Sub):
            return Custom(Named(f"({self.name} - {getattr(getattr(other, 'h', None), 'name', '?')})"))
        return Opaque(("binop", self.name, next(eng.counter)))

    def eq(self, eng, p, other):
        on = getattr(getattr(other, "h", None), "name", None)
        if on is None:
            return eng.fresh("eq_" + self.name, z3.BoolSort())
        return named_eq(p, self.name, on)

    def call_method(self, eng, p, name, args, kw, node):
        trace(p, "call", self.name + "." + name, node)
        return [(p, Opaque(("call", self.name + "." + name, next(eng.counter))))]


def _parts(v):
    h = v if isinstance(v, Named) else getattr(v, "h", None)
    if isinstance(h, Cols):
        return h.parts
    if isinstance(h, Named):
        return (h.name,)
    return ("?%d" % next(_c),)


class Cols(Named):
    """a concatenation of named lists"""

    def __init__(self, parts):
        self.parts = tuple(parts)
        Named.__init__(self, "+".join(self.parts))


def named_eq(p, a, b):
    """ONE uninterpreted equality per unordered pair of named values (memoised on the path)"""
    if a == b:
        return z3.BoolVal(True)
    key = ("named_eq",) + tuple(sorted((a, b)))
    if key not in p.opq:
        p.opq[key] = z3.Bool("[" + key[1] + " == " + key[2] + "]")
    return p.opq[key]


def trace(p, kind, name, node=None):
    p.ghost.setdefault("trace", []).append((kind, name, getattr(node, "lineno", 0)))


EFFECT_NAMES = ["write_simple", "write_multi", "overwrite", "mkdirs", "default_mkdirs", "open_with", "default_open", "open",
                "os.makedirs", "os.mkdir", "os.remove", "os.rename", "os.unlink", "shutil.rmtree", "shutil.move", "remove_with",
                "write_common_metadata", "update_file_custom_metadata", "merge"]
EFFECT_METHODS = [".mkdirs", ".makedirs", ".mkdir", ".open", ".rm", ".rm_file", ".mv", ".remove", ".rename", ".unlink", ".rmtree",
                  ".touch", ".write_bytes", ".write_text", ".put", ".pipe"]
PURE = {"getattr", "json.dumps", "str", "set", "tuple", "list", "dict", "sorted", "len", "bool", "int", "reset_row_idx", "get_fs",
        "ParquetFile", "pf._get_index", "check_column_names", "make_metadata", "custom_metadata.items", "data.attrs.copy", "hasattr", "type",
        "custom_metadata.copy", "custom_metadata.update", "kvm.extend", "kvm.append", "norm_col_name", "id"}


def h_effect(name):
    def h(eng, p, args, kw, node):
        trace(p, "effect", name, node)
        return [(p, Opaque(("effect", name, next(eng.counter))))]
    return h


class TraceEngine(Engine):
    """every call that ends as an opaque value is recorded on the path's trace (so that an unmodelled call is seen)"""

    def e_Call(self, e, p):
        out = super().e_Call(e, p)
        for q, v in out:
            if isinstance(v, Opaque) and isinstance(v.tag, tuple) and len(v.tag) == 3 and v.tag[0] == "call" and isinstance(v.tag[1], str) \
                    and v.tag[1] == ast.unparse(e.func):
                trace(q, "call", v.tag[1], e)
        return out


_VARS, _TXT, _CACHE = {}, {}, {}


def _vars(e):
    """names of the uninterpreted constants of e (memoised by AST id)"""
    k = e.get_id()
    if k not in _VARS:
        acc, todo, seen = set(), [e], set()
        while todo:
            x = todo.pop()
            if x.get_id() in seen:
                continue
            seen.add(x.get_id())
            if z3.is_const(x) and x.decl().kind() == z3.Z3_OP_UNINTERPRETED:
                acc.add(x.decl().name())
            todo.extend(x.children())
        _VARS[k] = (frozenset(acc), e)          # keep e alive: ids are reused after garbage collection
        _TXT[k] = e.sexpr()
    return _VARS[k][0]


def solve_on(q, extra, timeout):
    """solve(q.pc + extra) restricted to the part of the path condition that shares variables (transitively) with `extra`; the rest
    is over disjoint variables and satisfiable on its own (the path is feasible), so the answer is the same; answers are cached by the
    text of the restricted query (hundreds of paths differ only in forks that have nothing to do with the rejection)"""
    need = set()
    for e in extra:
        need |= _vars(e)
    rest = [(c, _vars(c)) for c in q.pc]
    keep, changed = [], True
    while changed:
        changed, nxt = False, []
        for c, vs in rest:
            if vs & need:
                keep.append(c)
                need |= vs
                changed = True
            else:
                nxt.append((c, vs))
        rest = nxt
    key = (tuple(sorted(_TXT[c.get_id()] for c in keep)), tuple(_TXT[e.get_id()] for e in extra))
    if key not in _CACHE:
        _CACHE[key] = solve(keep + list(extra), timeout)
    return _CACHE[key]


def effects_of(q):
    return [t for t in q.ghost.get("trace", []) if t[0] == "effect"]


def unmodelled_of(q):
    return [t for t in q.ghost.get("trace", []) if t[0] == "call" and t[1] not in PURE]


def verdict(q, upto=None):
    """(status, model) of 'no effect on this path' (trace optionally cut at index upto)"""
    tr = q.ghost.get("trace", [])
    tr = tr if upto is None else tr[:upto]
    eff = [t for t in tr if t[0] == "effect"]
    if eff:
        return REFUTED, {"effects_before_the_raise": [f"{t[1]}@L{t[2]}" for t in eff], "raise_line": _raise_line(q)}
    unk = [t for t in tr if t[0] == "call" and t[1] not in PURE]
    if unk:
        return UNKNOWN, {"unmodelled_calls_before_the_raise": [f"{t[1]}@L{t[2]}" for t in unk]}
    return PROVED, None


def _raise_line(q):
    for kind, ln in reversed(q.trace):
        if kind == "raise":
            return ln
    return 0


def _raising_handler(name, kinds):
    """check_column_names / make_metadata: returns normally (trace: validated) or raises ValueError/TypeError (one path per kind)"""
    def h(eng, p, args, kw, node):
        outs = []
        for k in kinds:
            r = p.fork()
            r.ctl = ("raise", "ValueError")
            r.trace.append(("raise", node.lineno))
            r.ghost["rejection"] = name + (":" + k if k else "")
            outs.append((r, Opaque("raised")))
        trace(p, "validated", name, node)
        outs.append((p, Opaque((name, "result", next(eng.counter))) if name == "make_metadata" else NONE))
        return outs
    return h


def run_write(ctx, funcs, timeout):
    res = Results()
    scheme, pfs, app = z3.Int("file_scheme"), z3.Int("pf_file_scheme"), z3.Int("append_code")
    po_is_str = z3.Bool("partition_on_is_a_str")
    S = strid

    class PF(Named):
        def __init__(self):
            Named.__init__(self, "pf")

        def attr(self, eng, p, name):
            if name == "file_scheme":
                return Custom(SymStr(pfs))
            return Custom(Named("pf." + name))

        def call_method(self, eng, p, name, args, kw, node):
            if name == "write_row_groups":
                trace(p, "effect", "pf.write_row_groups", node)
                return [(p, NONE)]
            return Named.call_method(self, eng, p, name, args, kw, node)

    def h_get_fs(eng, p, args, kw, node):
        trace(p, "call", "get_fs", node)
        return [(p, Tup([Opaque("fs"), args[0], args[1], args[2]]))]

    def h_parquet_file(eng, p, args, kw, node):
        trace(p, "call", "ParquetFile", node)
        return [(p, Custom(PF()))]

    def h_tuple(eng, p, args, kw, node):
        a = args[0]
        if isinstance(a, Tup) and len(a.items) == 1:
            a = a.items[0]            # [partition_on] built from a str partition_on
        nm = getattr(getattr(a, "h", None), "name", None)
        if nm is None:
            return [(p, Opaque(("tuple", next(eng.counter))))]
        return [(p, Custom(Named(nm)))]
    handlers = {n: h_effect(n) for n in EFFECT_NAMES + EFFECT_METHODS}
    handlers.update({"get_fs": h_get_fs, "ParquetFile": h_parquet_file, "tuple": h_tuple,
                     "check_column_names": _raising_handler("check_column_names", [""]),
                     "make_metadata": _raising_handler("make_metadata", ["duplicate_column_names", "non_text_column_names", "unsupported_dtype"])})
    eng = TraceEngine(funcs=funcs, handlers=handlers, opaque_calls=True)
    p = Path()
    p.pc += [0 <= app, app <= 2]
    kw = {"file_scheme": Custom(SymStr(scheme)), "append": Custom(AppendV(app)),
          "partition_on": Custom(Named("partition_on", is_str=po_is_str)),
          "open_with": Custom(Named("open_with")), "mkdirs": Custom(Named("mkdirs")),
          "custom_metadata": Opaque("custom_metadata"), "row_group_offsets": Opaque("row_group_offsets"),
          "compression": Opaque("compression"), "has_nulls": Opaque("has_nulls"), "write_index": Opaque("write_index"),
          "fixed_text": Opaque("fixed_text"), "object_encoding": Opaque("object_encoding"), "times": Opaque("times"),
          "stats": Opaque("stats")}
    outs = eng.run("write", p, [Opaque("filename"), Opaque("data")], kw)
    res.add_engine_obligations(eng, "write.", timeout)

    # the rejections of the statement as conditions on the INPUTS
    good = z3.Or(scheme == S("simple"), scheme == S("hive"), scheme == S("drill"))
    appending = z3.And(app != 0, app != 2)
    parts_eq_key = ("named_eq",) + tuple(sorted(("partition_on", "pf.cats")))
    parts_eq = z3.Bool("[" + parts_eq_key[1] + " == " + parts_eq_key[2] + "]")
    COND = {
        "bad_file_scheme": z3.Not(good),
        "append_scheme_mismatch": z3.And(good, appending, z3.Or(
            z3.And(scheme == S("simple"), pfs != S("simple"), pfs != S("empty")),
            z3.And(scheme != S("simple"), pfs != S("hive"), pfs != S("empty"), pfs != S("flat")))),
        "append_partitioning_mismatch": z3.And(good, appending, scheme != S("simple"),
                                               z3.Or(pfs == S("hive"), pfs == S("empty"), pfs == S("flat")), z3.Not(parts_eq)),
    }
    raising = [q for q in outs if q.ctl[0] == "raise"]
    returning = [q for q in outs if q.ctl[0] == "ret"]
    # A. validate before effect, per raising path
    for q in raising:
        rej = q.ghost.get("rejection")
        if rej is None:
            for name, c in COND.items():
                if solve_on(q, [z3.Not(c)], timeout)[0] == PROVED:
                    rej = name
                    break
        if rej is None:
            rej = f"raise@L{_raise_line(q)}"
        st, mdl = verdict(q)
        res.add(f"write.validate_before_effect[{rej}]", st, mdl, 0.0, "trace",
                "on every path that raises for this rejection the effect trace is empty (nothing created, opened for writing, written)")
    # B. the refusals exist and are complete
    for name, c in COND.items():
        n_raise = 0
        for q in outs:
            st0, m, secs = solve_on(q, [c], timeout)
            if st0 == PROVED:
                continue                    # this path is not about the rejection
            if q.ctl[0] == "raise":
                n_raise += 1
                res.add(f"write.rejects[{name}]", PROVED if st0 == REFUTED else UNKNOWN, None, secs, "z3",
                        "every path compatible with the rejection's input condition raises")
            else:
                res.add(f"write.rejects[{name}]", REFUTED if st0 == REFUTED else UNKNOWN,
                        _inputs(m, scheme, pfs, app, parts_eq) | {"path_ends": "returns", "trace": [t[1] for t in q.ghost.get("trace", []) if t[0] != "call"]},
                        secs, "z3", "a path compatible with the rejection's input condition returns normally: the refusal is missing")
        if n_raise == 0:
            res.add(f"write.rejects[{name}]", REFUTED, {"raising_paths": 0}, 0.0, "trace", "no path raises for this rejection")
    for rej in ("check_column_names", "make_metadata:duplicate_column_names", "make_metadata:non_text_column_names", "make_metadata:unsupported_dtype"):
        n = sum(1 for q in raising if q.ghost.get("rejection") == rej)
        res.add(f"write.rejects[{rej}]", PROVED if n else REFUTED, None if n else {"raising_paths": 0}, 0.0, "trace",
                "the validating call is made on some path (its raising outcome is reachable)")
    # C. a fresh write reaches its writer only after both validations
    n_fresh = 0
    for q in returning:
        tr = q.ghost.get("trace", [])
        for k, t in enumerate(tr):
            if t[0] == "effect" and t[1] in ("write_simple", "write_multi"):
                n_fresh += 1
                before = {x[1] for x in tr[:k] if x[0] == "validated"}
                ok = {"check_column_names", "make_metadata"} <= before
                res.add(f"write.effect_only_after_validation[{t[1]}]", PROVED if ok else REFUTED,
                        None if ok else {"validated_before": sorted(before), "effect_line": t[2]}, 0.0, "trace",
                        "check_column_names and make_metadata have returned before the writer is called")
                break
    if not returning or n_fresh == 0:
        ctx.engine_error("C18 write: no returning path reaches write_simple / write_multi")
    ctx.vacuity["covers"] += len(returning)
    # vacuity guards: inputs of each rejection exist; must-fail: 'a returning path has no effect' is refuted
    if all(solve([*p.pc[:2], c], 2000)[0] == REFUTED for c in COND.values()):
        ctx.vacuity["requires_sat"] += 1
    else:
        ctx.engine_error("C18 write: a rejection's input condition is unsatisfiable")
    if any(effects_of(q) for q in returning):
        ctx.vacuity["must_fail_sat"] += 1
    else:
        ctx.engine_error("C18 write: must-fail (a successful write has an empty effect trace) was not refuted")
    return res


def _inputs(m, scheme, pfs, app, parts_eq):
    if m is None:
        return {}
    inv = {v: k for k, v in _STR.items()}
    ev = lambda t: m.eval(t, model_completion=True)
    return {"file_scheme": inv.get(ev(scheme).as_long(), "<other string>"), "pf.file_scheme": inv.get(ev(pfs).as_long(), "<other string>"),
            "append": {0: False, 1: True, 2: "overwrite"}.get(ev(app).as_long()),
            "tuple(partition_on) == tuple(pf.cats)": z3.is_true(ev(parts_eq))}


def run_write_row_groups(ctx, funcs, timeout):
    res = Results()
    is_df = z3.Bool("data_is_a_DataFrame")
    selfs = z3.Int("self_file_scheme")
    WANT = ("self.cats", "self.columns")            # the existing column set = self.columns + partition columns
    cols_eq = z3.Bool("[sorted(self.columns + list(self.cats)) == sorted(data.columns)]")
    missing, extra = z3.Bool("some_existing_column_not_in_data"), z3.Bool("some_data_column_not_existing")

    class Sorted(Named):
        def __init__(self, parts):
            self.parts = tuple(sorted(parts))
            Named.__init__(self, "sorted(" + "+".join(parts) + ")")

        def eq(self, eng, p, other):
            o = getattr(other, "h", None)
            if isinstance(o, Sorted):
                pair = {self.parts, o.parts}
                if pair == {WANT, ("data.columns",)}:
                    return cols_eq
                return named_eq(p, self.name, o.name)
            return eng.fresh("eq_sorted", z3.BoolSort())

    class SetOf(Named):
        def __init__(self, parts):
            self.parts = tuple(sorted(parts))
            Named.__init__(self, "set(" + "+".join(parts) + ")")

        def binop(self, eng, p, op, other, node):
            o = getattr(other, "h", None)
            if isinstance(o, SetOf) and isinstance(op, (ast.Sub, ast.BitXor)):
                return Custom(SetExpr(type(op).__name__, self.parts, o.parts))
            return Custom(Named("setop%d" % next(_c)))

        def eq(self, eng, p, other):
            o = getattr(other, "h", None)
            if isinstance(o, SetOf) and {self.parts, o.parts} == {WANT, ("data.columns",)}:
                return z3.And(z3.Not(missing), z3.Not(extra))
            return Named.eq(self, eng, p, other)

    class SetExpr(Named):
        def __init__(self, op, a, b):
            self.op, self.a, self.b = op, a, b
            Named.__init__(self, f"{op}({a},{b})")

        def truth(self, eng, p):
            if {self.a, self.b} == {WANT, ("data.columns",)}:
                if self.op == "BitXor":
                    return z3.Or(missing, extra)
                return missing if self.a == WANT else extra
            return Named.truth(self, eng, p)

    def h_sorted(eng, p, args, kw, node):
        return [(p, Custom(Sorted(_parts(args[0]))) if not kw else Opaque(("sorted", next(eng.counter))))]

    def h_set(eng, p, args, kw, node):
        a = args[0]
        h = getattr(a, "h", None)
        return [(p, Custom(SetOf(h.parts if isinstance(h, (Sorted, SetOf)) else _parts(a))))]

    def h_list(eng, p, args, kw, node):
        return [(p, args[0])] if args else [(p, Tup([], True))]

    class Data(Named):
        def __init__(self):
            Named.__init__(self, "data")

        def isinstance(self, eng, p, tn):
            return is_df if "DataFrame" in tn else Named.isinstance(self, eng, p, tn)

    class SelfPF(Named):
        def __init__(self):
            Named.__init__(self, "self")

        def attr(self, eng, p, name):
            if name == "file_scheme":
                return Custom(SymStr(selfs))
            return Custom(Named("self." + name))

        def call_method(self, eng, p, name, args, kw, node):
            trace(p, "effect" if name in ("_sort_part_names", "_write_common_metadata") else "call", "self." + name, node)
            return [(p, NONE)]
    handlers = {n: h_effect(n) for n in EFFECT_NAMES + EFFECT_METHODS}
    handlers.update({"sorted": h_sorted, "set": h_set, "list": h_list})
    eng = TraceEngine(funcs=funcs, handlers=handlers, opaque_calls=True)
    p = Path()
    # facts about the two column collections (ASSUMED): equal sorted lists have equal sets
    p.pc += [z3.Implies(cols_eq, z3.And(z3.Not(missing), z3.Not(extra)))]
    kw = {"row_group_offsets": Opaque("row_group_offsets"), "sort_key": Opaque("sort_key"), "sort_pnames": Opaque("sort_pnames"),
          "compression": Opaque("compression"), "write_fmd": Opaque("write_fmd"), "open_with": Custom(Named("open_with")),
          "mkdirs": Custom(Named("mkdirs")), "stats": Opaque("stats")}
    outs = eng.run("ParquetFile.write_row_groups", p, [Custom(SelfPF()), Custom(Data())], kw)
    res.add_engine_obligations(eng, "write_row_groups.", timeout)
    unequal = z3.And(is_df, z3.Not(cols_eq))
    n_raise = 0
    for q in outs:
        st0, m, secs = solve_on(q, [unequal], timeout)
        ev = (lambda t: z3.is_true(m.eval(t, model_completion=True))) if m is not None else None
        mdl = {"existing_column_missing_in_data": ev(missing), "data_has_extra_column": ev(extra)} if ev else None
        if q.ctl[0] == "raise":
            n_raise += 1
            st, why = verdict(q)
            res.add("write_row_groups.validate_before_effect[different_columns]", st, why, 0.0, "trace",
                    "the ValueError for a frame with different columns is raised before write_simple / write_multi / any metadata write")
            st1, m1, secs1 = solve_on(q, [z3.Not(unequal)], timeout)
            res.add("write_row_groups.accepts_equal_column_sets", st1, {"raises_although": "the two sorted column lists are equal (or data is not a DataFrame)"}
                    if st1 == REFUTED else None, secs1, "z3", "a path that raises has a condition implying: DataFrame and sorted lists differ")
            if st0 != PROVED:
                res.add("write_row_groups.refuses_unequal_column_sets", PROVED if st0 == REFUTED else UNKNOWN, None, secs, "z3",
                        "every path compatible with `DataFrame whose sorted column list differs` raises")
        else:
            if st0 == REFUTED:
                # prefer a counter-model that says WHICH way the sets differ
                st2, m2, _ = solve_on(q, [unequal, z3.Or(missing, extra)], timeout)
                if st2 == REFUTED:
                    mdl = {"existing_column_missing_in_data": z3.is_true(m2.eval(missing, model_completion=True)),
                           "data_has_extra_column": z3.is_true(m2.eval(extra, model_completion=True))}
            if st0 != PROVED:
                res.add("write_row_groups.refuses_unequal_column_sets", REFUTED if st0 == REFUTED else UNKNOWN,
                        (mdl or {}) | {"path_ends": "returns", "effects": [t[1] for t in effects_of(q)]}, secs, "z3",
                        "a frame whose column set differs (extra OR missing columns) is appended: the test is not the equality of the two sets")
            wrote = [t for t in effects_of(q) if t[1] in ("write_simple", "write_multi")]
            res.add("write_row_groups.writes_after_check", PROVED if len(wrote) == 1 else REFUTED, None if len(wrote) == 1 else
                    {"effects": [t[1] for t in effects_of(q)]}, 0.0, "trace", "a returning path wrote through exactly one of write_simple / write_multi")
    if n_raise == 0:
        res.add("write_row_groups.refuses_unequal_column_sets", REFUTED, {"raising_paths": 0}, 0.0, "trace", "no path raises")
    ctx.vacuity["covers"] += sum(1 for q in outs if q.ctl[0] == "ret")
    if solve([*p.pc, unequal, extra, z3.Not(missing)], 2000)[0] == REFUTED and solve([*p.pc, is_df, cols_eq], 2000)[0] == REFUTED:
        ctx.vacuity["requires_sat"] += 1
    else:
        ctx.engine_error("C18 write_row_groups: the model of the column sets is contradictory")
    return res


def check(ctx, timeout):
    w, _, _ = parse_module("fastparquet/writer.py")
    a, _, _ = parse_module("fastparquet/api.py")
    ctx.function("writer.write", w["write"].sha, w["write"].report)
    ctx.function("api.ParquetFile.write_row_groups", a["ParquetFile.write_row_groups"].sha, a["ParquetFile.write_row_groups"].report)
    out = []
    for name, fn, funcs in (("write", run_write, w), ("write_row_groups", run_write_row_groups, a)):
        try:
            out.append(fn(ctx, funcs, timeout))
        except Unsupported as ex:
            r = Results()
            r.add(f"{name}.out_of_reach", UNKNOWN, None, 0.0, "engine", str(ex))
            out.append(r)
    return out


ASSUMED = [
    "effects of write(): only calls named " + ", ".join(EFFECT_NAMES) + " and methods " + " ".join(EFFECT_METHODS) +
    " (and pf.write_row_groups) create, open for writing, write, rename or remove anything",
    "pure calls (no effect on the file system): " + ", ".join(sorted(PURE)) + "; get_fs returns the open_with / mkdirs it is given; "
    "ParquetFile(...) only reads; any OTHER call before a rejection leaves the obligation undecided",
    "check_column_names and make_metadata either return or raise (duplicate / non-text column names, unsupported dtype) and have no effect",
    "string literals are pairwise distinct; `append` is False, True or 'overwrite'; tuple(partition_on) == tuple(pf.cats) is one uninterpreted "
    "equality between the requested partitioning columns and pf.cats",
    "sorted(a) == sorted(b) is one uninterpreted equality of the two column collections; it implies that neither set difference is non-empty "
    "(nothing else relates it to set(a) - set(b), set(b) - set(a), set(a) ^ set(b))",
]
