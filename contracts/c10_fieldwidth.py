"""C10 - every thrift field the library's OWN Python code sets is one the serialiser can emit with the wire type the IDL declares.

cencoding.write_thrift knows two integer wire types only: 5 (i32) for a field the struct's marker declares ('i32' key = every integer, or the
field id listed under 'i32list'), 6 (i64) otherwise (write_thrift.header[int]).  So, with the field types read from parquet.thrift on every run:

   thrift_field.width_is_serialisable[file:line:func:Struct.field]      per keyword argument of parquet_thrift.X(...) / ThriftObject.from_fields(...)
   thrift_field.width_is_serialisable[file:line:func:.field]            per `obj.<field> = expr`
   thrift_field.width_is_serialisable[file:line:func:[id]]              per `obj[<int literal>] = expr` / `op=`
      i8 / i16 field set to a non-None value          -> REFUTED (no marker can express it: it is written as i64 - or i32)
      i32 / enum field                                -> the struct the object was built with carries i32=<truthy> or lists the field id in i32list
                                                         (the constructor is resolved inside the function, through copy(), and through the return
                                                         value / tuple of a function of the scanned files: `se, type = find_type(...)`); not declared
                                                         -> REFUTED (written as i64); constructor not resolvable -> unknown
      i64 field                                       -> fine unless the resolved constructor says i32=<truthy> (everything 32-bit) -> REFUTED
      bool / double / binary / string / list / struct -> fine (their wire type does not depend on the marker)
      a value that is evidently not an integer (bytes / str producing call, string literal, list, thrift constructor) on an id / name whose struct
      is not resolvable -> fine
      a field name / id the spec tables do not know (but the IDL does), or an unresolvable struct with candidates of different classes -> unknown
Unknown is undecided, never a violation.  (For metadata parsed from another writer and edited through the API the same rule is the known finding
C10-P-setattr-ignores-width-marker / C10-narrow-int-written-as-i64; this obligation is about what fastparquet's own writer code does.)
"""
import ast
import os

from spec import thrift_idl
from vlib.common import REPO, PROVED, REFUTED, UNKNOWN
from .c10_tables import parse_tables, EXEMPT
from .kernels import KResults

ASSUMED = [
    "thrift_field.width_is_serialisable: an object whose constructor is not visible at an i64-field assignment (fmd.num_rows = ...) does not carry "
    "the all-32-bit marker 'i32': read_thrift sets it only when every integer it read was 32-bit (read_thrift.width_marker_roundtrip) and the "
    "construction sites are checked by ctor.marker_matches_idl",
]

FILES = ["fastparquet/writer.py", "fastparquet/api.py", "fastparquet/util.py", "fastparquet/schema.py", "fastparquet/core.py", "fastparquet/dataframe.py",
         "fastparquet/converted_types.py", "fastparquet/evolve.py"]
NARROW = ("i8", "byte", "i16")


def fclass(idl, struct, fname=None, fid=None):
    """-> 'narrow' | 'i32' | 'i64' | 'other' | None"""
    if struct not in idl.structs:
        return None
    f = idl.fields_by_name(struct).get(fname) if fname is not None else idl.fields_by_id(struct).get(fid)
    if f is None:
        return None
    k, x = idl.kind(f.type)
    if k == "enum":
        return "i32"
    if k == "prim" and x in NARROW:
        return "narrow"
    if k == "prim" and x in ("i32", "i64"):
        return x
    return "other"


def ctor_of(call):
    """a thrift constructor call -> (struct, marker) with marker = ('all',) | ('list', [ids]) | ('none',) | ('dynamic',); else None"""
    if not isinstance(call, ast.Call):
        return None
    f = call.func
    struct = None
    if isinstance(f, ast.Attribute) and isinstance(f.value, ast.Name) and f.value.id == "parquet_thrift" and f.attr[:1].isupper():
        struct = f.attr
    elif isinstance(f, ast.Attribute) and f.attr == "from_fields":
        struct = call.args[0].value if call.args and isinstance(call.args[0], ast.Constant) else next(
            (k.value.value for k in call.keywords if k.arg == "thrift_name" and isinstance(k.value, ast.Constant)), None)
    if struct is None:
        return None
    kws = {k.arg: k.value for k in call.keywords if k.arg}
    marker = ("none",)
    if "i32list" in kws:
        try:
            marker = ("list", [int(x) for x in ast.literal_eval(kws["i32list"])])
        except Exception:
            marker = ("dynamic",)
    elif "i32" in kws:
        v = kws["i32"]
        if isinstance(v, ast.Constant):
            marker = ("all",) if v.value else ("none",)
        else:
            marker = ("dynamic",)
    return struct, marker


def non_integer_value(v):
    """the expression evidently yields something that is not an int (so no integer wire type is involved)"""
    if isinstance(v, ast.Constant):
        return not isinstance(v.value, int) or isinstance(v.value, bool)
    if isinstance(v, (ast.List, ast.ListComp, ast.Dict, ast.JoinedStr, ast.Tuple, ast.Compare, ast.DictComp)):
        return True
    if isinstance(v, ast.Call):
        f = v.func
        if ctor_of(v) is not None:
            return True
        if isinstance(f, ast.Attribute) and f.attr in ("decode", "encode", "join", "format", "lstrip", "rstrip", "strip", "replace", "tobytes", "dumps", "lower", "upper"):
            return True
        if isinstance(f, ast.Name) and f.id in ("str", "bytes", "repr", "list", "sorted", "ensure_bytes", "ensure_str", "join_path", "bool", "float"):
            return True
    if isinstance(v, ast.BinOp) and isinstance(v.op, ast.Mod) and isinstance(v.left, ast.Constant) and isinstance(v.left.value, str):
        return True
    if isinstance(v, ast.IfExp):
        return non_integer_value(v.body) and non_integer_value(v.orelse)
    return False


class Resolver:
    def __init__(self, trees):
        self.funcs = {}
        for rel, tree in trees.items():
            for n in ast.walk(tree):
                if isinstance(n, (ast.FunctionDef, ast.AsyncFunctionDef)):
                    self.funcs.setdefault(n.name, []).append(n)

    @staticmethod
    def bindings(fn, name):
        out = []
        for n in ast.walk(fn):
            if isinstance(n, ast.Assign):
                for t in n.targets:
                    if isinstance(t, ast.Name) and t.id == name:
                        out.append(("value", n.value))
                    elif isinstance(t, (ast.Tuple, ast.List)):
                        for i, tt in enumerate(t.elts):
                            if isinstance(tt, ast.Name) and tt.id == name:
                                if isinstance(n.value, (ast.Tuple, ast.List)) and len(n.value.elts) == len(t.elts):
                                    out.append(("value", n.value.elts[i]))
                                else:
                                    out.append(("part", n.value, i))
            elif isinstance(n, (ast.For, ast.AsyncFor, ast.comprehension)):
                if any(isinstance(x, ast.Name) and x.id == name for x in ast.walk(n.target)):
                    out.append(("iter", n.iter))
            elif isinstance(n, (ast.AugAssign, ast.AnnAssign)) and isinstance(n.target, ast.Name) and n.target.id == name:
                out.append(("value", n.value) if isinstance(n, ast.AnnAssign) and n.value is not None else ("other",))
            elif isinstance(n, ast.withitem) and n.optional_vars is not None and any(isinstance(x, ast.Name) and x.id == name for x in ast.walk(n.optional_vars)):
                out.append(("other",))
        if isinstance(fn, (ast.FunctionDef, ast.AsyncFunctionDef)):
            a = fn.args
            if name in [x.arg for x in list(a.posonlyargs) + list(a.args) + list(a.kwonlyargs)]:
                out.append(("param",))
        return out

    def resolve(self, e, fn, depth=0, part=None):
        """expression -> (struct, marker) of the thrift constructor that built the object, or None"""
        if depth > 5 or e is None:
            return None
        c = ctor_of(e)
        if c is not None and part is None:
            return c
        if isinstance(e, ast.Call):
            f = e.func
            # copy(x) / copy.copy(x) / x.copy()
            if (isinstance(f, ast.Name) and f.id in ("copy", "deepcopy") or isinstance(f, ast.Attribute) and f.attr in ("copy", "deepcopy") and
                    isinstance(f.value, ast.Name) and f.value.id == "copy") and e.args and part is None:
                return self.resolve(e.args[0], fn, depth + 1)
            if isinstance(f, ast.Attribute) and f.attr == "copy" and not e.args and part is None:
                return self.resolve(f.value, fn, depth + 1)
            cal = f.id if isinstance(f, ast.Name) else f.attr if isinstance(f, ast.Attribute) else None
            defs = self.funcs.get(cal, [])
            if len(defs) == 1:
                g = defs[0]
                rets = [r.value for r in ast.walk(g) if isinstance(r, ast.Return) and r.value is not None]
                got = []
                for r in rets:
                    if part is not None:
                        if isinstance(r, ast.Tuple) and part < len(r.elts):
                            got.append(self.resolve(r.elts[part], g, depth + 1))
                        else:
                            got.append(None)
                    else:
                        got.append(self.resolve(r, g, depth + 1))
                return self.same(got)
            return None
        if isinstance(e, ast.Name):
            bs = self.bindings(fn, e.id)
            got = []
            for b in bs:
                if b[0] == "value":
                    got.append(self.resolve(b[1], fn, depth + 1))
                elif b[0] == "part":
                    got.append(self.resolve(b[1], fn, depth + 1, part=b[2]))
                else:
                    got.append(None)
            return self.same(got)
        return None

    @staticmethod
    def same(got):
        if not got or any(g is None for g in got):
            return None
        s = {g[0] for g in got}
        if len(s) != 1:
            return None
        ms = [g[1] for g in got]
        return (got[0][0], ms[0]) if all(m == ms[0] for m in ms) else (got[0][0], ("dynamic",))


def judge(cls, marker, fid):
    """-> (status, why)"""
    if cls == "narrow":
        return REFUTED, "an i8 / i16 field is set: the serialiser has no marker for it and writes wire type 6 (i64) - or 5 - instead of 3 / 4"
    if cls == "other" or cls is None:
        return PROVED, "wire type does not depend on the integer-width marker"
    if marker is None:
        if cls == "i64":
            return PROVED, "i64 field on an object whose constructor is not visible here (assumption: it does not carry the all-32-bit marker)"
        return UNKNOWN, "i32 field on an object whose constructor (and marker) is not resolvable here: undecided"
    if marker == ("dynamic",):
        return UNKNOWN, "the marker of the constructor is not a literal: undecided"
    declared32 = marker == ("all",) or (marker[0] == "list" and fid in marker[1])
    if cls == "i32":
        return (PROVED, "declared 32-bit by the constructor's marker") if declared32 else \
               (REFUTED, f"i32 / enum field (id {fid}) not declared by the marker {marker}: written with wire type 6 (i64)")
    return (REFUTED, f"i64 field (id {fid}) on a struct whose marker declares it 32-bit {marker}: written with wire type 5 (i32)") if declared32 else \
           (PROVED, "i64 field, not declared 32-bit")


def check(ctx=None, timeout=None):
    res = KResults()
    idl = thrift_idl.load()
    text = open(os.path.join(REPO, "fastparquet", "cencoding.pyx")).read()
    specs, children = parse_tables(text)
    trees = {}
    for rel in FILES:
        p = os.path.join(REPO, rel)
        if os.path.exists(p):
            trees[rel] = ast.parse(open(p).read())
    rs = Resolver(trees)
    idl_names = {f.name for s in idl.structs.values() for f in s}
    spec_names = {f for s in specs.values() for f in s}
    n = 0

    def add(name, st, why, model=None):
        nonlocal n
        n += 1
        res.addk(name, "functional", st, model if st == REFUTED else None, 0.0, "idl+ast", why)

    for rel, tree in trees.items():
        owner = {}
        for fn in ast.walk(tree):
            if isinstance(fn, (ast.FunctionDef, ast.AsyncFunctionDef)):
                for sub in ast.walk(fn):
                    owner[id(sub)] = fn            # innermost wins (walk order: outer first, inner overwrites)
        qual = lambda node: owner[id(node)].name if id(node) in owner else "<module>"
        for node in ast.walk(tree):
            fnode = owner.get(id(node), tree)
            # 1. constructor sites
            c = ctor_of(node)
            if c is not None:
                struct, marker = c
                if struct not in idl.structs or (rel, qual(node), struct) in EXEMPT:
                    continue          # (exemptions of c10_tables: a throw-away object that is never serialised)
                for k in node.keywords:
                    if not k.arg or k.arg in ("i32", "i32list", "thrift_name") or (isinstance(k.value, ast.Constant) and k.value.value is None):
                        continue
                    cls = fclass(idl, struct, k.arg)
                    name = f"thrift_field.width_is_serialisable[{rel}:{node.lineno}:{qual(node)}:{struct}.{k.arg}]"
                    if cls is None or k.arg not in specs.get(struct, {}):
                        add(name, UNKNOWN, f"{struct}.{k.arg} is not a field of the spec tables / the IDL: undecided")
                        continue
                    if cls in ("i32", "i64", "narrow") and non_integer_value(k.value) and not (isinstance(k.value, ast.Constant)):
                        add(name, PROVED, "the value given is evidently not an integer")
                        continue
                    fid = specs[struct][k.arg]
                    st, why = judge(cls, marker, fid)
                    add(name, st, why, {"site": f"{rel}:{node.lineno}", "struct": struct, "field": k.arg, "idl_class": cls, "marker": str(marker),
                                        "value": ast.unparse(k.value)[:80]})
                continue
            # 2. / 3. attribute and raw-id assignment
            if not isinstance(node, (ast.Assign, ast.AugAssign, ast.AnnAssign)):
                continue
            value = node.value
            tgts = node.targets if isinstance(node, ast.Assign) else [node.target]
            for t in tgts:
                if isinstance(t, ast.Attribute) and not (isinstance(t.value, ast.Name) and t.value.id == "self"):
                    f = t.attr
                    if f not in spec_names:
                        if f in idl_names and f not in ("name", "columns", "type", "schema", "value", "key", "index"):
                            add(f"thrift_field.width_is_serialisable[{rel}:{node.lineno}:{qual(node)}:.{f}]", UNKNOWN,
                                f"`.{f}` is a field of the IDL that the spec tables do not know: undecided")
                        continue
                    if isinstance(value, ast.Constant) and value.value is None:
                        continue
                    r = rs.resolve(t.value, fnode) if isinstance(fnode, (ast.FunctionDef, ast.AsyncFunctionDef)) else None
                    cands = [r[0]] if r is not None and f in specs.get(r[0], {}) else [s for s in specs if f in specs[s] and s in idl.structs]
                    if len(cands) > 1:
                        # the struct of the receiver from the OTHER thrift attributes the function uses on the very same receiver expression
                        base = ast.unparse(t.value)
                        used = {a.attr for a in ast.walk(fnode) if isinstance(a, ast.Attribute) and a.attr in spec_names and ast.unparse(a.value) == base}
                        narrowed = [s for s in cands if used <= set(specs[s])]
                        if narrowed:
                            cands = narrowed
                    classes = {fclass(idl, s, f) for s in cands}
                    name = f"thrift_field.width_is_serialisable[{rel}:{node.lineno}:{qual(node)}:.{f}]"
                    if classes <= {"other", None}:
                        continue                      # not an integer field anywhere: nothing to decide (not listed)
                    model = {"site": f"{rel}:{node.lineno}", "field": f, "structs": cands, "idl_classes": sorted(str(c_) for c_ in classes),
                             "value": ast.unparse(value)[:80] if value is not None else None}
                    if classes == {"narrow"}:
                        add(name, *judge("narrow", None, None), model)
                    elif non_integer_value(value) and not isinstance(node, ast.AugAssign):
                        add(name, PROVED, "the value assigned is evidently not an integer")
                    elif len(classes) == 1:
                        cls = classes.pop()
                        fid = specs[cands[0]][f] if len({specs[s][f] for s in cands}) == 1 else None
                        st, why = judge(cls, r[1] if r is not None else None, fid)
                        add(name, st, why, dict(model, marker=str(r[1]) if r else None))
                    else:
                        add(name, UNKNOWN, f"`.{f}` is declared with different integer classes in {cands} and the receiver's struct is not resolvable: undecided")
                elif isinstance(t, ast.Subscript) and isinstance(t.slice, ast.Constant) and isinstance(t.slice.value, int) and not isinstance(t.slice.value, bool) \
                        and rel.endswith(("writer.py", "api.py", "util.py", "schema.py")):
                    fid = t.slice.value
                    if isinstance(value, ast.Constant) and value.value is None:
                        continue
                    r = rs.resolve(t.value, fnode) if isinstance(fnode, (ast.FunctionDef, ast.AsyncFunctionDef)) else None
                    name = f"thrift_field.width_is_serialisable[{rel}:{node.lineno}:{qual(node)}:{ast.unparse(t)[:30]}]"
                    if r is None:
                        if non_integer_value(value) and not isinstance(node, ast.AugAssign):
                            add(name, PROVED, "the value stored under the raw id is evidently not an integer")
                        else:
                            add(name, UNKNOWN, "raw id on an object whose struct is not resolvable here: undecided")
                        continue
                    struct, marker = r
                    if fid not in specs.get(struct, {}).values():
                        add(name, UNKNOWN, f"id {fid} is not a field of {struct} in the spec tables: undecided")
                        continue
                    cls = fclass(idl, struct, fid=fid)
                    st, why = judge(cls, marker, fid)
                    add(name, st, why, {"site": f"{rel}:{node.lineno}", "struct": struct, "id": fid, "idl_class": cls, "marker": str(marker)})
    if n < 40:
        res.addk("thrift_field.sites_found", "functional", UNKNOWN, None, 0.0, "ast", f"only {n} field sites found (expected >= 100)")
    return res
