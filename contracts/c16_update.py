"""C16 - in-place key-value metadata update touches nothing else and leaves a valid file.
Contract for writer.update_file_custom_metadata on the byte-file model, discharged on the real source.

requires  data file:      content == body ++ F ++ le32(|F|) ++ "PAR1"
          metadata file:  content == "PAR1" ++ F ++ le32(|F|) ++ "PAR1"          (0 <= |F| < 2**32)
ensures   with loc = |body| (resp. 4) and F' = the bytes the updated metadata serialises to:
   update.prefix_preserved     content'[:loc] == content[:loc]                       (all data bytes)
   update.file_is_exactly_new  content' == content[:loc] ++ F' ++ le32(|F'|) ++ "PAR1"   (whole view: no trailing bytes)
   update.footer_len_field     the four bytes before the final magic encode |F'|
   update.parses_old_footer    the bytes handed to from_buffer start with F (the old footer)
quantified over ALL |F|, |F'| >= 0: the footer may grow, stay equal, or shrink by any amount.
"""
import z3

from vc.symexec import Engine, Path, Custom, Opaque, Str, PyB, PyI, BytesV, NONE, Unsupported, Tup
from vlib.common import PROVED, REFUTED, UNKNOWN
from .filemodel import (FileH, Bts, concat, le32, le_value, eq_goal, prefix_goal, h_struct_pack, h_from_bytes,
                        install_byte_constants, FILE_ASSUMED)
from .util import Results, merge_and_record, solve

MAGIC = Bts.const(b"PAR1")


class PathStr:
    """the `path` argument: only `path[-9:] == '_metadata'` is ever asked of it"""
    tracked = False

    def __init__(self, is_meta):
        self.is_meta = is_meta

    def slice(self, eng, p, lo, hi, node):
        return Custom(Suffix(self.is_meta))


class Suffix:
    tracked = False

    def __init__(self, is_meta):
        self.is_meta = is_meta

    def eq(self, eng, p, other):
        if isinstance(other, Str) and other.s == "_metadata":
            return self.is_meta
        raise Unsupported("path suffix compared with " + repr(getattr(other, "s", other)))


class FMD:
    """the parsed FileMetaData object: opaque, except that its serialisation is the fresh byte string F'"""
    tracked = False

    def __init__(self, newfoot):
        self.newfoot = newfoot

    def attr(self, eng, p, name):
        if name == "thrift_name":
            return Str("FileMetaData")
        if name == "key_value_metadata":
            # per-path state of the field: the list update_custom_metadata left there, until somebody stores something else
            return p.ghost.get("kvm_field", KV_MERGED)
        raise Unsupported("FileMetaData." + name)

    def setattr(self, eng, p, name, v):
        if name == "key_value_metadata":
            p.ghost["kvm_field"] = v
            p.ghost.setdefault("kvm_stores", []).append(type(v).__name__)
            return
        raise Unsupported("store to FileMetaData." + name)

    def call_method(self, eng, p, name, args, kw, node):
        if name == "to_bytes":
            return [(p, BytesV(self.newfoot))]
        raise Unsupported("FileMetaData." + name + "()")


class KVList:
    """abstract key_value_metadata list: the validation loop of writer.write_thrift is executed for an arbitrary entry"""
    tracked = False

    def truth(self, eng, p):
        # the merged list may be empty (every key removed) or not: one Boolean per path
        if "kvm_nonempty" not in p.ghost:
            p.ghost["kvm_nonempty"] = z3.Bool("merged_key_values_nonempty")
        return p.ghost["kvm_nonempty"]

    def for_loop(self, eng, p, st):
        p.ghost["validated_merged_list"] = True
        exit_path, body = p.fork(), p.fork()
        outs = [exit_path]
        for b in eng.assign(st.target, Opaque(("kv", next(eng.counter))), body):
            for r in eng.block(st.body, [b]):
                if r.ctl in (None, "continue", "break"):
                    continue
                if isinstance(r.ctl, tuple) and r.ctl[0] == "raise":
                    r.ghost["raise_in_validation"] = True
                outs.append(r)
        return outs


KV_MERGED = Custom(KVList())        # THE list object update_custom_metadata works on (identity matters)


def run(ctx, funcs, timeout, is_meta_arg):
    """is_meta_arg in {True, False, None}"""
    res = Results()
    fh = FileH()
    is_meta = z3.Bool("file_is_metadata_file")
    body, F, Fn = Bts.sym("body"), Bts.sym("old_footer"), Bts.sym("new_footer")
    lenfield = Bts.sym("old_len_field")
    head = Bts(z3.If(is_meta, 4, body.n), lambda i: z3.If(is_meta, MAGIC.at(i), body.at(i)))
    content0 = concat(head, F, Bts(4, lenfield.at), MAGIC)
    loc = head.n

    def h_open(eng, p, args, kw, node):
        p.ghost["open_mode"] = args[1].s if len(args) > 1 and isinstance(args[1], Str) else None
        fh.init(p, content0, 0)
        return [(p, Custom(fh))]

    def h_from_buffer(eng, p, args, kw, node):
        d = args[0]
        if not isinstance(d, BytesV):
            raise Unsupported("from_buffer of " + type(d).__name__)
        p.ghost["parsed"] = d.seq
        return [(p, Custom(FMD(Fn)))]

    def h_update_cm(eng, p, args, kw, node):
        tgt = args[0]
        p.ghost["updated"] = isinstance(tgt, Custom) and isinstance(tgt.h, FMD)
        return [(p, NONE)]
    handlers = {"open": h_open, "from_buffer": h_from_buffer, "update_custom_metadata": h_update_cm,
                "struct.pack": h_struct_pack, "int.from_bytes": h_from_bytes, "with_exit": lambda e, p, st: [p]}
    eng = Engine(funcs=funcs, handlers=handlers, inline=("write_thrift",), opaque_calls=True)
    install_byte_constants(eng)
    p = Path()
    # requires: lengths are non-negative, the old length field is the little-endian |F| (< 2**32 by construction),
    # the new footer fits the 32-bit length field
    p.pc += [body.n >= 0, F.n >= 0, Fn.n >= 0, Fn.n < 2 ** 32, F.n == le_value(Bts(4, lenfield.at))]
    arg = NONE if is_meta_arg is None else PyB(is_meta_arg)
    if is_meta_arg is not None:
        p.pc.append(is_meta == z3.BoolVal(is_meta_arg))
    tag = {True: "metadata-file", False: "data-file", None: "by-name"}[is_meta_arg]
    # what the file NAME says is independent of what the file IS when the caller states the kind explicitly (a data file may be
    # called `sensor_metadata`): an explicit True / False must be honoured whatever the name; only with the argument left at None
    # the name decides (requires: the name then tells the truth)
    name_says_meta = is_meta if is_meta_arg is None else z3.Bool("path_ends_with__metadata")
    outs = eng.run("update_file_custom_metadata", p, [Custom(PathStr(name_says_meta)), Opaque("custom_metadata"), arg])
    res.add_engine_obligations(eng, f"update[{tag}].", timeout)
    n_normal = 0
    k = z3.Int("k_skolem")
    for q in outs:
        st = fh.st(q)
        if q.ctl[0] != "ret":
            # an exception (TypeError from the key/value validation): nothing may have been written yet
            res.add(f"update[{tag}].raise_before_any_write", PROVED if st["writes"] == 0 else REFUTED,
                    None if st["writes"] == 0 else {"writes_before_raise": st["writes"]}, 0.0, "trace",
                    "a rejected update (non str/bytes key or value) raises before any byte is written")
            # the ONLY refusal the property allows is an entry that is not str/bytes: a raise that does not come out of the
            # validation of an entry of the merged list (e.g. iterating a field that was set to None) rejects a legal update.
            # Decided by the solver: is the path feasible at all?
            why = q.ghost.get("raise_reason") or f"raise outside the entry validation ({q.ctl})"
            if q.ghost.get("raise_in_validation"):
                res.add(f"update[{tag}].raises_only_for_an_invalid_entry", PROVED, None, 0.0, "trace",
                        "every raising path comes out of the validation of one entry of the merged list")
            else:
                stt, m, secs = solve([*q.pc, *q.axioms], timeout)      # REFUTED == satisfiable == the raise is reachable
                res.add(f"update[{tag}].raises_only_for_an_invalid_entry", {REFUTED: REFUTED, PROVED: PROVED}.get(stt, UNKNOWN),
                        {"raise": why, "merged_key_values_nonempty": str(m.eval(q.ghost["kvm_nonempty"], model_completion=True))
                         if m is not None and "kvm_nonempty" in q.ghost else None} if stt == REFUTED else None, secs,
                        detail="every raising path comes out of the validation of one entry of the merged list; here: " + why)
            continue
        n_normal += 1
        c1 = st["content"]
        base = [*q.pc, *q.axioms]
        expected = concat(Bts(loc, content0.at), Fn, le32(Fn.n), MAGIC)
        mode_ok = q.ghost.get("open_mode") == "rb+"
        res.add(f"update[{tag}].opens_in_place_rb+", PROVED if mode_ok else REFUTED,
                None if mode_ok else {"mode": q.ghost.get("open_mode")}, 0.0, "trace")
        parsed = q.ghost.get("parsed", Bts(0, lambda i: z3.BitVecVal(0, 8)))
        goals = {
            "prefix_preserved": prefix_goal(c1, content0, loc, k),
            "file_is_exactly_new": eq_goal(c1, expected, k),
            "footer_len_field": eq_goal(c1.sub(c1.n - 8, 4), le32(Fn.n), k),
            "parses_old_footer": prefix_goal(parsed, F, F.n, k),
        }
        details = {"prefix_preserved": "content'[:loc] == content[:loc]  (every data byte)",
                   "file_is_exactly_new": "content' == content[:loc] ++ F' ++ le32(|F'|) ++ 'PAR1' (whole view: no trailing bytes)",
                   "footer_len_field": "the 4 bytes before the final magic == le32(|F'|)",
                   "parses_old_footer": "the bytes given to from_buffer start with the old footer"}
        for gname, goal in goals.items():
            stt, m, secs = solve(base + [z3.Not(goal)], timeout)
            model = None
            if m is not None:
                ev = lambda t: m.eval(t, model_completion=True)
                model = {"old_footer_len": ev(F.n).as_long(), "new_footer_len": ev(Fn.n).as_long(),
                         "body_len": ev(body.n).as_long(), "is_metadata_file": z3.is_true(ev(is_meta)),
                         "final_len": ev(c1.n).as_long(), "expected_len": ev(expected.n).as_long(),
                         "differs_at_index": ev(k).as_long()}
            res.add(f"update[{tag}].{gname}", stt, model, secs, detail=details[gname])
        upd = q.ghost.get("updated") is True
        res.add(f"update[{tag}].updates_the_parsed_metadata", PROVED if upd else REFUTED, None, 0.0, "trace")
        # whole view of the field: what is serialised is the list update_custom_metadata produced - nobody stored anything else
        # into fmd.key_value_metadata between the merge and to_bytes (an empty list stays an empty list: removing the last key is
        # a legal update), and the validation loop ran over that very list
        same = q.ghost.get("kvm_field", KV_MERGED) is KV_MERGED
        res.add(f"update[{tag}].serialises_the_merged_key_values", PROVED if same else REFUTED,
                None if same else {"stored_into_key_value_metadata": q.ghost.get("kvm_stores")}, 0.0, "trace",
                "fmd.key_value_metadata at to_bytes() is the object update_custom_metadata merged into (no store in between)")
        val = q.ghost.get("validated_merged_list") is True
        res.add(f"update[{tag}].validates_the_merged_key_values", PROVED if val else REFUTED, None, 0.0, "trace",
                "write_thrift's validation loop ran over the merged list on this path")
    if n_normal == 0:
        ctx.engine_error(f"update_file_custom_metadata[{tag}]: no normally returning path")
    ctx.vacuity["covers"] += n_normal
    # vacuity guards: the precondition is satisfiable; a must-fail obligation (content' == content) is refuted
    if solve(list(p.pc) + [F.n == 3, body.n == 5], 2000)[0] == REFUTED:
        ctx.vacuity["requires_sat"] += 1
    else:
        ctx.engine_error("C16: precondition unsatisfiable")
    for q in outs:
        if q.ctl[0] == "ret":
            if solve([*q.pc, z3.Not(eq_goal(fh.st(q)["content"], content0, k))], 5000)[0] == REFUTED:
                ctx.vacuity["must_fail_sat"] += 1
            else:
                ctx.engine_error("C16: must-fail obligation (file unchanged by an update) was not refuted")
            break
    return res


def check(ctx, funcs, timeout):
    for arg in (False, True, None):
        res = run(ctx, funcs, timeout, arg)
        yield from merge_and_record(ctx, "writer.update_file_custom_metadata", res)
