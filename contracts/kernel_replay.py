"""Native replay of refuted kernel obligations: the counter-model (or, for control-state obligations, any stream that
reaches the control state - control flow of the bit-packing loops does not depend on the data) is run on the REAL
compiled function and judged by the specification written in plain Python."""
import re
import subprocess
import sys
import json

SPEC_SRC = r'''
import numpy as np, sys, json
sys.path.insert(0, REPO)
from fastparquet import cencoding as ce
def spec_bitpacked(stream, w, n):
    bits = int.from_bytes(stream, "little")
    return [(bits >> (w * k)) & ((1 << w) - 1) for k in range(n)]
def run_read_bitpacked(w, item, groups, stream, cap_items):
    f = ce.NumpyIO(np.frombuffer(stream, "uint8").copy())
    out = np.full(cap_items * item + 8, 0xAA, dtype="uint8")
    o = ce.NumpyIO(out[:cap_items * item] if cap_items else out[:0])
    ce.read_bitpacked(f, (groups << 1) | 1, w, o, item)
    m = min(8 * groups, cap_items)
    got = list(out[:m * item].view("<u4" if item == 4 else "u1"))
    want = [v & (0xFFFFFFFF if item == 4 else 0xFF) for v in spec_bitpacked(stream, w, m)]
    return dict(values_ok=[int(x) for x in got] == want, in_cursor=f.tell(), in_cursor_spec=groups * w, out_cursor=o.tell(),
                out_cursor_spec=m * item, guard_ok=bool((out[cap_items * item:] == 0xAA).all()), got=[int(x) for x in got][:8], want=want[:8])
'''


def replay(name, model, repo):
    m = re.match(r"read_bitpacked\[w=(\d+),itemsize=(\d)\]", name)
    if m:
        w, item = int(m.group(1)), int(m.group(2))
        groups = 0 if "[groups=0]" in name else 2
        prog = ("REPO = %r\n" % repo) + SPEC_SRC + f'''
import random
rnd = random.Random(1)
worst = None
for stream in [bytes([0xFF] * ({groups} * {w} + 8)), bytes(rnd.randrange(256) for _ in range({groups} * {w} + 8))]:
    r = run_read_bitpacked({w}, {item}, {groups}, stream, 8 * {groups} + 1)
    bad = not (r["values_ok"] and r["in_cursor"] == r["in_cursor_spec"] and r["out_cursor"] == r["out_cursor_spec"] and r["guard_ok"])
    if bad:
        worst = r
        break
print(json.dumps(dict(VIOLATED=worst is not None, detail=worst)))
'''
        return _sub(prog)
    if name.startswith("_mask_for_bits"):
        return False, "cdef function, exercised through read_bitpacked width 32", None
    if name.startswith("NumpyIO.read.view[x==0]"):
        prog = ("REPO = %r\n" % repo) + SPEC_SRC + '''
io = ce.NumpyIO(np.arange(8, dtype="uint8"))
n = len(io.read(0))
print(json.dumps(dict(VIOLATED=n != 0, detail=dict(read0_returned=n))))
'''
        return _sub(prog)
    return False, "no native replay registered for this obligation", None


def _sub(prog):
    """native code may crash: always a subprocess"""
    try:
        r = subprocess.run([sys.executable, "-c", prog], capture_output=True, text=True, timeout=120)
    except subprocess.TimeoutExpired:
        return False, "replay timed out", prog
    if r.returncode < 0:
        return True, f"real function died with signal {-r.returncode}", prog
    try:
        out = json.loads(r.stdout.strip().splitlines()[-1])
        return bool(out["VIOLATED"]), json.dumps(out["detail"])[:400], prog
    except Exception:
        return False, "replay produced no verdict: " + (r.stderr[-300:] or r.stdout[-300:]), prog
