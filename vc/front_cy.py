"""Cython-subset front end (DESIGN 3.1): mechanical extraction of functions and methods from a .pyx
file into Python-parsable text + a C type environment.  Run on /repo's current source every time;
nothing is hand-copied.

Rewrites (deterministic, counted per function in the extraction report):
  * `cpdef|cdef|def [ret] f(T a, ...)`     -> `def f(a, ...)` + parameter types + return type
  * `cdef:` blocks and `cdef T a = e, b`  -> typed locals (+ the initialising assignments, in order)
  * `<T>e`                                -> `__cast_T__ ** e`   (a prefix operator with the binding
                                              strength of a C cast: tighter than any binary operator,
                                              looser than subscripts/calls/attributes; Python's
                                              `name ** factor` has exactly that shape)
  * prefix `&e`                           -> `__addr__ ** e`
Dropped: decorators (`@cython.*`, `@property`, `@staticmethod` are recorded), docstrings,
comments, compiler directives (their effect - boundscheck/wraparound off, cdivision on,
overflowcheck off - is what the C semantics of the executor encodes).
"""
import ast
import re
import textwrap

CTYPE_WORDS = (r"unsigned\s+char|const\s+char|const\s+void|char|int8_t|uint8_t|int16_t|uint16_t|int32_t|uint32_t|"
               r"int64_t|uint64_t|int|long|double|float|bint|Py_ssize_t|size_t|void|object|bytes|str|list|"
               r"dict|tuple|NumpyIO|ThriftObject")
CTYPE = r"(?:" + CTYPE_WORDS + r")"
MEMVIEW = r"(?:const\s+)?(?:" + CTYPE_WORDS + r")\s*\[\s*:{1,2}\s*1?\s*\]"
NDARR = r"np\.ndarray(?:\[[^\]]*\])?"
TYPE = r"(?:" + MEMVIEW + r"|" + NDARR + r"|" + CTYPE + r"(?:\s*\*)?)"

HDR = re.compile(r"^(\s*)(cpdef|cdef|def)\s+(?!class\b)(.*?)(\w+)\s*\((.*)$")
CLS = re.compile(r"^(\s*)(?:cdef\s+)?class\s+(\w+)")


class Func:
    def __init__(self, qualname, name, cls, kind, ret, params, types, text, lines, report):
        self.qualname, self.name, self.cls, self.kind, self.ret = qualname, name, cls, kind, ret
        self.params, self.types, self.text, self.lines, self.report = params, types, text, lines, report
        self.tree = ast.parse(textwrap.dedent(text)).body[0]
        ast.increment_lineno(self.tree, lines[0] - 1)     # line numbers of obligations = lines of the .pyx (approx.: dropped lines shift)


def _split_top(s, sep=","):
    parts, depth, cur = [], 0, ""
    for ch in s:
        if ch in "([{":
            depth += 1
        elif ch in ")]}":
            depth -= 1
        if ch == sep and depth == 0:
            parts.append(cur)
            cur = ""
        else:
            cur += ch
    if cur.strip():
        parts.append(cur)
    return parts


def _strip_comment(line):
    out, q = "", None
    i = 0
    while i < len(line):
        ch = line[i]
        if q:
            out += ch
            if ch == q:
                q = None
        elif ch in "\"'":
            q = ch
            out += ch
        elif ch == "#":
            break
        else:
            out += ch
        i += 1
    return out.rstrip()


_PREFIX_WORDS = ("return", "and", "or", "not", "if", "else", "in", "elif", "while", "is")


def norm_expr(s, report):
    """casts and address-of -> prefix pseudo operators"""
    out, i, n = [], 0, len(s)
    q = None
    while i < n:
        ch = s[i]
        if q:
            out.append(ch)
            if ch == q:
                q = None
            i += 1
            continue
        if ch in "\"'":
            q = ch
            out.append(ch)
            i += 1
            continue
        before = "".join(out).rstrip()
        prev = before[-1:] if before else ""
        prefix_pos = (prev == "" or prev in "(=,[+-*/|&^~%<>:{" or
                      re.search(r"(?:^|[^\w])(?:" + "|".join(_PREFIX_WORDS) + r")$", before) is not None)
        if ch == "<" and prefix_pos:
            m = re.match(r"<\s*(" + TYPE + r")\s*>", s[i:])
            if m:
                t = re.sub(r"\s+", " ", m.group(1).strip())
                tid = t.replace(" ", "_").replace("*", "_p").replace("[", "_").replace("]", "_").replace(":", "c")
                tid = re.sub(r"_+", "_", tid).strip("_")
                out.append(f"__cast_{tid}__ ** ")
                report["casts"] = report.get("casts", 0) + 1
                CAST_TYPES[f"__cast_{tid}__"] = t
                i += m.end()
                continue
        if ch == "&" and prefix_pos and s[i:i + 2] != "&=":
            out.append("__addr__ ** ")
            report["addr_of"] = report.get("addr_of", 0) + 1
            i += 1
            continue
        out.append(ch)
        i += 1
    return "".join(out)


CAST_TYPES = {}


def clean_type(t):
    return re.sub(r"\s+", " ", t.strip())


def parse_pyx(path):
    """-> (dict qualname -> Func, dict class -> {field: type}, module-level cdef constants)"""
    src = open(path).read()
    lines = src.splitlines()
    funcs, fields, consts = {}, {}, {}
    cls_stack = []  # (indent, name)
    i = 0
    pending_decorators = []
    while i < len(lines):
        raw = lines[i]
        st = raw.strip()
        ind = len(raw) - len(raw.lstrip())
        if st and not st.startswith("#"):
            while cls_stack and ind <= cls_stack[-1][0]:
                cls_stack.pop()
        m = CLS.match(raw)
        if m and raw.rstrip().endswith(":"):
            cls_stack.append((len(m.group(1)), m.group(2)))
            fields.setdefault(m.group(2), {})
            i += 1
            continue
        if st.startswith("@"):
            pending_decorators.append(st)
            i += 1
            continue
        m = HDR.match(raw)
        if m and not st.startswith("cdef extern") and not re.match(r"^\s*cdef\s+" + TYPE + r"\s+\w+\s*=", raw):
            j = i
            h = _strip_comment(lines[j])
            while not h.rstrip().endswith(":"):
                j += 1
                h += " " + _strip_comment(lines[j]).strip()
            k = j + 1
            while k < len(lines) and (not lines[k].strip() or len(lines[k]) - len(lines[k].lstrip()) > ind):
                k += 1
            while k > j + 1 and not lines[k - 1].strip():
                k -= 1
            cls = cls_stack[-1][1] if cls_stack and ind > cls_stack[-1][0] else None
            f = _normalise(lines, i, j, k, h, cls, pending_decorators)
            pending_decorators = []
            funcs[f.qualname] = f
            i = k
            continue
        # class field declarations / module constants
        dm = re.match(r"^\s*cdef\s+(" + TYPE + r")\s+(.*)$", raw)
        if dm and "(" not in dm.group(2).split("=")[0]:
            t = clean_type(dm.group(1))
            for d in _split_top(_strip_comment(dm.group(2))):
                nm = re.match(r"\s*\*?\s*(\w+)\s*(?:=\s*(.*))?$", d)
                if not nm:
                    continue
                if cls_stack and ind > cls_stack[-1][0]:
                    fields[cls_stack[-1][1]][nm.group(1)] = t
                elif nm.group(2) and not nm.group(2).strip().startswith("{"):
                    consts[nm.group(1)] = (t, nm.group(2).strip())
        pending_decorators = [] if st and not st.startswith("#") else pending_decorators
        i += 1
    return funcs, fields, consts


def _normalise(lines, a, j, b, header, cls, decorators):
    report = {"lines_in": b - a, "decorators_dropped": list(decorators)}
    m = re.match(r"^(\s*)(cpdef|cdef|def)\s+(.*?)(\w+)\s*\((.*)\)\s*:\s*$", header)
    ind, kind, ret, name, args = m.group(1), m.group(2), clean_type(m.group(3)), m.group(4), m.group(5)
    types, params, pargs = {}, [], []
    for arg in _split_top(args):
        arg = arg.strip()
        if not arg:
            continue
        mm = re.match(r"^(" + TYPE + r")\s+(\w+)(\s*=\s*(.*))?$", arg)
        if mm:
            types[mm.group(2)] = clean_type(mm.group(1))
            params.append(mm.group(2))
            pargs.append(mm.group(2) + (("=" + mm.group(4)) if mm.group(4) else ""))
            report["typed_params"] = report.get("typed_params", 0) + 1
        else:
            am = re.match(r"^(\*{0,2}\w+)\s*(?::\s*[^=]+)?(=.*)?$", arg)
            params.append(am.group(1).lstrip("*") if am else arg)
            pargs.append((am.group(1) + (am.group(2) or "")) if am else arg)
    out = [f"{ind}def {name}({', '.join(pargs)}):"]
    in_block, block_ind = False, None
    body_emitted = False
    doc_open = None
    for l in lines[j + 1:b]:
        st = l.strip()
        cur = len(l) - len(l.lstrip())
        if doc_open:
            if doc_open in st:
                doc_open = None
            report["doc_lines"] = report.get("doc_lines", 0) + 1
            continue
        if not st:
            continue
        if not body_emitted and (st.startswith('"""') or st.startswith("'''")):
            qd = st[:3]
            report["doc_lines"] = report.get("doc_lines", 0) + 1
            if st.count(qd) < 2:
                doc_open = qd
            continue
        if st.startswith("#"):
            report["comment_lines"] = report.get("comment_lines", 0) + 1
            continue
        l2 = _strip_comment(l)
        st = l2.strip()
        if in_block and cur <= block_ind:
            in_block = False
        if st == "cdef:":
            in_block, block_ind = True, cur
            continue
        decl = None
        if in_block:
            decl = st
        elif st.startswith("cdef "):
            decl = st[5:]
        if decl is not None:
            mm = re.match(r"^(" + TYPE + r")\s*(.*)$", decl)
            if not mm and re.match(r"^\w+\s*(=.*)?$", decl):
                mm = re.match(r"^()(.*)$", decl)       # `cdef name = expr`: untyped (object)
            if not mm:
                raise SyntaxError(f"{name}: cannot parse declaration {st!r}")
            typ, rest = clean_type(mm.group(1)) or "object", mm.group(2)
            base = cur - (4 if in_block else 0)
            if in_block:
                base = block_ind
            for d in _split_top(rest):
                d = d.strip()
                star = d.startswith("*")
                d = d.lstrip("*").strip()
                nm = re.match(r"(\w+)\s*(=\s*(.*))?$", d)
                if not nm:
                    raise SyntaxError(f"{name}: cannot parse declarator {d!r}")
                types[nm.group(1)] = typ + (" *" if star and not typ.endswith("*") else "")
                report["typed_locals"] = report.get("typed_locals", 0) + 1
                if nm.group(3):
                    out.append(" " * base + f"{nm.group(1)} = {norm_expr(nm.group(3), report)}")
                    body_emitted = True
            continue
        out.append(" " * cur + norm_expr(st, report))
        body_emitted = True
    if not body_emitted:
        out.append(ind + "    pass")
    text = "\n".join(out)
    qual = f"{cls}.{name}" if cls else name
    return Func(qual, name, cls, kind, ret, params, types, text, (a + 1, b), report)


def c_anchor_check(pyx_path, c_path):
    """Cython embeds every source line as  /* "<file>.pyx":N  comments followed by the line text.
    Returns (n_anchors, n_mismatch): how many embedded lines differ from the .pyx now on disk."""
    import os
    if not os.path.exists(c_path):
        return 0, -1
    src = open(pyx_path).read().splitlines()
    ctext = open(c_path, errors="replace").read()
    base = os.path.basename(pyx_path)
    n = bad = 0
    seen = set()
    for m in re.finditer(r'/\* "[^"]*' + re.escape(base) + r'":(\d+)\n(.*?)\*/', ctext, flags=re.S):
        ln = int(m.group(1))
        if ln in seen:
            continue
        seen.add(ln)
        # the comment shows a few lines of context; the anchored line is marked with '<<<<<'
        for cl in m.group(2).splitlines():
            if "<<<<<<<<<<<<<<" in cl:
                txt = cl.split("<<<<<<<<<<<<<<")[0]
                txt = re.sub(r"^\s*\*\s?", "", txt).rstrip()
                if txt.endswith("#"):
                    txt = txt[:-1].rstrip()
                n += 1
                if ln - 1 >= len(src) or src[ln - 1].strip() != txt.strip():
                    bad += 1
                break
    return n, bad
