"""Discharging obligations: z3 (Python API) first; on `unknown` the SMT-LIB text goes to cvc5.
An obligation (pc, axioms, goal) is PROVED iff  pc ∧ axioms ∧ ¬goal  is unsat; `sat` = REFUTED with a
model; anything else is UNKNOWN (undecided - never a violation)."""
import os
import subprocess
import tempfile
import time

import z3

PROVED, REFUTED, UNKNOWN = "proved", "refuted", "unknown"


def _has_q(e):
    if z3.is_quantifier(e):
        return True
    return any(_has_q(c) for c in e.children())


def _has_strings(fs):
    txt = " ".join(str(f.sort()) for f in fs[:0])
    return False


def scaled_timeout(timeout_ms):
    """z3 / cvc5 time limits are wall-clock: under machine load (other checks, process pools) a query that needs 2 s of CPU can
    overrun a 10 s limit and flip PROVED to UNKNOWN. The limit is therefore scaled by the load per core (1-minute load average
    over the 16 cores), between 1x and 8x. It never changes a decided verdict, only how long `unknown` is waited for."""
    try:
        per_core = os.getloadavg()[0] / (os.cpu_count() or 1)
    except OSError:
        per_core = 0.0
    return int(timeout_ms * min(8.0, max(1.0, 1.5 * per_core)))


def discharge(ob, timeout_ms=10000, use_cvc5=True):
    """-> (status, backend, secs, model_or_None).  An `unknown` is retried ONCE with four times the limit: a time-out under machine
    load must not turn a provable obligation into an undecided one (a decided verdict is never changed by this)"""
    st, be, secs, model = _discharge_once(ob, timeout_ms, use_cvc5)
    if st == UNKNOWN:
        st2, be2, secs2, model2 = _discharge_once(ob, 4 * timeout_ms, use_cvc5)
        return st2, be2 + ("+retry" if st2 != UNKNOWN else ""), secs + secs2, model2
    return st, be, secs, model


def _discharge_once(ob, timeout_ms=10000, use_cvc5=True):
    timeout_ms = scaled_timeout(timeout_ms)
    t = time.time()
    g = ob.goal
    if z3.is_true(g):
        return PROVED, "simplify", time.time() - t, None
    # first attempt: the quantifier-free part of the hypotheses only (dropping hypotheses is sound for PROVED;
    # a `sat` there means nothing and is ignored) - keeps linear/bit-vector lemmas away from quantified invariants
    qf = [c for c in ob.pc if not _has_q(c)]
    if len(qf) != len(ob.pc) or ob.axioms:
        s0 = z3.Solver()
        s0.set("timeout", min(3000, timeout_ms))
        s0.add(*qf)
        s0.add(z3.Not(g))
        if s0.check() == z3.unsat:
            return PROVED, "z3", time.time() - t, None
    s = z3.Solver()
    s.set("timeout", timeout_ms)
    s.add(*ob.pc)
    s.add(*ob.axioms)
    s.add(z3.Not(g))
    r = s.check()
    if r == z3.unsat:
        return PROVED, "z3", time.time() - t, None
    if r == z3.sat:
        return REFUTED, "z3", time.time() - t, s.model()
    if use_cvc5:
        r2 = _cvc5(s.to_smt2(), timeout_ms)
        if r2 == "unsat":
            return PROVED, "cvc5", time.time() - t, None
        if r2 == "sat":
            return REFUTED, "cvc5", time.time() - t, None
    return UNKNOWN, "z3+cvc5" if use_cvc5 else "z3", time.time() - t, None


def _cvc5(smt2, timeout_ms):
    exe = "/usr/bin/cvc5"
    if not os.path.exists(exe):
        return "unknown"
    with tempfile.NamedTemporaryFile("w", suffix=".smt2", delete=False) as f:
        f.write("(set-logic ALL)\n" + smt2)
        fn = f.name
    try:
        out = subprocess.run([exe, "--strings-exp", f"--tlimit={timeout_ms}", fn], capture_output=True, text=True,
                             timeout=timeout_ms / 1000 + 5)
        first = (out.stdout.strip().splitlines() or ["unknown"])[0]
        return first if first in ("sat", "unsat") else "unknown"
    except Exception:
        return "unknown"
    finally:
        os.unlink(fn)


def model_value(m, term, default=None):
    try:
        v = m.eval(term, model_completion=True)
        if z3.is_int_value(v):
            return v.as_long()
        if z3.is_bv_value(v):
            return v.as_long()
        if z3.is_true(v):
            return True
        if z3.is_false(v):
            return False
        return str(v)
    except Exception:
        return default


def discharge_all(ctx, eng_obligations, function, timeout_ms=10000, known=None, on_refuted=None, prefix=""):
    """Discharge a list of vc.symexec.Obligation, recording each in ctx. `known`: dict obligation-name-prefix ->
    finding id: a refuted obligation whose name starts with the prefix and whose finding id is listed as known
    is recorded as refuted-known.  Returns list of (obligation, status, model)."""
    res = []
    for ob in eng_obligations:
        st, be, secs, model = discharge(ob, timeout_ms)
        name = prefix + ob.name
        ctx.obligation(name, function, st, be, secs, detail=ob.note or None,
                       sample=(st != PROVED or ob.kind == "post"))
        res.append((ob, st, model))
    return res
