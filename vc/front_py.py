"""Python front end: functions and methods are taken from /repo's current source by ast.parse on every
run (nothing hand-copied).  Lowering drops docstrings, comments, annotations (ast does), nothing else."""
import ast
import hashlib
import os

from vlib.common import REPO


class PyFunc:
    def __init__(self, qualname, node, src_segment, path):
        self.qualname, self.name, self.tree = qualname, node.name, node
        self.types, self.ret, self.kind = {}, "", "def"
        self.params = [a.arg for a in node.args.args]
        self.text = src_segment
        self.lines = (node.lineno, node.end_lineno)
        self.path = path
        self.report = {"lines_in": node.end_lineno - node.lineno + 1, "decorators_dropped":
                       ["@" + ast.unparse(d) for d in node.decorator_list]}
        self.sha = hashlib.sha256(src_segment.encode()).hexdigest()[:16]


def parse_module(rel):
    path = os.path.join(REPO, rel)
    src = open(path).read()
    tree = ast.parse(src)
    funcs = {}

    def visit(body, prefix):
        for n in body:
            if isinstance(n, (ast.FunctionDef, ast.AsyncFunctionDef)):
                q = prefix + n.name
                funcs[q] = PyFunc(q, n, ast.get_source_segment(src, n) or "", rel)
                visit(n.body, q + ".")
            elif isinstance(n, ast.ClassDef):
                visit(n.body, prefix + n.name + ".")
    visit(tree.body, "")
    # module-level constants (NAME = <literal>), so that e.g. MARKER = b'PAR1' is the byte string it denotes
    consts = {}
    for n in tree.body:
        if isinstance(n, ast.Assign) and len(n.targets) == 1 and isinstance(n.targets[0], ast.Name):
            v = n.value
            if isinstance(v, ast.Constant) or (isinstance(v, ast.UnaryOp) and isinstance(v.operand, ast.Constant)) or \
                    (isinstance(v, ast.BinOp) and all(isinstance(x, ast.Constant) for x in (v.left, v.right))):
                consts[n.targets[0].id] = v
    for f in funcs.values():
        f.module_consts = consts
    return funcs, tree, src
