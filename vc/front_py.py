"""Python front end: functions and methods are taken from /repo's current source by ast.parse on every
run (nothing hand-copied).  Lowering drops docstrings, comments, annotations (ast does), nothing else."""
import ast
import hashlib
import os

from vlib.common import REPO


class PyFunc:
    def __init__(self, qualname, node, src_segment, path):
        self.qualname, self.name, self.tree = qualname, node.name, node
        self.types, self.ret, self.kind = {}, "", "def"
        self.params = [a.arg for a in node.args.args]
        self.text = src_segment
        self.lines = (node.lineno, node.end_lineno)
        self.path = path
        self.report = {"lines_in": node.end_lineno - node.lineno + 1, "decorators_dropped":
                       ["@" + ast.unparse(d) for d in node.decorator_list]}
        self.sha = hashlib.sha256(src_segment.encode()).hexdigest()[:16]
        eff = decorator_effects(node)
        if eff:
            self.report["decorator_effects"] = eff


TRANSPARENT_DECORATORS = ("property", "staticmethod", "classmethod", "abstractmethod", "functools.wraps", "wraps")
CACHING_DECORATORS = ("lru_cache", "cache", "cached_property", "functools.lru_cache", "functools.cache", "functools.cached_property")
IMMUTABLE_CTORS = ("int", "float", "str", "bytes", "bool", "complex", "frozenset", "pd.Timestamp", "pd.Timedelta", "pandas.Timestamp",
                   "pandas.Timedelta", "len", "repr", "hash", "ord", "chr", "re.compile", "type")
MUTABLE_CTORS = ("list", "dict", "set", "bytearray", "from_buffer", "ThriftObject", "ThriftObject.from_fields", "copy.copy", "copy.deepcopy",
                 "io.BytesIO", "np.array", "np.empty", "np.zeros", "np.ones", "np.frombuffer", "np.asarray", "pd.DataFrame", "pd.Series",
                 "pd.Index", "defaultdict", "OrderedDict")


def _return_kind(e, params):
    """'immutable' | 'mutable' | 'unknown' for a returned expression (syntactic)"""
    if e is None or isinstance(e, ast.Constant):
        return "immutable"
    if isinstance(e, ast.Name):
        return "immutable" if e.id in params else "unknown"        # arguments of a cached function are hashable keys
    if isinstance(e, (ast.Compare, ast.BoolOp)) or isinstance(e, ast.UnaryOp) and isinstance(e.op, ast.Not):
        return "immutable" if not isinstance(e, ast.BoolOp) else \
            ("immutable" if all(_return_kind(v, params) == "immutable" for v in e.values) else "unknown")
    if isinstance(e, (ast.List, ast.Dict, ast.Set, ast.ListComp, ast.DictComp, ast.SetComp)):
        return "mutable"
    if isinstance(e, ast.Tuple):
        ks = [_return_kind(x, params) for x in e.elts]
        return "mutable" if "mutable" in ks else ("immutable" if all(k == "immutable" for k in ks) else "unknown")
    if isinstance(e, ast.IfExp):
        ks = [_return_kind(e.body, params), _return_kind(e.orelse, params)]
        return "mutable" if "mutable" in ks else ("immutable" if all(k == "immutable" for k in ks) else "unknown")
    if isinstance(e, ast.Call):
        f = ast.unparse(e.func)
        if f in IMMUTABLE_CTORS:
            return "immutable"
        if f in MUTABLE_CTORS or f.startswith("parquet_thrift."):
            return "mutable"
        return "unknown"
    return "unknown"


def decorator_effects(node):
    """the front end DROPS decorators (the body is what is verified): say for each one whether that is sound.
    -> list of {decorator, class: transparent | caching | other, returns: [...kinds] (caching only)}"""
    out = []
    for d in node.decorator_list:
        txt = ast.unparse(d)
        head = ast.unparse(d.func) if isinstance(d, ast.Call) else txt
        if head in TRANSPARENT_DECORATORS or head.endswith((".setter", ".getter", ".deleter")):
            out.append({"decorator": "@" + txt, "class": "transparent"})
        elif head in CACHING_DECORATORS:
            params = {a.arg for a in node.args.args + node.args.kwonlyargs}
            kinds = []
            for n in ast.walk(node):
                if isinstance(n, ast.Return):
                    kinds.append([n.lineno, ast.unparse(n.value)[:60] if n.value is not None else "None", _return_kind(n.value, params)])
            out.append({"decorator": "@" + txt, "class": "caching", "returns": kinds})
        else:
            out.append({"decorator": "@" + txt, "class": "other"})
    return out


def parse_module(rel):
    path = os.path.join(REPO, rel)
    src = open(path).read()
    tree = ast.parse(src)
    funcs = {}

    def visit(body, prefix):
        for n in body:
            if isinstance(n, (ast.FunctionDef, ast.AsyncFunctionDef)):
                q = prefix + n.name
                funcs[q] = PyFunc(q, n, ast.get_source_segment(src, n) or "", rel)
                visit(n.body, q + ".")
            elif isinstance(n, ast.ClassDef):
                visit(n.body, prefix + n.name + ".")
    visit(tree.body, "")
    # module-level constants (NAME = <literal>), so that e.g. MARKER = b'PAR1' is the byte string it denotes
    consts = {}
    for n in tree.body:
        if isinstance(n, ast.Assign) and len(n.targets) == 1 and isinstance(n.targets[0], ast.Name):
            v = n.value
            if isinstance(v, ast.Constant) or (isinstance(v, ast.UnaryOp) and isinstance(v.operand, ast.Constant)) or \
                    (isinstance(v, ast.BinOp) and all(isinstance(x, ast.Constant) for x in (v.left, v.right))):
                consts[n.targets[0].id] = v
    for f in funcs.values():
        f.module_consts = consts
    return funcs, tree, src
