"""Path-wise symbolic executor / verification-condition generator over the *real* source.

Input: `ast` function nodes - taken from /repo/fastparquet/*.py by `ast.parse`, or from *.pyx through
vc.front_cy (mechanical normalisation) - plus a C type environment for Cython functions.
Output: obligations (path condition, goal) that vc.backends discharges with z3 / cvc5.

Semantics encoded (DESIGN 3.3):
  * untyped (Python) values: int -> SMT Int (mathematical, that IS Python), bool -> Bool, None,
    Optional as (is_none, value), concrete str/tuples/lists, symbolic int lists as (Array, length),
    heap objects with fields, opaque objects (uninterpreted, attributes memoised per path).
  * C-typed values (Cython `cdef` locals / typed parameters): fixed-width bit-vectors with C integer
    promotions and usual arithmetic conversions, truncating conversion on assignment, arithmetic
    right shift on signed, two's-complement wrap (gcc, no -ftrapv), `char` signed (x86-64).
    Shifts by >= the promoted width are NOT given a meaning: they become `shift_in_range` obligations.
  * pointers = (region, offset); every load/store emits an in-region obligation (bounds checks are
    compiled out: boundscheck=False); region memory is `Array Int (BitVec 8)`, little endian.
  * comparing None with a number is a TypeError in Python: emitted as `no_compare_with_None`.
Loops are unrolled to a stated bound with an unwinding assertion, or cut by a supplied invariant;
calls go to a registered contract/library model, or are inlined from the same extracted source
(recorded).  Anything else raises Unsupported: the function is then out of reach, never guessed.
"""
import ast
import itertools

import z3

CT = {
    "char": (8, True), "const char": (8, True), "signed char": (8, True), "unsigned char": (8, False),
    "const unsigned char": (8, False),
    "int8_t": (8, True), "uint8_t": (8, False), "int16_t": (16, True), "uint16_t": (16, False),
    "int32_t": (32, True), "uint32_t": (32, False), "int64_t": (64, True), "uint64_t": (64, False),
    "int": (32, True), "bint": (32, True), "long": (64, True), "Py_ssize_t": (64, True), "size_t": (64, False),
    "double": (64, True), "float": (32, True),      # bit containers only: floating-point values are never computed with
}


class Unsupported(Exception):
    pass


# ---- values ----------------------------------------------------------------------------------
class V:
    pass


class PyI(V):
    def __init__(self, z, lit=False):
        self.z = z if z3.is_expr(z) else z3.IntVal(z)
        self.lit = lit

    def __repr__(self):
        return f"PyI({self.z})"


class PyB(V):
    def __init__(self, z):
        self.z = z if z3.is_expr(z) else z3.BoolVal(z)


class NoneV(V):
    pass


NONE = NoneV()


class Opt(V):
    """value that may be None: (isnone, val)"""

    def __init__(self, isnone, val):
        self.isnone, self.val = isnone, val


class Str(V):
    def __init__(self, s):
        self.s = s


def _rng_of(bits, signed):
    return (-(1 << (bits - 1)), (1 << (bits - 1)) - 1) if signed else (0, (1 << bits) - 1)


def wrap_int(iv, rng, bits, signed, fits=None):
    """mathematical value -> value after C conversion to (bits, signed); (new iv, new rng).  No `mod` is emitted when
    interval arithmetic - or, failing that, the solver under the current path condition (`fits`) - shows that the
    value is representable."""
    lo, hi = _rng_of(bits, signed)
    if rng is not None and lo <= rng[0] and rng[1] <= hi:
        return iv, rng
    if fits is not None and fits(iv, lo, hi):
        return iv, (max(lo, rng[0]) if rng else lo, min(hi, rng[1]) if rng else hi)
    m = 1 << bits
    if signed:
        return ((iv + (m >> 1)) % m) - (m >> 1), (lo, hi)
    return iv % m, (lo, hi)


class CI(V):
    """C integer: bit-vector `bv` of `bits` bits, signedness, and - when it is known without going through
    bit operations - an *integer view* `iv` (SMT Int term equal to the value) with a conservative interval
    `rng`.  Counters, cursors and pointer offsets keep an integer view, so bounds obligations are linear
    integer arithmetic; data that went through masks/shifts by symbolic amounts etc. only has `bv`."""

    def __init__(self, bv, bits, signed, iv=None, rng=None):
        self.bv, self.bits, self.signed, self.iv, self.rng = bv, bits, signed, iv, rng
        if iv is not None and rng is None:
            self.rng = _rng_of(bits, signed)

    @staticmethod
    def var(name, bits, signed):
        """symbolic input with an integer view: an Int variable constrained to the type's range (caller adds
        `range_constraint()` to the path condition)"""
        x = z3.Int(name)
        return CI(z3.Int2BV(x, bits), bits, signed, iv=x, rng=_rng_of(bits, signed))

    def range_constraint(self):
        lo, hi = _rng_of(self.bits, self.signed)
        return z3.And(self.iv >= lo, self.iv <= hi)

    def __repr__(self):
        return f"CI({self.bv},{self.bits},{'s' if self.signed else 'u'})"


class Ptr(V):
    def __init__(self, region, off, elem=(8, True)):
        self.region, self.off, self.elem = region, off, elem


class Tup(V):
    def __init__(self, items, is_list=False):
        self.items, self.is_list = list(items), is_list


class Ref(V):
    def __init__(self, oid, cls):
        self.oid, self.cls = oid, cls


class View(V):
    """typed memoryview over a region: elements of `elem` starting at byte offset off, n elements"""

    def __init__(self, region, off, n, elem=(8, False)):
        self.region, self.off, self.n, self.elem = region, off, n, elem


class Seq(V):
    """symbolic-length list of ints"""

    def __init__(self, arr, n):
        self.arr, self.n = arr, n


class Opaque(V):
    def __init__(self, tag):
        self.tag = tag


class Custom(V):
    """value whose operations are supplied by a proof script (object with methods
    attr(eng,p,name), call_method(eng,p,name,args,kw), contains(eng,p,v), getitem(eng,p,i))"""

    def __init__(self, h):
        self.h = h


class BytesV(V):
    def __init__(self, seq):
        self.seq = seq


# ---- path ------------------------------------------------------------------------------------
class Path:
    def __init__(self):
        self.pc, self.axioms = [], []
        self.env, self.types = {}, {}
        self.stack = []
        self.heap, self.mem, self.rsize = {}, {}, {}
        self.opq = {}
        self.ghost = {}
        self.ctl = None
        self.trace = []

    def fork(self, extra=None):
        q = Path.__new__(Path)
        q.pc = list(self.pc)
        if extra is not None:
            q.pc.append(extra)
        q.axioms = list(self.axioms)
        q.env, q.types = dict(self.env), self.types
        q.stack = [(dict(e), t) for e, t in self.stack]
        q.heap = {k: dict(v) for k, v in self.heap.items()}
        q.mem, q.rsize = dict(self.mem), dict(self.rsize)
        q.opq = dict(self.opq)
        q.ghost = {k: (list(v) if isinstance(v, list) else dict(v) if isinstance(v, dict) else v)
                   for k, v in self.ghost.items()}
        q.ctl = self.ctl
        q.trace = list(self.trace)
        return q


class Obligation:
    def __init__(self, name, kind, pc, axioms, goal, func, lineno, note=""):
        self.name, self.kind, self.pc, self.axioms, self.goal = name, kind, pc, axioms, goal
        self.func, self.lineno, self.note = func, lineno, note

    def __repr__(self):
        return f"<{self.name} {self.kind} L{self.lineno}>"


class LoopSpec:
    def __init__(self, mode="unroll", bound=8, inv=None, modifies=(), variant=None, havoc_mem=(), havoc_fields=()):
        self.mode, self.bound, self.inv, self.modifies, self.variant = mode, bound, inv, modifies, variant
        self.havoc_mem, self.havoc_fields = havoc_mem, havoc_fields


def is_true(e):
    return z3.is_true(z3.simplify(e))


def _has_quantifier(e):
    if z3.is_quantifier(e):
        return True
    return any(_has_quantifier(c) for c in e.children())


def _small_range(lo, hi, limit=8):
    d = z3.simplify(hi - lo) if z3.is_expr(hi - lo) else None
    l0 = z3.simplify(lo) if z3.is_expr(lo) else z3.IntVal(lo)
    if d is not None and z3.is_int_value(d) and z3.is_int_value(l0) and d.as_long() <= limit:
        return range(l0.as_long(), l0.as_long() + max(0, d.as_long()))
    return None


_qc = itertools.count()


def forall_range(lo, hi, f, name="qi"):
    """forall i in [lo, hi): f(i) - expanded to a conjunction when the range is a small constant (this is what
    lets the bounded counterexample search produce models), quantified otherwise"""
    lo = lo if z3.is_expr(lo) else z3.IntVal(lo)
    r = _small_range(lo, hi)
    if r is not None:
        return z3.And(*[f(z3.IntVal(i)) for i in r]) if len(r) else z3.BoolVal(True)
    i = z3.Int(f"{name}!{next(_qc)}")
    return z3.ForAll([i], z3.Implies(z3.And(lo <= i, i < hi), f(i)))


def exists_range(lo, hi, f, name="qe"):
    lo = lo if z3.is_expr(lo) else z3.IntVal(lo)
    r = _small_range(lo, hi)
    if r is not None:
        return z3.Or(*[f(z3.IntVal(i)) for i in r]) if len(r) else z3.BoolVal(False)
    i = z3.Int(f"{name}!{next(_qc)}")
    return z3.Exists([i], z3.And(lo <= i, i < hi, f(i)))


def is_false(e):
    return z3.is_false(z3.simplify(e))


class Engine:
    def __init__(self, funcs=None, handlers=None, inline=(), loops=None, method_classes=None, consts=None,
                 feas_timeout=500, concrete=False, opaque_calls=False):
        self.funcs = funcs or {}              # qualname -> front end Func (has .tree, .types, .ret, .params)
        self.handlers = dict(handlers or {})  # callee name -> fn(eng, p, args, kw, node) -> [(p, v)]
        self.inline = set(inline)
        self.loops = loops or {}              # (funcname, ordinal) -> LoopSpec
        self.method_classes = method_classes or {}
        self.consts = consts or {}
        self.oblig = []
        self.counter = itertools.count()
        self.feas_timeout = feas_timeout
        self.cur_func = "?"
        self.loop_ord = {}
        self.inlined = set()
        self.concrete = concrete
        self.opaque_calls = opaque_calls
        self.n_feas = 0
        self._opq_ints = {}
        self.dropped = []
        self.class_fields = {}

    # ---- helpers ----
    def fresh(self, base, sort):
        return z3.Const(f"{base}!{next(self.counter)}", sort)

    def fresh_int(self, base):
        return z3.Int(f"{base}!{next(self.counter)}")

    def oblige(self, p, name, kind, goal, node=None, note=""):
        g = z3.simplify(goal) if z3.is_expr(goal) else z3.BoolVal(bool(goal))
        self.oblig.append(Obligation(name, kind, list(p.pc), list(p.axioms), g, self.cur_func,
                                     getattr(node, "lineno", 0), note))

    def feasible(self, p, extra=None):
        conds = p.pc + ([extra] if extra is not None else [])
        if extra is not None:
            s = z3.simplify(extra)
            if z3.is_false(s):
                return False
        self.n_feas += 1
        sol = z3.Solver()
        sol.set("timeout", self.feas_timeout)
        sol.add(*conds)
        return sol.check() != z3.unsat

    def fits_fn(self, p):
        """solver-aided range check under the path condition (keeps integer views free of `mod`)"""
        if p is None:
            return None

        def fits(iv, lo, hi):
            self.n_fits = getattr(self, "n_fits", 0) + 1
            sol = z3.Solver()
            sol.set("timeout", 300)
            sol.add(*[c for c in p.pc if not _has_quantifier(c)])
            sol.add(z3.Or(iv < lo, iv > hi))
            return sol.check() == z3.unsat
        return fits

    # ---- C integer semantics ----
    @staticmethod
    def ctype(name):
        name = " ".join(name.split())
        if name in CT:
            return CT[name]
        return None

    def conv(self, v, bits, signed, p=None):
        """C conversion to an integer type of (bits, signed)"""
        if isinstance(v, CI):
            iv, rng = (None, None)
            if v.iv is not None:
                iv, rng = wrap_int(v.iv, v.rng, bits, signed, self.fits_fn(p))
            if v.bits == bits:
                return CI(v.bv, bits, signed, iv, rng)
            if v.bits > bits:
                return CI(z3.Extract(bits - 1, 0, v.bv), bits, signed, iv, rng)
            ext = z3.SignExt if v.signed else z3.ZeroExt
            return CI(ext(bits - v.bits, v.bv), bits, signed, iv, rng)
        if isinstance(v, PyI):
            sv = z3.simplify(v.z)
            if z3.is_int_value(sv):
                val = sv.as_long()
                iv, rng = wrap_int(z3.IntVal(val), (val, val), bits, signed)
                return CI(z3.BitVecVal(val, bits), bits, signed, z3.simplify(iv), rng if rng != (val, val) else (val, val))
            iv, rng = wrap_int(v.z, None, bits, signed)
            return CI(z3.Int2BV(v.z, bits), bits, signed, iv, rng)
        if isinstance(v, PyB):
            return CI(z3.If(v.z, z3.BitVecVal(1, bits), z3.BitVecVal(0, bits)), bits, signed, z3.If(v.z, 1, 0), (0, 1))
        if isinstance(v, Custom) and hasattr(v.h, "as_bits"):
            return CI(v.h.as_bits(bits), bits, signed)
        if isinstance(v, Custom) and hasattr(v.h, "to_int"):
            return self.conv(v.h.to_int(self, p), bits, signed, p)
        raise Unsupported(f"conv {type(v).__name__} to C int")

    @staticmethod
    def lit_ctype(val):
        if -2 ** 31 <= val < 2 ** 31:
            return (32, True)
        if -2 ** 63 <= val < 2 ** 63:
            return (64, True)
        return (64, False)

    def to_ci(self, v):
        if isinstance(v, CI):
            return v
        if isinstance(v, PyI):
            s = z3.simplify(v.z)
            if z3.is_int_value(s):
                val = s.as_long()
                b, sg = self.lit_ctype(val)
                return CI(z3.BitVecVal(val, b), b, sg, z3.IntVal(val), (val, val))
            return self.conv(v, 64, True)
        if isinstance(v, PyB):
            return self.conv(v, 32, True)
        raise Unsupported(f"to_ci {type(v).__name__}")

    @staticmethod
    def promote(c):
        if c.bits < 32:
            ext = z3.SignExt if c.signed else z3.ZeroExt
            return CI(ext(32 - c.bits, c.bv), 32, True, c.iv, c.rng)      # value-preserving
        return c

    def usual(self, a, b, p=None):
        a, b = self.promote(a), self.promote(b)
        if a.bits == b.bits and a.signed == b.signed:
            return a, b
        if a.signed == b.signed:
            bits = max(a.bits, b.bits)
            return self.conv(a, bits, a.signed, p), self.conv(b, bits, a.signed, p)
        u, s = (a, b) if not a.signed else (b, a)
        if u.bits >= s.bits:
            t = (u.bits, False)
        else:
            t = (s.bits, True)
        return self.conv(a, *t, p), self.conv(b, *t, p)

    def ci_int(self, c):
        """mathematical value of a C integer"""
        if c.iv is not None:
            return c.iv
        return z3.BV2Int(c.bv, is_signed=c.signed)

    def as_int(self, v, p=None, node=None):
        if isinstance(v, PyI):
            return v.z
        if isinstance(v, CI):
            return self.ci_int(v)
        if isinstance(v, PyB):
            return z3.If(v.z, 1, 0)
        if isinstance(v, Opt):
            if p is not None:
                self.oblige(p, f"{self.cur_func}.no_arith_with_None", "safety", z3.Not(v.isnone), node)
            return self.as_int(v.val, p, node)
        if isinstance(v, Opaque):
            # an opaque value used as a number: an unconstrained integer, the same one for the same opaque value
            key = ("as_int", str(v.tag))
            store = p.opq if p is not None else self._opq_ints
            if key not in store:
                store[key] = self.fresh_int("opaque_int")
            return store[key]
        raise Unsupported(f"as_int {type(v).__name__}")

    # ---- truthiness ----
    def truth(self, v, p=None):
        if isinstance(v, PyB):
            return v.z
        if isinstance(v, PyI):
            return v.z != 0
        if isinstance(v, CI):
            return (v.iv != 0) if v.iv is not None else (v.bv != 0)
        if isinstance(v, NoneV):
            return z3.BoolVal(False)
        if isinstance(v, Opt):
            return z3.And(z3.Not(v.isnone), self.truth(v.val, p))
        if isinstance(v, Str):
            return z3.BoolVal(len(v.s) > 0)
        if isinstance(v, Tup):
            return z3.BoolVal(len(v.items) > 0)
        if isinstance(v, Seq):
            return v.n > 0
        if isinstance(v, (Ref, Ptr)):
            return z3.BoolVal(True)
        if isinstance(v, Opaque):
            key = ("truth", v.tag)
            if p is not None:
                if key not in p.opq:
                    p.opq[key] = self.fresh("truth_" + str(v.tag)[:20], z3.BoolSort())
                return p.opq[key]
            return self.fresh("truth", z3.BoolSort())
        if isinstance(v, Custom) and hasattr(v.h, "truth"):
            return v.h.truth(self, p)
        raise Unsupported(f"truth of {type(v).__name__}")

    # ---- function execution ----
    def run(self, qualname, p, args, kwargs=None, closure=None):
        """execute function `qualname` on path p; returns list of finished paths (ctl = ('ret', v) | ('raise', e));
        `closure`: free variables of a nested function (name -> value)"""
        f = self.funcs[qualname]
        saved = (self.cur_func,)
        self.cur_func = qualname
        self.loop_ord[qualname] = 0
        p.stack.append((p.env, p.types))
        p.env, p.types = dict(closure or {}), f.types
        self.bind_params(f, p, args, kwargs or {})
        body = f.tree.body
        outs = self.block(body, [p])
        res = []
        for q in outs:
            if q.ctl is None:
                q.ctl = ("ret", NONE)
            if q.ctl[0] == "ret" and f.ret and self.ctype(f.ret):
                q.ctl = ("ret", self.conv(q.ctl[1], *self.ctype(f.ret), q) if not isinstance(q.ctl[1], NoneV) else NONE)
            q.ghost["locals:" + qualname] = q.env        # final local variables, for postconditions of proof scripts
            q.env, q.types = q.stack.pop()
            res.append(q)
        self.cur_func = saved[0]
        return res

    def bind_params(self, f, p, args, kwargs):
        a = f.tree.args
        names = [x.arg for x in a.args]
        defaults = dict(zip(names[len(names) - len(a.defaults):], a.defaults))
        for i, n in enumerate(names):
            if i < len(args):
                v = args[i]
            elif n in kwargs:
                v = kwargs[n]
            elif n in defaults:
                v = self.ev1(defaults[n], p)
            else:
                raise Unsupported(f"missing argument {n} of {f.qualname}")
            p.env[n] = self.coerce(n, v, p)
        if a.kwarg:
            p.env[a.kwarg.arg] = Opaque("kwargs")

    def coerce(self, name, v, p):
        t = p.types.get(name) if p.types else None
        if t:
            ct = self.ctype(t)
            if ct and not isinstance(v, (NoneV,)):
                return self.conv(v, *ct, p)
        return v

    def block(self, stmts, paths):
        live = paths
        for st in stmts:
            nxt = []
            for q in live:
                if q.ctl is not None:
                    nxt.append(q)
                else:
                    nxt += self.stmt(st, q)
            live = nxt
        return live

    def loop_spec(self, node):
        """loops are addressed by ordinal = position in source order within the function (static, not by encounter)"""
        f = self.funcs.get(self.cur_func)
        tree = f.tree if f is not None else None
        if not hasattr(node, "_static_ord"):
            if tree is not None:
                loops = sorted([n for n in ast.walk(tree) if isinstance(n, (ast.For, ast.While))],
                               key=lambda n: (n.lineno, n.col_offset))
                for k, n in enumerate(loops):
                    n._static_ord = k
            if not hasattr(node, "_static_ord"):
                node._static_ord = -1
        k = node._static_ord
        return self.loops.get((self.cur_func, k)), k

    # ---- statements ----
    def stmt(self, st, p):
        m = getattr(self, "s_" + type(st).__name__, None)
        if m is None:
            raise Unsupported(f"statement {type(st).__name__} at line {st.lineno} in {self.cur_func}")
        return m(st, p)

    def s_Pass(self, st, p):
        return [p]

    def s_Global(self, st, p):
        return [p]

    def s_Import(self, st, p):
        return [p]

    s_ImportFrom = s_Import

    def s_Expr(self, st, p):
        if isinstance(st.value, ast.Constant):
            return [p]
        return [q for q, _ in self.ev(st.value, p)]

    def s_Return(self, st, p):
        if st.value is None:
            p.ctl = ("ret", NONE)
            p.trace.append(("ret", st.lineno))
            return [p]
        out = []
        for q, v in self.ev(st.value, p):
            q.ctl = ("ret", v)
            q.trace.append(("ret", st.lineno))
            out.append(q)
        return out

    def s_Raise(self, st, p):
        name = "Exception"
        if st.exc is not None:
            e = st.exc.func if isinstance(st.exc, ast.Call) else st.exc
            name = ast.unparse(e)
        p.ctl = ("raise", name)
        p.trace.append(("raise", st.lineno))
        return [p]

    def s_Break(self, st, p):
        p.ctl = "break"
        return [p]

    def s_Continue(self, st, p):
        p.ctl = "continue"
        return [p]

    def s_Assert(self, st, p):
        out = []
        for q, c in self.cond(st.test, p):
            self.oblige(q, f"{self.cur_func}.assert@L{st.lineno}", "assert", c, st)
            q.pc.append(c)
            out.append(q)
        return out

    def s_Assign(self, st, p):
        out = []
        for q, v in self.ev(st.value, p):
            qs = [q]
            for t in st.targets:
                nq = []
                for r in qs:
                    nq += self.assign(t, v, r)
                qs = nq
            out += qs
        return out

    def s_AnnAssign(self, st, p):
        if st.value is None:
            return [p]
        out = []
        for q, v in self.ev(st.value, p):
            out += self.assign(st.target, v, q)
        return out

    def s_AugAssign(self, st, p):
        out = []
        load = _as_load(st.target)
        for q, a in self.ev(load, p):
            for r, b in self.ev(st.value, q):
                v = self.binop(st.op, a, b, r, st)
                out += self.assign(st.target, v, r)
        return out

    def assign(self, t, v, p):
        if isinstance(t, ast.Name):
            p.env[t.id] = self.coerce(t.id, v, p)
            return [p]
        if isinstance(t, (ast.Tuple, ast.List)):
            items = self.unpack(v, len(t.elts), p)
            qs = [p]
            for tt, vv in zip(t.elts, items):
                nq = []
                for q in qs:
                    nq += self.assign(tt, vv, q)
                qs = nq
            return qs
        if isinstance(t, ast.Attribute):
            out = []
            for q, o in self.ev(t.value, p):
                if isinstance(o, Opt):
                    self.oblige(q, f"{self.cur_func}.no_attr_of_None@L{t.lineno}", "safety", z3.Not(o.isnone), t)
                    o = o.val
                if isinstance(o, Ref):
                    ft = self.class_fields.get(o.cls, {}).get(t.attr)
                    ct = self.ctype(ft) if ft else None
                    q.heap.setdefault(o.oid, {})[t.attr] = self.conv(v, *ct, q) if ct else v
                    out.append(q)
                elif isinstance(o, Custom):
                    o.h.setattr(self, q, t.attr, v)
                    out.append(q)
                elif isinstance(o, Opaque):
                    q.opq[("attr", o.tag, t.attr)] = v
                    out.append(q)
                else:
                    raise Unsupported(f"attribute store on {type(o).__name__}")
            return out
        if isinstance(t, ast.Subscript):
            out = []
            for q, o in self.ev(t.value, p):
                for r, i in self.ev(t.slice, q):
                    out += self.store_sub(o, i, v, r, t)
            return out
        raise Unsupported(f"assign target {type(t).__name__}")

    def unpack(self, v, n, p):
        if isinstance(v, Tup):
            if len(v.items) != n:
                raise Unsupported("unpack length mismatch")
            return v.items
        if isinstance(v, Custom) and hasattr(v.h, "unpack"):
            return v.h.unpack(self, p, n)
        if isinstance(v, Opaque):
            return [Opaque((v.tag, "part", k)) for k in range(n)]      # havoc: sound
        raise Unsupported(f"unpack {type(v).__name__}")

    def s_If(self, st, p):
        out = []
        for q, c in self.cond(st.test, p):
            sc = z3.simplify(c)
            if z3.is_true(sc):
                out += self.block(st.body, [q])
                continue
            if z3.is_false(sc):
                out += self.block(st.orelse, [q])
                continue
            t = q.fork(c)
            e = q.fork(z3.Not(c))
            if self.feasible(t):
                out += self.block(st.body, [t])
            if self.feasible(e):
                out += self.block(st.orelse, [e])
        return out

    def s_While(self, st, p):
        spec, ordinal = self.loop_spec(st)
        if spec is not None and spec.mode == "invariant":
            return self.loop_invariant(st, p, spec, ordinal, lambda q: self.cond(st.test, q), None)
        if spec is not None and spec.mode == "hook":
            return spec.inv(self, st, p)          # the proof script treats the loop itself (e.g. control-state closure)
        bound = spec.bound if spec else 0
        return self.loop_unroll(st, p, bound, ordinal, lambda q: self.cond(st.test, q), None, explicit=spec is not None)

    def s_For(self, st, p):
        spec, ordinal = self.loop_spec(st)
        if spec is not None and spec.mode == "hook":
            return spec.inv(self, st, p)          # the proof script treats the loop itself
        it = st.iter
        # range(...) loops
        if isinstance(it, ast.Call) and isinstance(it.func, ast.Name) and it.func.id == "range":
            outs = []
            for q, args in self.ev_list(it.args, p):
                ints = [self.as_int(a, q, st) for a in args]
                if len(ints) == 1:
                    lo, hi, step = z3.IntVal(0), ints[0], z3.IntVal(1)
                elif len(ints) == 2:
                    lo, hi, step = ints[0], ints[1], z3.IntVal(1)
                else:
                    lo, hi, step = ints
                ss = z3.simplify(step)
                if not (z3.is_int_value(ss) and ss.as_long() > 0):
                    raise Unsupported("range step must be a positive constant")
                kname = f"__k{ordinal}_{self.cur_func}"
                q.env[kname] = PyI(lo)

                def test(r, kname=kname, hi=hi):
                    return [(r, r.env[kname].z < hi)]

                def pre(r, kname=kname, step=step):
                    rs = self.assign(st.target, PyI(r.env[kname].z), r)
                    for x in rs:
                        x.env[kname] = PyI(z3.simplify(x.env[kname].z + step))
                    return rs
                if spec is not None and spec.mode == "invariant":
                    outs += self.loop_invariant(st, q, spec, ordinal, test, pre, extra_mod=[kname])
                else:
                    b = spec.bound if spec else None
                    if b is None:
                        d = z3.simplify(hi - lo)
                        if z3.is_int_value(d):
                            b = max(0, -(-d.as_long() // ss.as_long()))
                        else:
                            raise Unsupported(f"loop {ordinal} of {self.cur_func}: symbolic range needs a loop spec")
                    outs += self.loop_unroll(st, q, b, ordinal, test, pre, explicit=True)
            return outs
        # iteration over a concrete-length collection
        outs = []
        for q, coll in self.ev(it, p):
            items = None
            if isinstance(coll, Custom) and hasattr(coll.h, "for_loop"):
                outs += coll.h.for_loop(self, q, st)
                continue
            if isinstance(coll, Tup):
                items = coll.items
            elif isinstance(coll, Custom) and hasattr(coll.h, "iterate"):
                items = coll.h.iterate(self, q)
            if items is None and isinstance(coll, NoneV):
                # Python: iterating None raises TypeError ('NoneType' object is not iterable)
                q.ctl = ("raise", "TypeError")
                q.trace.append(("raise", st.lineno))
                q.ghost["raise_reason"] = f"iteration over None at L{st.lineno}"
                outs.append(q)
                continue
            if items is None:
                raise Unsupported(f"for over {type(coll).__name__} in {self.cur_func} L{st.lineno}")
            live = [q]
            done = []
            for item in items:
                nxt = []
                for r in live:
                    for r2 in self.assign(st.target, item, r):
                        for r3 in self.block(st.body, [r2]):
                            if r3.ctl == "break":
                                r3.ctl = None
                                done.append(r3)
                            elif r3.ctl == "continue":
                                r3.ctl = None
                                nxt.append(r3)
                            elif r3.ctl is None:
                                nxt.append(r3)
                            else:
                                done.append(r3)
                live = nxt
            for r in live:
                done += self.block(st.orelse, [r]) if st.orelse else [r]
            outs += done
        return outs

    def loop_unroll(self, st, p, bound, ordinal, test, pre, explicit=True):
        result, live = [], [p]
        for k in range(bound + 1):
            nxt = []
            for q in live:
                for r, c in test(q):
                    sc = z3.simplify(c)
                    if z3.is_false(sc):
                        result += self.block(st.orelse, [r]) if st.orelse else [r]
                        continue
                    if z3.is_true(sc):
                        t, e = r, None
                    else:
                        t, e = r.fork(c), r.fork(z3.Not(c))
                    if e is not None and self.feasible(e):
                        result += self.block(st.orelse, [e]) if st.orelse else [e]
                    if e is None or self.feasible(t):
                        if k == bound:
                            self.oblige(t, f"{self.cur_func}.loop{ordinal}.unwinding_assertion(bound={bound})",
                                        "unwind", z3.BoolVal(False), st)
                            continue
                        starts = pre(t) if pre else [t]
                        for s0 in starts:
                            for b in self.block(st.body, [s0]):
                                if b.ctl == "break":
                                    b.ctl = None
                                    result.append(b)
                                elif b.ctl == "continue" or b.ctl is None:
                                    b.ctl = None
                                    nxt.append(b)
                                else:
                                    result.append(b)
            live = nxt
            if not live:
                break
        return result

    def loop_invariant(self, st, p, spec, ordinal, test, pre, extra_mod=()):
        name = f"{self.cur_func}.loop{ordinal}"
        self.oblige(p, name + ".invariant_on_entry", "inv", spec.inv(self, p), st)
        h = p.fork()
        for v in list(spec.modifies) + list(extra_mod):
            if v in h.env:
                h.env[v] = self.havoc_like(h.env[v], v, h)
        for r in spec.havoc_mem:
            rid = r(self, h) if callable(r) else r
            h.mem[rid] = self.fresh(f"mem_{rid}", z3.ArraySort(z3.IntSort(), z3.BitVecSort(8)))
        for (getref, field) in spec.havoc_fields:
            ref = getref(self, h)
            h.heap[ref.oid][field] = self.havoc_like(h.heap[ref.oid][field], field, h)
        h.pc.append(spec.inv(self, h))
        result = []
        for r, c in test(h):
            t, e = r.fork(c), r.fork(z3.Not(c))
            if self.feasible(e):
                result += self.block(st.orelse, [e]) if st.orelse else [e]
            if self.feasible(t):
                v0 = spec.variant(self, t) if spec.variant else None
                starts = pre(t) if pre else [t]
                for s0 in starts:
                    for b in self.block(st.body, [s0]):
                        if b.ctl == "break":
                            b.ctl = None
                            result.append(b)
                        elif b.ctl == "continue" or b.ctl is None:
                            self.oblige(b, name + ".invariant_preserved", "inv", spec.inv(self, b), st)
                            if v0 is not None:
                                v1 = spec.variant(self, b)
                                self.oblige(b, name + ".variant_decreases", "inv", z3.And(v0 >= 0, v1 < v0), st)
                        else:
                            result.append(b)
        return result

    def havoc_like(self, v, base, p=None):
        if isinstance(v, CI):
            if v.iv is not None:
                x = self.fresh_int(base)
                c = CI(z3.Int2BV(x, v.bits), v.bits, v.signed, x, _rng_of(v.bits, v.signed))
                if p is not None:
                    p.pc.append(c.range_constraint())
                return c
            return CI(self.fresh(base, z3.BitVecSort(v.bits)), v.bits, v.signed)
        if isinstance(v, PyI):
            return PyI(self.fresh_int(base))
        if isinstance(v, PyB):
            return PyB(self.fresh(base, z3.BoolSort()))
        if isinstance(v, Ptr):
            return Ptr(v.region, self.fresh_int(base + "_off"), v.elem)
        if isinstance(v, Opt):
            return Opt(self.fresh(base + "_none", z3.BoolSort()), self.havoc_like(v.val, base, p))
        if isinstance(v, Opaque):
            return Opaque(f"{base}!{next(self.counter)}")
        raise Unsupported(f"havoc of {type(v).__name__}")

    def s_With(self, st, p):
        qs = [p]
        for item in st.items:
            nq = []
            for q in qs:
                for r, v in self.ev(item.context_expr, q):
                    if item.optional_vars is not None:
                        nq += self.assign(item.optional_vars, v, r)
                    else:
                        nq.append(r)
            qs = nq
        outs = self.block(st.body, qs)
        if "with_exit" in self.handlers:
            res = []
            for q in outs:
                res += self.handlers["with_exit"](self, q, st)
            return res
        return outs

    def s_Try(self, st, p):
        # normal flow only; a path that raises inside the body is matched against the handlers by name
        outs = []
        for q in self.block(st.body, [p]):
            if isinstance(q.ctl, tuple) and q.ctl[0] == "raise":
                handled = False
                for h in st.handlers:
                    names = []
                    if h.type is None:
                        names = [None]
                    elif isinstance(h.type, ast.Tuple):
                        names = [ast.unparse(e) for e in h.type.elts]
                    else:
                        names = [ast.unparse(h.type)]
                    if None in names or q.ctl[1] in names or "Exception" in names:
                        q.ctl = None
                        outs += self.block(h.body, [q])
                        handled = True
                        break
                if not handled:
                    outs.append(q)
            else:
                outs += self.block(st.orelse, [q]) if (st.orelse and q.ctl is None) else [q]
        if st.finalbody:
            res = []
            for q in outs:
                c = q.ctl
                q.ctl = None
                for r in self.block(st.finalbody, [q]):
                    if r.ctl is None:
                        r.ctl = c
                    res.append(r)
            outs = res
        return outs

    def s_FunctionDef(self, st, p):
        p.env[st.name] = Opaque("localfunc:" + st.name)
        p.ghost.setdefault("localfuncs", {})[st.name] = st
        return [p]

    def s_Delete(self, st, p):
        raise Unsupported("del")

    # ---- expressions ----
    def ev1(self, e, p):
        r = self.ev(e, p)
        if len(r) != 1:
            raise Unsupported("forking expression in a non-forking context")
        return r[0][1]

    def ev_list(self, nodes, p):
        acc = [(p, [])]
        for n in nodes:
            acc = [(r, vs + [v]) for q, vs in acc for r, v in self.ev(n, q)]
        return acc

    def ev(self, e, p):
        m = getattr(self, "e_" + type(e).__name__, None)
        if m is None:
            raise Unsupported(f"expression {type(e).__name__} at line {getattr(e, 'lineno', 0)} in {self.cur_func}")
        return m(e, p)

    def e_Constant(self, e, p):
        v = e.value
        if v is None:
            return [(p, NONE)]
        if isinstance(v, bool):
            return [(p, PyB(v))]
        if isinstance(v, int):
            return [(p, PyI(v, lit=True))]
        if isinstance(v, str):
            return [(p, Str(v))]
        if isinstance(v, bytes):
            return [(p, Opaque(("bytes", v)))]
        if isinstance(v, float):
            return [(p, Opaque(("float", v)))]
        raise Unsupported(f"constant {v!r}")

    def e_Name(self, e, p):
        if e.id in p.env:
            return [(p, p.env[e.id])]
        if e.id in self.consts:
            return [(p, self.consts[e.id])]
        f = self.funcs.get(self.cur_func)
        mc = getattr(f, "module_consts", None) if f is not None else None
        if mc and e.id in mc:
            return self.ev(mc[e.id], p)
        if e.id in ("True", "False"):
            return [(p, PyB(e.id == "True"))]
        if e.id in self.handlers or e.id in self.funcs:
            return [(p, Opaque("func:" + e.id))]
        if e.id.startswith("__cast_") or e.id == "__addr__":
            return [(p, Opaque(e.id))]
        return [(p, Opaque("global:" + e.id))]

    def e_Tuple(self, e, p):
        return [(q, Tup(vs)) for q, vs in self.ev_list(e.elts, p)]

    def e_List(self, e, p):
        return [(q, Tup(vs, is_list=True)) for q, vs in self.ev_list(e.elts, p)]

    def e_JoinedStr(self, e, p):
        return [(p, Opaque("fstring"))]

    def e_IfExp(self, e, p):
        out = []
        for q, c in self.cond(e.test, p):
            t, f = q.fork(c), q.fork(z3.Not(c))
            if self.feasible(t):
                out += self.ev(e.body, t)
            if self.feasible(f):
                out += self.ev(e.orelse, f)
        return out

    def e_UnaryOp(self, e, p):
        if isinstance(e.op, ast.Not):
            return [(q, PyB(z3.Not(c))) for q, c in self.cond(e.operand, p)]
        out = []
        for q, v in self.ev(e.operand, p):
            if isinstance(e.op, ast.USub):
                if isinstance(v, PyI):
                    out.append((q, PyI(z3.simplify(-v.z), lit=v.lit)))
                elif isinstance(v, CI):
                    c = self.promote(v)
                    iv, rng = (None, None)
                    if c.iv is not None:
                        iv, rng = wrap_int(-c.iv, (-c.rng[1], -c.rng[0]) if c.rng else None, c.bits, c.signed)
                    out.append((q, CI(-c.bv, c.bits, c.signed, iv, rng)))
                else:
                    raise Unsupported("unary minus")
            elif isinstance(e.op, ast.Invert):
                if isinstance(v, CI):
                    c = self.promote(v)
                    iv, rng = (None, None)
                    if c.iv is not None:
                        iv, rng = wrap_int(-c.iv - 1, (-c.rng[1] - 1, -c.rng[0] - 1) if c.rng else None, c.bits, c.signed)
                    out.append((q, CI(~c.bv, c.bits, c.signed, iv, rng)))
                elif isinstance(v, PyI):
                    out.append((q, PyI(-v.z - 1)))
                else:
                    raise Unsupported("invert")
            elif isinstance(e.op, ast.UAdd):
                out.append((q, v))
        return out

    def e_BoolOp(self, e, p):
        # value context: Python returns the deciding operand
        is_and = isinstance(e.op, ast.And)
        results, live = [], [p]
        for k, sub in enumerate(e.values):
            last = k == len(e.values) - 1
            nxt = []
            for q in live:
                for r, v in self.ev(sub, q):
                    if last:
                        results.append((r, v))
                        continue
                    c = self.truth(v, r)
                    sc = z3.simplify(c)
                    decided = z3.Not(c) if is_and else c
                    if z3.is_true(sc) or z3.is_false(sc):
                        if z3.is_true(z3.simplify(decided)):
                            results.append((r, v))
                        else:
                            nxt.append(r)
                        continue
                    d, g = r.fork(decided), r.fork(z3.Not(decided))
                    if self.feasible(d):
                        results.append((d, v))
                    if self.feasible(g):
                        nxt.append(g)
            live = nxt
        return results

    def cond(self, e, p):
        """evaluate e in boolean context -> [(path, z3 Bool)]"""
        if isinstance(e, ast.BoolOp):
            return [(q, self.truth(v, q)) for q, v in self.e_BoolOp(e, p)]
        if isinstance(e, ast.UnaryOp) and isinstance(e.op, ast.Not):
            return [(q, z3.Not(c)) for q, c in self.cond(e.operand, p)]
        return [(q, self.truth(v, q)) for q, v in self.ev(e, p)]

    def e_Compare(self, e, p):
        if len(e.ops) == 1:
            out = []
            for q, a in self.ev(e.left, p):
                for r, b in self.ev(e.comparators[0], q):
                    out.append((r, PyB(self.compare(e.ops[0], a, b, r, e))))
            return out
        # chained: a < b < c
        out = []
        for q, vals in self.ev_list([e.left] + e.comparators, p):
            cs = [self.compare(op, vals[i], vals[i + 1], q, e) for i, op in enumerate(e.ops)]
            out.append((q, PyB(z3.And(*cs))))
        return out

    def compare(self, op, a, b, p, node):
        if isinstance(op, (ast.Is, ast.IsNot)):
            c = self.identical(a, b, p)
            return c if isinstance(op, ast.Is) else z3.Not(c)
        if isinstance(op, (ast.In, ast.NotIn)):
            c = self.contains(b, a, p, node)
            return c if isinstance(op, ast.In) else z3.Not(c)
        if isinstance(op, (ast.Eq, ast.NotEq)):
            c = self.equal(a, b, p, node)
            return c if isinstance(op, ast.Eq) else z3.Not(c)
        # ordering
        if isinstance(a, Ptr) and isinstance(b, Ptr):
            x, y = a.off, b.off
            return {ast.Lt: x < y, ast.LtE: x <= y, ast.Gt: x > y, ast.GtE: x >= y}[type(op)]
        if isinstance(a, Custom) and hasattr(a.h, "order"):
            return a.h.order(self, p, type(op), b, node)
        if isinstance(b, Custom) and hasattr(b.h, "rorder"):
            return b.h.rorder(self, p, type(op), a, node)
        ca, cb = isinstance(a, CI) or (isinstance(a, PyI) and a.lit), isinstance(b, CI) or (isinstance(b, PyI) and b.lit)
        if (isinstance(a, CI) or isinstance(b, CI)) and ca and cb:
            x, y = self.usual(self.to_ci(a), self.to_ci(b), p)
            if x.iv is not None and y.iv is not None:
                return {ast.Lt: x.iv < y.iv, ast.LtE: x.iv <= y.iv, ast.Gt: x.iv > y.iv, ast.GtE: x.iv >= y.iv}[type(op)]
            if x.signed:
                return {ast.Lt: x.bv < y.bv, ast.LtE: x.bv <= y.bv, ast.Gt: x.bv > y.bv, ast.GtE: x.bv >= y.bv}[type(op)]
            return {ast.Lt: z3.ULT(x.bv, y.bv), ast.LtE: z3.ULE(x.bv, y.bv), ast.Gt: z3.UGT(x.bv, y.bv),
                    ast.GtE: z3.UGE(x.bv, y.bv)}[type(op)]
        for v in (a, b):
            if isinstance(v, NoneV):
                self.oblige(p, f"{self.cur_func}.no_compare_with_None@L{node.lineno}", "safety", z3.BoolVal(False), node)
                return self.fresh("cmp_none", z3.BoolSort())
            if isinstance(v, Opt):
                self.oblige(p, f"{self.cur_func}.no_compare_with_None@L{node.lineno}", "safety", z3.Not(v.isnone), node)
        x, y = self.as_int(a if not isinstance(a, Opt) else a.val, p), self.as_int(b if not isinstance(b, Opt) else b.val, p)
        return {ast.Lt: x < y, ast.LtE: x <= y, ast.Gt: x > y, ast.GtE: x >= y}[type(op)]

    def identical(self, a, b, p):
        if isinstance(b, NoneV) or isinstance(a, NoneV):
            o = a if isinstance(b, NoneV) else b
            if isinstance(o, NoneV):
                return z3.BoolVal(True)
            if isinstance(o, Opt):
                return o.isnone
            if isinstance(o, Opaque):
                key = ("isnone", o.tag)
                if key not in p.opq:
                    p.opq[key] = self.fresh("isnone", z3.BoolSort())
                return p.opq[key]
            if isinstance(o, Custom) and hasattr(o.h, "is_none"):
                return o.h.is_none(self, p)
            return z3.BoolVal(False)
        if isinstance(a, PyB) and isinstance(b, PyB):
            return a.z == b.z
        if isinstance(b, PyB) and isinstance(a, CI):
            # Cython: `x is False` on a C integer compiles to x == 0 / x != 0 ... (checked in the .c)
            return z3.If(b.z, self.truth(a), z3.Not(self.truth(a)))
        if isinstance(a, PyB) and isinstance(b, CI):
            return self.identical(b, a, p)
        if isinstance(a, Opt) or isinstance(b, Opt):
            return self.equal(a, b, p, None)
        raise Unsupported("`is` on " + type(a).__name__ + "/" + type(b).__name__)

    def equal(self, a, b, p, node):
        if isinstance(a, Custom) and hasattr(a.h, "eq"):
            return a.h.eq(self, p, b)
        if isinstance(b, Custom) and hasattr(b.h, "eq"):
            return b.h.eq(self, p, a)
        if isinstance(a, NoneV) and isinstance(b, NoneV):
            return z3.BoolVal(True)
        if isinstance(a, NoneV):
            a, b = b, a
        if isinstance(b, NoneV):
            if isinstance(a, Opt):
                return a.isnone
            if isinstance(a, Opaque):
                return self.identical(a, b, p)
            return z3.BoolVal(False)
        if isinstance(a, Opt) and isinstance(b, Opt):
            return z3.Or(z3.And(a.isnone, b.isnone),
                         z3.And(z3.Not(a.isnone), z3.Not(b.isnone), self.equal(a.val, b.val, p, node)))
        if isinstance(a, Opt):
            return z3.And(z3.Not(a.isnone), self.equal(a.val, b, p, node))
        if isinstance(b, Opt):
            return z3.And(z3.Not(b.isnone), self.equal(a, b.val, p, node))
        if isinstance(a, Str) and isinstance(b, Str):
            return z3.BoolVal(a.s == b.s)
        if isinstance(a, Str) or isinstance(b, Str):
            o = b if isinstance(a, Str) else a
            if isinstance(o, Opaque):
                s = a.s if isinstance(a, Str) else b.s
                key = ("streq", o.tag, s)
                if key not in p.opq:
                    p.opq[key] = self.fresh("streq", z3.BoolSort())
                return p.opq[key]
            return z3.BoolVal(False)
        if isinstance(a, Tup) and isinstance(b, Tup):
            if len(a.items) != len(b.items):
                return z3.BoolVal(False)
            return z3.And(*[self.equal(x, y, p, node) for x, y in zip(a.items, b.items)]) if a.items else z3.BoolVal(True)
        if isinstance(a, PyB) and isinstance(b, PyB):
            return a.z == b.z
        if isinstance(a, Ptr) and isinstance(b, Ptr):
            return a.off == b.off
        if isinstance(a, Opaque) or isinstance(b, Opaque):
            ta = a.tag if isinstance(a, Opaque) else id(a)
            tb = b.tag if isinstance(b, Opaque) else id(b)
            if isinstance(a, Opaque) and isinstance(b, Opaque) and a.tag == b.tag:
                return z3.BoolVal(True)
            key = ("eq",) + tuple(sorted([str(ta), str(tb)]))
            if key not in p.opq:
                p.opq[key] = self.fresh("opq_eq", z3.BoolSort())
            return p.opq[key]
        ca = isinstance(a, CI) or (isinstance(a, PyI) and a.lit)
        cb = isinstance(b, CI) or (isinstance(b, PyI) and b.lit)
        if (isinstance(a, CI) or isinstance(b, CI)) and ca and cb:
            x, y = self.usual(self.to_ci(a), self.to_ci(b), p)
            if x.iv is not None and y.iv is not None:
                return x.iv == y.iv
            return x.bv == y.bv
        return self.as_int(a) == self.as_int(b)

    def contains(self, coll, item, p, node):
        if isinstance(coll, Tup):
            if not coll.items:
                return z3.BoolVal(False)
            return z3.Or(*[self.equal(item, x, p, node) for x in coll.items])
        if isinstance(coll, Seq):
            if isinstance(item, Opt):
                self.oblige(p, f"{self.cur_func}.no_None_membership@L{node.lineno}", "safety", z3.Not(item.isnone), node)
                item = item.val
            x = self.as_int(item)
            return exists_range(0, coll.n, lambda i: coll.arr[i] == x, "mi")
        if isinstance(coll, Custom):
            return coll.h.contains(self, p, item)
        if isinstance(coll, Str) and isinstance(item, Str):
            return z3.BoolVal(item.s in coll.s)
        if isinstance(coll, Opaque):
            key = ("in", str(getattr(item, "s", getattr(item, "tag", id(item)))), coll.tag)
            if key not in p.opq:
                p.opq[key] = self.fresh("in", z3.BoolSort())
            return p.opq[key]
        raise Unsupported(f"`in` on {type(coll).__name__}")

    def e_BinOp(self, e, p):
        # pseudo prefix operators produced by the Cython front end
        if isinstance(e.op, ast.Pow) and isinstance(e.left, ast.Name):
            if e.left.id.startswith("__cast_"):
                from .front_cy import CAST_TYPES
                t = CAST_TYPES[e.left.id]
                return [(q, self.cast(t, v, q, e)) for q, v in self.ev(e.right, p)]
            if e.left.id == "__addr__":
                return self.addr_of(e.right, p)
        out = []
        for q, a in self.ev(e.left, p):
            for r, b in self.ev(e.right, q):
                out.append((r, self.binop(e.op, a, b, r, e)))
        return out

    def cast(self, t, v, p, node):
        t = " ".join(t.split())
        if t.endswith("*"):
            base = t[:-1].strip()
            if isinstance(v, Ptr):
                ct = self.ctype(base)
                return Ptr(v.region, v.off, ct if ct else (8, True))
            if isinstance(v, Custom) and hasattr(v.h, "as_ptr"):
                q = v.h.as_ptr()
                return Ptr(q.region, q.off, self.ctype(base) or (8, True))
            if isinstance(v, CI) or isinstance(v, PyI):
                # an integer used as an address: no region is known to contain it
                return Ptr(("wild", self.cur_func, node.lineno), self.as_int(v), self.ctype(base) or (8, True))
            raise Unsupported(f"cast to pointer of {type(v).__name__}")
        ct = self.ctype(t)
        if ct:
            return self.conv(v, *ct, p)
        if t == "double":
            return Opaque(("double", id(v)))
        return v   # <bytes>, <str>, <list>, <dict>, <ThriftObject>: checked casts of Python objects

    def addr_of(self, node, p):
        # &view[k]
        if isinstance(node, ast.Subscript):
            out = []
            for q, o in self.ev(node.value, p):
                for r, i in self.ev(node.slice, q):
                    if isinstance(o, View):
                        k = self.as_int(i)
                        out.append((r, Ptr(o.region, o.off + k * (o.elem[0] // 8), o.elem)))
                    elif isinstance(o, Ptr):
                        out.append((r, Ptr(o.region, o.off + self.as_int(i) * (o.elem[0] // 8), o.elem)))
                    else:
                        raise Unsupported("address of subscript of " + type(o).__name__)
            return out
        raise Unsupported("address-of")

    def binop(self, op, a, b, p, node):
        # pointer arithmetic
        if isinstance(a, Ptr) or isinstance(b, Ptr):
            if isinstance(a, Ptr) and isinstance(b, Ptr):
                if isinstance(op, ast.Sub):
                    sz = a.elem[0] // 8
                    d = a.off - b.off
                    d = d if sz == 1 else d / sz
                    return CI(z3.Int2BV(d, 64), 64, True, d, None)
                raise Unsupported("ptr op ptr")
            ptr, n, swap = (a, b, False) if isinstance(a, Ptr) else (b, a, True)
            k = self.as_int(n) * (ptr.elem[0] // 8)
            if isinstance(op, ast.Add):
                return Ptr(ptr.region, ptr.off + k, ptr.elem)
            if isinstance(op, ast.Sub) and not swap:
                return Ptr(ptr.region, ptr.off - k, ptr.elem)
            raise Unsupported("pointer arithmetic")
        if isinstance(a, Custom) and hasattr(a.h, "binop"):
            return a.h.binop(self, p, op, b, node)
        if isinstance(op, ast.Add) and (isinstance(a, (BytesV, View)) or isinstance(b, (BytesV, View))) and "bytes+" in self.handlers:
            return self.handlers["bytes+"](self, p, a, b, node)
        if isinstance(a, Str) and isinstance(op, ast.Mod) and "str%" in self.handlers:
            r = self.handlers["str%"](self, p, a, b, node)
            if r is not None:
                return r
        ca = isinstance(a, CI) or (isinstance(a, (PyI, PyB)) and getattr(a, "lit", False))
        cb = isinstance(b, CI) or (isinstance(b, (PyI, PyB)) and getattr(b, "lit", False))
        if (isinstance(a, CI) or isinstance(b, CI)) and (ca or isinstance(a, PyB)) and (cb or isinstance(b, PyB)):
            return self.c_binop(op, self.to_ci(a), self.to_ci(b), p, node)
        if isinstance(a, (PyI, PyB, CI, Opt)) and isinstance(b, (PyI, PyB, CI, Opt)):
            x, y = self.as_int(a, p, node), self.as_int(b, p, node)
            lit = getattr(a, "lit", False) and getattr(b, "lit", False)
            return PyI(self.py_arith(op, x, y, p, node), lit=lit)
        if isinstance(a, Tup) and isinstance(b, Tup) and isinstance(op, ast.Add):
            return Tup(a.items + b.items, a.is_list)
        if isinstance(a, (Opaque, Str)) or isinstance(b, (Opaque, Str)):
            return Opaque(("binop", type(op).__name__, next(self.counter)))
        raise Unsupported(f"binop {type(op).__name__} on {type(a).__name__}/{type(b).__name__}")

    def py_arith(self, op, x, y, p, node):
        if isinstance(op, ast.Add):
            return x + y
        if isinstance(op, ast.Sub):
            return x - y
        if isinstance(op, ast.Mult):
            return x * y
        if isinstance(op, ast.FloorDiv):
            self.oblige(p, f"{self.cur_func}.div_nonzero@L{node.lineno}", "safety", y != 0, node)
            # z3 `/` on Int is floor for positive divisors, ceil for negative: build Python floor
            return z3.If(y > 0, x / y, (-x) / (-y))
        if isinstance(op, ast.Mod):
            self.oblige(p, f"{self.cur_func}.div_nonzero@L{node.lineno}", "safety", y != 0, node)
            return z3.If(y > 0, x % y, -((-x) % (-y)))
        sy = z3.simplify(y)
        if isinstance(op, ast.LShift) and z3.is_int_value(sy) and sy.as_long() >= 0:
            return x * (2 ** sy.as_long())
        if isinstance(op, ast.RShift) and z3.is_int_value(sy) and sy.as_long() >= 0:
            return x / (2 ** sy.as_long())
        if isinstance(op, ast.Pow) and z3.is_int_value(sy) and z3.is_int_value(z3.simplify(x)):
            return z3.IntVal(z3.simplify(x).as_long() ** sy.as_long())
        if isinstance(op, (ast.BitOr, ast.BitAnd, ast.BitXor)):
            sx = z3.simplify(x)
            if z3.is_int_value(sx) and z3.is_int_value(sy):
                f = {ast.BitOr: int.__or__, ast.BitAnd: int.__and__, ast.BitXor: int.__xor__}[type(op)]
                return z3.IntVal(f(sx.as_long(), sy.as_long()))
            # symbolic python-int bit operations: go through 128-bit vectors (values assumed within range; obligation)
            bx, by = z3.Int2BV(x, 128), z3.Int2BV(y, 128)
            self.oblige(p, f"{self.cur_func}.pybitop_in_128bit@L{node.lineno}", "safety",
                        z3.And(x >= -2 ** 127, x < 2 ** 127, y >= -2 ** 127, y < 2 ** 127), node)
            r = {ast.BitOr: bx | by, ast.BitAnd: bx & by, ast.BitXor: bx ^ by}[type(op)]
            return z3.BV2Int(r, is_signed=True)
        raise Unsupported(f"python arithmetic {type(op).__name__} with symbolic operand")

    def c_binop(self, op, a, b, p, node):
        def const_of(c):
            if c.iv is not None:
                sv = z3.simplify(c.iv)
                if z3.is_int_value(sv):
                    return sv.as_long()
            sb = z3.simplify(c.bv)
            if z3.is_bv_value(sb):
                return sb.as_signed_long() if c.signed else sb.as_long()
            return None

        def iv_rng(x, y, f, frng):
            """integer view of a result computed mathematically (before wrapping to the result type)"""
            if x.iv is None or y.iv is None:
                return None, None
            rng = frng(x.rng, y.rng) if (x.rng and y.rng and frng) else None
            return f(x.iv, y.iv), rng
        if isinstance(op, (ast.LShift, ast.RShift)):
            x = self.promote(a)
            amt = self.promote(b)
            amt_i = self.ci_int(amt)
            self.oblige(p, f"{self.cur_func}.shift_in_range@L{node.lineno}", "safety",
                        z3.And(amt_i >= 0, amt_i < x.bits), node)
            sh = self.conv(amt, x.bits, False).bv
            k = const_of(amt)
            iv = rng = None
            if isinstance(op, ast.LShift):
                if x.iv is not None and k is not None and 0 <= k < x.bits:
                    iv, rng = wrap_int(x.iv * (1 << k), (x.rng[0] << k, x.rng[1] << k) if x.rng else None, x.bits, x.signed,
                                       self.fits_fn(p))
                return CI(x.bv << sh, x.bits, x.signed, iv, rng)
            if x.iv is not None and k is not None and 0 <= k < x.bits:
                # arithmetic shift of a signed value and logical shift of an unsigned one are both floor division
                iv, rng = x.iv / (1 << k), ((x.rng[0] >> k, x.rng[1] >> k) if x.rng else None)
            return CI((x.bv >> sh) if x.signed else z3.LShR(x.bv, sh), x.bits, x.signed, iv, rng)
        x, y = self.usual(a, b, p)
        bits, sg = x.bits, x.signed
        fits = self.fits_fn(p)

        def mk(bv, iv, rng):
            if iv is not None:
                iv, rng = wrap_int(iv, rng, bits, sg, fits)
            return CI(bv, bits, sg, iv, rng)
        if isinstance(op, ast.Add):
            iv, rng = iv_rng(x, y, lambda u, v: u + v, lambda r, t: (r[0] + t[0], r[1] + t[1]))
            return mk(x.bv + y.bv, iv, rng)
        if isinstance(op, ast.Sub):
            iv, rng = iv_rng(x, y, lambda u, v: u - v, lambda r, t: (r[0] - t[1], r[1] - t[0]))
            return mk(x.bv - y.bv, iv, rng)
        if isinstance(op, ast.Mult):
            kx, ky = const_of(x), const_of(y)
            iv = rng = None
            if x.iv is not None and y.iv is not None and (kx is not None or ky is not None):
                iv = x.iv * y.iv
                if x.rng and y.rng:
                    c = [x.rng[0] * y.rng[0], x.rng[0] * y.rng[1], x.rng[1] * y.rng[0], x.rng[1] * y.rng[1]]
                    rng = (min(c), max(c))
            return mk(x.bv * y.bv, iv, rng)
        if isinstance(op, ast.BitAnd):
            # masking with 2**k - 1 is `mod 2**k` (two's complement, any sign)
            for u_, v_ in ((x, y), (y, x)):
                k = const_of(v_)
                if k is not None and k >= 0 and (k & (k + 1)) == 0 and u_.iv is not None:
                    return CI(x.bv & y.bv, bits, sg, u_.iv % (k + 1), (0, k))
            k1, k2 = const_of(x), const_of(y)
            if k1 is not None and k2 is not None:
                return CI(x.bv & y.bv, bits, sg, z3.IntVal(k1 & k2), (k1 & k2, k1 & k2))
            return CI(x.bv & y.bv, bits, sg)
        if isinstance(op, ast.BitOr):
            return CI(x.bv | y.bv, bits, sg)
        if isinstance(op, ast.BitXor):
            return CI(x.bv ^ y.bv, bits, sg)
        if isinstance(op, (ast.FloorDiv, ast.Div, ast.Mod)):
            nz = (y.iv != 0) if y.iv is not None else (y.bv != 0)
            self.oblige(p, f"{self.cur_func}.div_nonzero@L{node.lineno}", "safety", nz, node)
            k = const_of(y)
            iv = rng = None
            # C truncating division == floor division when both operands are known non-negative
            if x.iv is not None and k is not None and k > 0 and ((x.rng and x.rng[0] >= 0) or (fits and fits(x.iv, 0, 1 << 70))):
                if isinstance(op, ast.Mod):
                    iv, rng = x.iv % k, (0, k - 1)
                else:
                    iv, rng = x.iv / k, ((max(0, x.rng[0]) // k, x.rng[1] // k) if x.rng else None)
            if isinstance(op, ast.Mod):
                return CI(z3.SRem(x.bv, y.bv) if sg else z3.URem(x.bv, y.bv), bits, sg, iv, rng)
            return CI((x.bv / y.bv) if sg else z3.UDiv(x.bv, y.bv), bits, sg, iv, rng)   # cdivision=True: C truncation
        raise Unsupported(f"C binop {type(op).__name__}")

    # ---- attribute / subscript / call ----
    def e_Attribute(self, e, p):
        out = []
        for q, o in self.ev(e.value, p):
            out.append((q, self.getattr(o, e.attr, q, e)))
        return out

    def getattr(self, o, attr, p, node):
        if isinstance(o, Ref):
            h = p.heap.setdefault(o.oid, {})
            if attr in h:
                return h[attr]
            ft = self.class_fields.get(o.cls, {}).get(attr)
            if ft and self.ctype(ft):
                b, s = self.ctype(ft)
                h[attr] = CI.var(f"{o.oid}.{attr}!{next(self.counter)}", b, s)
                p.pc.append(h[attr].range_constraint())
                return h[attr]
            if (o.cls + "." + attr) in self.funcs:
                f = self.funcs[o.cls + "." + attr]
                if "@property" in f.report.get("decorators_dropped", []):
                    outs = self.run(f.qualname, p, [o])
                    if len(outs) != 1:
                        raise Unsupported("forking property")
                    v = outs[0].ctl[1]
                    outs[0].ctl = None
                    return v
                return Opaque(("method", o.oid, o.cls, attr))
            raise Unsupported(f"attribute {o.cls}.{attr}")
        if isinstance(o, Custom):
            return o.h.attr(self, p, attr)
        if isinstance(o, View) and attr == "shape":
            return Tup([PyI(o.n)])
        if isinstance(o, Opaque):
            key = ("attr", o.tag, attr)
            if key not in p.opq:
                p.opq[key] = Opaque((o.tag, attr))
            return p.opq[key]
        if isinstance(o, Opt) and isinstance(o.val, (Opaque, Custom, Ref)):
            self.oblige(p, f"{self.cur_func}.no_attr_of_None@L{node.lineno}", "safety", z3.Not(o.isnone), node)
            return self.getattr(o.val, attr, p, node)
        raise Unsupported(f"attribute .{attr} of {type(o).__name__} in {self.cur_func} L{node.lineno}")

    def e_Subscript(self, e, p):
        out = []
        for q, o in self.ev(e.value, p):
            if isinstance(e.slice, ast.Slice):
                out += self.slice(o, e.slice, q, e)
                continue
            for r, i in self.ev(e.slice, q):
                out.append((r, self.load_sub(o, i, r, e)))
        return out

    def e_Slice(self, e, p):
        raise Unsupported("bare slice")

    def slice(self, o, sl, p, node):
        lo = self.ev1(sl.lower, p) if sl.lower is not None else None
        hi = self.ev1(sl.upper, p) if sl.upper is not None else None
        if sl.step is not None:
            raise Unsupported("slice step")
        if isinstance(o, Custom) and hasattr(o.h, "slice"):
            return [(p, o.h.slice(self, p, lo, hi, node))]
        if isinstance(o, Tup):
            def c(v):
                s = z3.simplify(self.as_int(v))
                if not z3.is_int_value(s):
                    raise Unsupported("symbolic slice of concrete list")
                return s.as_long()
            a = c(lo) if lo is not None else None
            b = c(hi) if hi is not None else None
            return [(p, Tup(o.items[a:b], o.is_list))]
        if isinstance(o, View):
            a = self.as_int(lo) if lo is not None else z3.IntVal(0)
            b = self.as_int(hi) if hi is not None else o.n
            # memoryview slicing clamps like Python slicing (wraparound=False: negative not reinterpreted)
            a2 = z3.If(a > o.n, o.n, a)
            b2 = z3.If(b > o.n, o.n, b)
            n = z3.If(b2 > a2, b2 - a2, 0)
            return [(p, View(o.region, o.off + a2 * (o.elem[0] // 8), z3.simplify(n), o.elem))]
        if isinstance(o, Opaque):
            return [(p, Opaque(("slice", o.tag, next(self.counter))))]
        raise Unsupported(f"slice of {type(o).__name__}")

    def mem_load(self, p, region, off, nbytes, node, what="load"):
        size = p.rsize.get(region)
        name = f"{self.cur_func}.{what}_in_region@L{node.lineno}"
        if size is None:
            self.oblige(p, name, "safety", z3.BoolVal(False), node, note=f"access through {region}: not a known buffer")
            return self.fresh("wild", z3.BitVecSort(8 * nbytes))
        self.oblige(p, name, "safety", z3.And(off >= 0, off + nbytes <= size), node)
        m = p.mem[region]
        bs = [z3.Select(m, off + k) for k in range(nbytes)]
        return z3.simplify(z3.Concat(*reversed(bs))) if nbytes > 1 else bs[0]

    def mem_store(self, p, region, off, nbytes, bv, node):
        size = p.rsize.get(region)
        name = f"{self.cur_func}.store_in_region@L{node.lineno}"
        if size is None:
            self.oblige(p, name, "safety", z3.BoolVal(False), node, note=f"store through {region}: not a known buffer")
            return
        self.oblige(p, name, "safety", z3.And(off >= 0, off + nbytes <= size), node)
        m = p.mem[region]
        for k in range(nbytes):
            m = z3.Store(m, off + k, z3.Extract(8 * k + 7, 8 * k, bv))
        p.mem[region] = m

    def load_sub(self, o, i, p, node):
        if isinstance(o, Ptr):
            bits, sg = o.elem
            off = o.off + self.as_int(i) * (bits // 8)
            return CI(self.mem_load(p, o.region, z3.simplify(off), bits // 8, node), bits, sg)
        if isinstance(o, View):
            bits, sg = o.elem
            k = self.as_int(i)
            # memoryview index with boundscheck=False: raw access, must still be inside the VIEW
            self.oblige(p, f"{self.cur_func}.view_index_in_range@L{node.lineno}", "safety", z3.And(k >= 0, k < o.n), node)
            return CI(self.mem_load(p, o.region, z3.simplify(o.off + k * (bits // 8)), bits // 8, node), bits, sg)
        if isinstance(o, Tup):
            s = z3.simplify(self.as_int(i))
            if z3.is_int_value(s):
                k = s.as_long()
                if not -len(o.items) <= k < len(o.items):
                    self.oblige(p, f"{self.cur_func}.index_in_range@L{node.lineno}", "safety", z3.BoolVal(False), node)
                    return Opaque("oob")
                return o.items[k]
            raise Unsupported("symbolic index into concrete tuple")
        if isinstance(o, Seq):
            k = self.as_int(i)
            sk = z3.simplify(k)
            if z3.is_int_value(sk) and sk.as_long() < 0:
                k = o.n + k
            self.oblige(p, f"{self.cur_func}.index_in_range@L{node.lineno}", "safety", z3.And(k >= 0, k < o.n), node)
            return PyI(z3.Select(o.arr, k))
        if isinstance(o, Custom):
            return o.h.getitem(self, p, i, node)
        if isinstance(o, Opaque):
            key = ("item", o.tag, str(getattr(i, "s", None) or getattr(i, "z", None) or getattr(i, "tag", id(i))))
            if key not in p.opq:
                p.opq[key] = Opaque((o.tag, "[]", key[2]))
            return p.opq[key]
        if isinstance(o, Opt) and isinstance(o.val, (Seq, Custom, Opaque, Tup)):
            self.oblige(p, f"{self.cur_func}.no_subscript_of_None@L{node.lineno}", "safety", z3.Not(o.isnone), node)
            return self.load_sub(o.val, i, p, node)
        raise Unsupported(f"subscript of {type(o).__name__} in {self.cur_func} L{node.lineno}")

    def store_sub(self, o, i, v, p, node):
        if isinstance(o, Opt):
            self.oblige(p, f"{self.cur_func}.no_subscript_of_None@L{node.lineno}", "safety", z3.Not(o.isnone), node)
            return self.store_sub(o.val, i, v, p, node)
        if isinstance(o, Ptr):
            bits, sg = o.elem
            off = o.off + self.as_int(i) * (bits // 8)
            self.mem_store(p, o.region, z3.simplify(off), bits // 8, self.conv(v, bits, sg).bv, node)
            return [p]
        if isinstance(o, View):
            bits, sg = o.elem
            k = self.as_int(i)
            self.oblige(p, f"{self.cur_func}.view_index_in_range@L{node.lineno}", "safety", z3.And(k >= 0, k < o.n), node)
            self.mem_store(p, o.region, z3.simplify(o.off + k * (bits // 8)), bits // 8, self.conv(v, bits, sg).bv, node)
            return [p]
        if isinstance(o, Custom):
            o.h.setitem(self, p, i, v, node)
            return [p]
        if isinstance(o, Opaque):
            return [p]
        raise Unsupported(f"subscript store on {type(o).__name__}")

    def e_Call(self, e, p):
        # resolve callee
        fn = e.func
        if isinstance(fn, ast.Name):
            name = fn.id
            if name in p.env and isinstance(p.env[name], Opaque) and str(p.env[name].tag).startswith("localfunc:"):
                raise Unsupported("call of local function " + name)
            return self.call_named(name, None, e, p)
        if isinstance(fn, ast.Attribute):
            out = []
            for q, o in self.ev(fn.value, p):
                if isinstance(o, Ref) and (o.cls + "." + fn.attr) in self.funcs:
                    out += self.call_named(o.cls + "." + fn.attr, o, e, q)
                elif isinstance(o, Custom):
                    for r, (args, kw) in self.ev_args(e, q):
                        res = o.h.call_method(self, r, fn.attr, args, kw, e)
                        out += res
                else:
                    full = ast.unparse(fn)
                    if full in self.handlers:
                        out += self.call_named(full, None, e, q)
                    elif ("." + fn.attr) in self.handlers:
                        for r, (args, kw) in self.ev_args(e, q):
                            out += self.handlers["." + fn.attr](self, r, [o] + args, kw, e)
                    elif self.opaque_calls:
                        for r, (args, kw) in self.ev_args(e, q):
                            self.check_untracked(args, kw, full, e)
                            out.append((r, Opaque(("call", full, next(self.counter)))))
                    else:
                        raise Unsupported(f"call {full} in {self.cur_func} L{e.lineno}")
            return out
        raise Unsupported("call of " + type(fn).__name__)

    def check_untracked(self, args, kw, name, node):
        for a in list(args) + list(kw.values()):
            if isinstance(a, (Ref, Ptr, View, BytesV)) or (isinstance(a, Custom) and getattr(a.h, "tracked", False)):
                raise Unsupported(f"tracked object flows into opaque call {name} at L{node.lineno}")

    def ev_args(self, e, p):
        out = []
        for q, args in self.ev_list(e.args, p):
            acc = [(q, {})]
            for k in e.keywords:
                if k.arg is None:
                    raise Unsupported("**kwargs call")
                acc = [(r, dict(d, **{k.arg: v})) for q2, d in acc for r, v in self.ev(k.value, q2)]
            for r, d in acc:
                out.append((r, (args, d)))
        return out

    def call_named(self, name, selfobj, e, p):
        out = []
        for q, (args, kw) in self.ev_args(e, p):
            if selfobj is not None:
                args = [selfobj] + args
            if name in self.handlers:
                out += self.handlers[name](self, q, args, kw, e)
            elif name in self.funcs and (name in self.inline or "*" in self.inline):
                self.inlined.add(name)
                saved_ord = dict(self.loop_ord)
                for r in self.run(name, q, args, kw):
                    if r.ctl[0] == "ret":
                        v = r.ctl[1]
                        r.ctl = None
                        out.append((r, v))
                    else:
                        out.append((r, Opaque("raised")))
                self.loop_ord.update({k: v for k, v in saved_ord.items() if k != name})
            elif name in BUILTINS:
                out += BUILTINS[name](self, q, args, kw, e)
            elif self.opaque_calls:
                self.check_untracked(args, kw, name, e)
                out.append((q, Opaque(("call", name, next(self.counter)))))
            else:
                raise Unsupported(f"call {name} in {self.cur_func} L{e.lineno}")
        return out

    def e_ListComp(self, e, p):
        if "listcomp" in self.handlers:
            r = self.handlers["listcomp"](self, p, e)
            if r is not None:
                return r
        return self.comp(e, p, 0, [])

    def comp(self, e, p, gi, acc):
        """comprehension over concrete collections (Tup) -> Tup; over an abstract collection (Custom with
        .arbitrary) -> Custom(AbstractComp): the element computed for ONE arbitrary member (used by any()/all())"""
        if gi == len(e.generators):
            return None
        g = e.generators[gi]
        res = []
        for q, coll in self.ev(g.iter, p):
            if isinstance(coll, Opt):
                coll = coll.val
            if isinstance(coll, Custom) and hasattr(coll.h, "arbitrary"):
                item = coll.h.arbitrary(self, q)
                for r in self.assign(g.target, item, q):
                    conds = []
                    rs = [(r, [])]
                    for c in g.ifs:
                        rs = [(r3, cs + [cz]) for r2, cs in rs for r3, cz in self.cond(c, r2)]
                    for r2, cs in rs:
                        if gi + 1 < len(e.generators):
                            inner = self.comp(e, r2, gi + 1, acc)
                            for r3, v in inner:
                                if not isinstance(v, Custom) or not isinstance(v.h, AbstractComp):
                                    raise Unsupported("nested comprehension mixing abstract and concrete")
                                v.h.guard = z3.And(*(cs + [v.h.guard]))
                                res.append((r3, v))
                        else:
                            for r3, v in self.ev(e.elt, r2):
                                res.append((r3, Custom(AbstractComp(v, z3.And(*cs) if cs else z3.BoolVal(True), coll))))
                continue
            items = None
            if isinstance(coll, Tup):
                items = coll.items
            elif isinstance(coll, Custom) and hasattr(coll.h, "iterate"):
                items = coll.h.iterate(self, q)
            if items is None:
                if isinstance(coll, (Opaque, Custom)):
                    res.append((q, Opaque(("comp", next(self.counter)))))
                    continue
                raise Unsupported(f"comprehension over {type(coll).__name__} in {self.cur_func} L{e.lineno}")
            outs = [(q, [])]
            symbolic_filter = False
            for item in items:
                nxt = []
                for r, vals in outs:
                    for r2 in self.assign(g.target, item, r):
                        rs = [(r2, z3.BoolVal(True))]
                        for c in g.ifs:
                            rs = [(r4, z3.And(c0, cz)) for r3, c0 in rs for r4, cz in self.cond(c, r3)]
                        for r3, cz in rs:
                            sc = z3.simplify(cz)
                            if z3.is_false(sc):
                                nxt.append((r3, vals))
                                continue
                            if not z3.is_true(sc):
                                symbolic_filter = True      # result of unknown length: havoc (sound)
                                nxt.append((r3, vals))
                                continue
                            if gi + 1 < len(e.generators):
                                for r4, v in self.comp(e, r3, gi + 1, acc):
                                    nxt.append((r4, vals + (v.items if isinstance(v, Tup) else [v])))
                            else:
                                for r4, v in self.ev(e.elt, r3):
                                    nxt.append((r4, vals + [v]))
                outs = nxt
            for r, vals in outs:      # (comprehension variables are left in env: harmless, names are comp-local)
                res.append((r, Opaque(("comp", next(self.counter))) if symbolic_filter else Tup(vals, True)))
        return res

    e_GeneratorExp = e_ListComp
    e_SetComp = e_ListComp

    def e_DictComp(self, e, p):
        if len(e.generators) != 1:
            raise Unsupported("dict comprehension with several generators")
        g = e.generators[0]
        out = []
        for q, coll in self.ev(g.iter, p):
            if not (isinstance(coll, Custom) and hasattr(coll.h, "arbitrary")):
                out.append((q, Opaque(("dictcomp", next(self.counter)))))
                continue
            item = coll.h.arbitrary(self, q)
            for r in self.assign(g.target, item, q):
                rs = [(r, [])]
                for c in g.ifs:
                    rs = [(r3, cs + [cz]) for r2, cs in rs for r3, cz in self.cond(c, r2)]
                for r2, cs in rs:
                    for r3, k in self.ev(e.key, r2):
                        for r4, v in self.ev(e.value, r3):
                            out.append((r4, Custom(AbstractDict(k, v, z3.And(*cs) if cs else z3.BoolVal(True), coll))))
        return out

    def e_Dict(self, e, p):
        if not e.keys:
            return [(p, Opaque(("dict", next(self.counter))))]
        raise Unsupported("dict literal")

    def e_Yield(self, e, p):
        out = []
        for q, v in (self.ev(e.value, p) if e.value is not None else [(p, NONE)]):
            q.ghost.setdefault("yields", []).append(v)
            out.append((q, NONE))
        return out

    def e_Lambda(self, e, p):
        return [(p, Opaque("lambda"))]


def _target_names(t):
    return {n.id for n in ast.walk(t) if isinstance(n, ast.Name)}


class AbstractComp:
    """[elt for x in <abstract collection> if guard]: the element for one arbitrary member x"""

    def __init__(self, elt, guard, coll):
        self.elt, self.guard, self.coll = elt, guard, coll

    def truth(self, eng, p):
        return self.nonempty(eng, p)

    def nonempty(self, eng, p):
        # an unfiltered comprehension is non-empty iff the collection it ranges over is
        if z3.is_true(z3.simplify(self.guard)) and hasattr(self.coll, "h") and hasattr(self.coll.h, "nonempty"):
            return self.coll.h.nonempty(eng, p)
        return eng.fresh("nonempty", z3.BoolSort())

    def arbitrary(self, eng, p):
        p.pc.append(self.guard)
        return self.elt

    def enumerate(self, eng, p):
        return Custom(AbstractComp(Tup([PyI(eng.fresh_int("enum_i")), self.elt]), self.guard, self.coll))

    def getitem(self, eng, p, i, node):
        return self.elt              # an arbitrary member

    def iterate_abstract(self):
        return True

    def len(self, eng, p):
        if hasattr(self.coll, "h") and hasattr(self.coll.h, "len"):
            return self.coll.h.len(eng, p)
        n = eng.fresh_int("len")
        p.pc.append(n >= 0)
        return PyI(n)


class AbstractDict:
    """{k: v for x in <abstract collection>}: key and value for one arbitrary member"""

    def __init__(self, key, val, guard, coll):
        self.key, self.val, self.guard, self.coll = key, val, guard, coll

    def truth(self, eng, p):
        if z3.is_true(z3.simplify(self.guard)) and hasattr(self.coll, "h") and hasattr(self.coll.h, "nonempty"):
            return self.coll.h.nonempty(eng, p)
        return eng.fresh("nonempty", z3.BoolSort())

    def len(self, eng, p):
        # number of distinct keys: between (non-empty ? 1 : 0) and the number of members
        n = eng.fresh_int("len_dict")
        p.pc.append(n >= 0)
        if hasattr(self.coll, "h") and hasattr(self.coll.h, "len"):
            m = self.coll.h.len(eng, p)
            p.pc.append(n <= eng.as_int(m))
            p.pc.append(z3.Implies(eng.as_int(m) > 0, n >= 1) if z3.is_true(z3.simplify(self.guard)) else z3.BoolVal(True))
        return PyI(n)

    def arbitrary(self, eng, p):      # iterating a dict yields keys
        p.pc.append(self.guard)
        return self.key


def _as_load(t):
    import copy
    n = copy.copy(t)
    n.ctx = ast.Load()
    return n


# ---- builtins ---------------------------------------------------------------------------------
def _b_len(eng, p, args, kw, node):
    v = args[0]
    if isinstance(v, Tup):
        return [(p, PyI(len(v.items)))]
    if isinstance(v, Seq):
        return [(p, PyI(v.n))]
    if isinstance(v, View):
        return [(p, PyI(v.n))]
    if isinstance(v, Str):
        return [(p, PyI(len(v.s)))]
    if isinstance(v, BytesV):
        return [(p, PyI(v.seq.n))]
    if isinstance(v, Custom):
        return [(p, v.h.len(eng, p))]
    if isinstance(v, Opaque):
        key = ("len", v.tag)
        if key not in p.opq:
            n = eng.fresh_int("len")
            p.pc.append(n >= 0)
            p.opq[key] = PyI(n)
        return [(p, p.opq[key])]
    raise Unsupported("len of " + type(v).__name__)


def _b_isinstance(eng, p, args, kw, node):
    v = args[0]
    tn = ast.unparse(node.args[1])
    if isinstance(v, Custom) and hasattr(v.h, "isinstance"):
        return [(p, PyB(v.h.isinstance(eng, p, tn)))]
    if isinstance(v, PyB):
        return [(p, PyB("bool" in tn or "int" in tn.replace("np.ndarray", "").replace("interval", "")))]
    if isinstance(v, (PyI, CI)):
        return [(p, PyB("int" in tn.replace("np.ndarray", "")))]
    if isinstance(v, Str):
        return [(p, PyB("str" in tn))]
    if isinstance(v, Tup):
        return [(p, PyB(("list" in tn and v.is_list) or ("tuple" in tn and not v.is_list)))]
    if isinstance(v, Opaque):
        key = ("isinstance", v.tag, tn)
        if key not in p.opq:
            p.opq[key] = PyB(eng.fresh("isinst", z3.BoolSort()))
        return [(p, p.opq[key])]
    if isinstance(v, (Opt, NoneV)):
        return [(p, PyB(False))] if isinstance(v, NoneV) else [(p, PyB(False))]
    if isinstance(v, (Custom, Ref, BytesV)):
        return [(p, PyB(False))]        # a proof-script object is none of the builtin / pandas types tested for
    raise Unsupported("isinstance of " + type(v).__name__)


def _b_print(eng, p, args, kw, node):
    return [(p, NONE)]


def _b_int(eng, p, args, kw, node):
    v = args[0]
    if isinstance(v, Custom) and hasattr(v.h, "to_int"):
        return [(p, v.h.to_int(eng, p))]
    if isinstance(v, (PyI, CI, PyB)):
        return [(p, PyI(eng.as_int(v)))]
    if isinstance(v, Opaque):
        return [(p, PyI(eng.fresh_int("int_of")))]
    raise Unsupported("int()")


def _b_max(eng, p, args, kw, node):
    if len(args) == 1 and isinstance(args[0], Custom) and isinstance(args[0].h, (AbstractDict, AbstractComp)):
        h = args[0].h
        elt = h.key if isinstance(h, AbstractDict) else h.elt
        if isinstance(elt, (PyI, CI)):
            # max over an abstract collection of ints: M with  member <= M  (instantiated at the arbitrary member)
            m = eng.fresh_int("max")
            p.axioms.append(z3.Implies(h.guard, eng.as_int(elt) <= m))
            return [(p, PyI(m))]
        if isinstance(elt, Custom) and hasattr(elt.h, "max_of_collection"):
            return [(p, elt.h.max_of_collection(eng, p))]
        raise Unsupported("max over abstract collection of " + type(elt).__name__)
    if len(args) == 2:
        a, b = eng.as_int(args[0]), eng.as_int(args[1])
        return [(p, PyI(z3.If(a >= b, a, b)))]
    raise Unsupported("max")


def _b_min(eng, p, args, kw, node):
    if len(args) == 2:
        a, b = eng.as_int(args[0]), eng.as_int(args[1])
        return [(p, PyI(z3.If(a <= b, a, b)))]
    raise Unsupported("min")


def _func_name(v):
    if isinstance(v, Opaque):
        t = v.tag
        if isinstance(t, str) and t.startswith("func:"):
            return t[5:]
        if isinstance(t, tuple) and len(t) == 2 and isinstance(t[0], str) and t[0].startswith("global:"):
            return t[0][7:] + "." + str(t[1])
    return None


def _b_map(eng, p, args, kw, node):
    fn, coll = args[0], args[1]
    name = _func_name(fn)
    if name and isinstance(coll, Custom) and hasattr(coll.h, "arbitrary"):
        h = eng.handlers.get(name) or eng.handlers.get("." + name.split(".")[-1])
        if h is not None:
            item = coll.h.arbitrary(eng, p)
            out = []
            for q, v in h(eng, p, [item], {}, node):
                out.append((q, Custom(AbstractComp(v, z3.BoolVal(True), coll))))
            return out
    if isinstance(coll, (Opaque, Custom)):
        return [(p, Opaque(("map", next(eng.counter))))]
    raise Unsupported("map")


def _b_reversed(eng, p, args, kw, node):
    v = args[0]
    if isinstance(v, Tup):
        return [(p, Tup(list(reversed(v.items)), True))]
    if isinstance(v, Custom) and isinstance(v.h, AbstractComp):
        return [(p, v)]          # the member set is what matters; positions are re-drawn by enumerate
    raise Unsupported("reversed of " + type(v).__name__)


def _b_list(eng, p, args, kw, node):
    if not args:
        return [(p, Tup([], True))]
    v = args[0]
    if isinstance(v, Tup):
        return [(p, Tup(v.items, True))]
    if isinstance(v, (Custom, Seq)):
        return [(p, v)]
    if isinstance(v, Opaque):
        return [(p, Opaque(("list", v.tag)))]
    raise Unsupported("list()")


def _abstract_quant(eng, p, h, is_any):
    r = eng.fresh("any" if is_any else "all", z3.BoolSort())
    e0 = z3.And(h.guard, eng.truth(h.elt, p)) if is_any else z3.Implies(h.guard, eng.truth(h.elt, p))
    # any(...) == exists member. elt ;  all(...) == forall member. elt   -- used instantiated at the arbitrary member
    # (only the universally quantified direction, which is a sound instantiation)
    p.axioms.append(z3.Implies(z3.Not(r), z3.Not(e0)) if is_any else z3.Implies(r, e0))
    return r


def _b_any(eng, p, args, kw, node, is_any=True):
    v = args[0]
    if isinstance(v, Tup):
        cs = [(_abstract_quant(eng, p, x.h, is_any) if isinstance(x, Custom) and isinstance(x.h, AbstractComp)
               else eng.truth(x, p)) for x in v.items]
        if is_any:
            return [(p, PyB(z3.Or(*cs) if cs else z3.BoolVal(False)))]
        return [(p, PyB(z3.And(*cs) if cs else z3.BoolVal(True)))]
    if isinstance(v, Custom) and isinstance(v.h, AbstractComp):
        return [(p, PyB(_abstract_quant(eng, p, v.h, is_any)))]
    if isinstance(v, Opaque):
        return [(p, PyB(eng.fresh("any", z3.BoolSort())))]
    raise Unsupported("any/all of " + type(v).__name__)


def _b_all(eng, p, args, kw, node):
    return _b_any(eng, p, args, kw, node, is_any=False)


def _b_enumerate(eng, p, args, kw, node):
    v = args[0]
    if isinstance(v, Tup):
        return [(p, Tup([Tup([PyI(i), x]) for i, x in enumerate(v.items)], True))]
    if isinstance(v, Custom) and hasattr(v.h, "enumerate"):
        r = v.h.enumerate(eng, p)
        return [(p, r)]
    if isinstance(v, (Custom, Opaque)):
        return [(p, Opaque(("enumerate", next(eng.counter))))]
    raise Unsupported("enumerate of " + type(v).__name__)


BUILTINS = {"map": _b_map, "reversed": _b_reversed, "any": _b_any, "all": _b_all, "enumerate": _b_enumerate, "len": _b_len, "isinstance": _b_isinstance, "print": _b_print, "int": _b_int,
            "max": _b_max, "min": _b_min, "list": _b_list}
