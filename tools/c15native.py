"""C15 native triage and spec validation for contracts/c15_assembly.py (part 1).
 (a) SPEC STEP of the contract, folded over CONCRETE pages (the same z3 terms, evaluated in a model that fixes DEF / REP / CNT / ROWS),
     against the independent oracle spec.assembly.assemble_leaf: every well-formed stream of <= MAXN entries, every page cut.
 (b) the compiled fastparquet.cencoding._assemble_objects driven page by page as core.read_col does, against the same fold: the
     deviations must lie exactly in the regions of the two findings recorded in contracts/findings.jsonl.
 (c) the two counter-models of the refuted obligations replayed natively."""
import itertools
import sys

sys.path.insert(0, '/verif')
sys.path.insert(0, '/repo')
import numpy as np
import z3

from contracts import c15_assembly as c
from spec.assembly import assemble_leaf
from fastparquet import cencoding

MAXN = int(sys.argv[1]) if len(sys.argv) > 1 else 4


def conc_rows(lst):
    """Rows over a concrete python list of rows (None | list of codes)"""
    def none(k):
        e = z3.BoolVal(True)
        for idx, r in enumerate(lst):
            e = z3.If(k == idx, z3.BoolVal(r is None), e)
        return e

    def ln(k):
        e = z3.IntVal(0)
        for idx, r in enumerate(lst):
            e = z3.If(k == idx, z3.IntVal(0 if r is None else len(r)), e)
        return e

    def elt(k, j):
        e = z3.IntVal(-99)
        for idx, r in enumerate(lst):
            for jj, x in enumerate(r or []):
                e = z3.If(z3.And(k == idx, j == jj), z3.IntVal(x), e)
        return e
    return c.Rows(none, ln, elt)


def spec_fold_page(rows_in, prev_i, defs, reps, null, null_val, use_dict, nrows):
    """fold the contract's SPEC STEP over one concrete page -> (python rows, R_final)"""
    s = c.Sym({"defi": True, "dict": use_dict})
    max_defi = null + 1 + null_val
    sol = z3.Solver()
    n = len(defs)
    sol.add(s.N == n, s.prev_i.iv == prev_i, s.null.iv == null, s.max_defi.iv == max_defi)
    cnt = rws = 0
    for k in range(n):
        sol.add(c.DEF(k) == defs[k], c.REP(k) == reps[k], c.CNT(k) == cnt, c.ROWS(k) == rws)
        cnt += defs[k] == max_defi
        rws += reps[k] == 0
    sol.add(c.CNT(n) == cnt, c.ROWS(n) == rws)
    assert sol.check() == z3.sat
    m = sol.model()
    S = conc_rows(rows_in)
    for k in range(n):
        S = c.spec_step(s, S, z3.IntVal(k))
    out = []
    for k in range(nrows):
        if z3.is_true(m.eval(S.none(z3.IntVal(k)), model_completion=True)):
            out.append(None)
        else:
            L = m.eval(S.ln(z3.IntVal(k)), model_completion=True).as_long()
            out.append([m.eval(S.elt(z3.IntVal(k), z3.IntVal(j)), model_completion=True).as_long() for j in range(L)])
    return out, prev_i + rws


def wf_streams(null, null_val, n):
    max_defi = null + 1 + null_val
    for defs in itertools.product(range(max_defi + 1), repeat=n):
        for reps in itertools.product((0, 1), repeat=n):
            if reps[0] != 0:
                continue
            if all(not (reps[k] == 1 and (defs[k] <= null or defs[k - 1] <= null)) for k in range(n)):
                yield list(defs), list(reps)


def cuts_of(n):
    for r in range(0, n):
        for cs in itertools.combinations(range(1, n), r):
            yield [0] + list(cs) + [n]


def native_pages(defs, reps, cuts, null, null_val, use_dict, nrows):
    max_defi = null + 1 + null_val
    assign = np.empty(nrows + 2, dtype=object)          # two spare slots: a store one row too far is visible, not a crash
    row_idx = 0
    vbase = 0
    for a, b in zip(cuts, cuts[1:]):
        pd, pr = defs[a:b], reps[a:b]
        nv = sum(1 for x in pd if x == max_defi)
        if use_dict:
            dic = np.array([1000 + vbase + j for j in range(nv)] + [0], dtype=object)[:nv] if nv else np.array([], dtype=object)
            val = np.arange(nv, dtype=np.int32)
        else:
            dic = None
            val = np.array([1000 + vbase + j for j in range(nv)], dtype=object)
        defi = np.array(pd, dtype=np.uint8) if any(x != max_defi for x in pd) else None
        try:
            row_idx = 1 + cencoding._assemble_objects(assign, defi, np.array(pr, dtype=np.uint8), val, dic, bool(use_dict), bool(null),
                                                     bool(null_val), max_defi, row_idx)
        except Exception as ex:
            return f"{type(ex).__name__}: {ex}", row_idx
        vbase += nv
    return [None if r is None else list(r) for r in assign[:nrows]] + ([] if all(x is None for x in assign[nrows:]) else ["<store beyond the rows>"]), row_idx


def spec_pages(defs, reps, cuts, null, null_val, use_dict, nrows):
    max_defi = null + 1 + null_val
    rows = [None] * nrows
    R = 0
    vbase = 0
    for a, b in zip(cuts, cuts[1:]):
        pd, pr = defs[a:b], reps[a:b]
        page_rows, R = spec_fold_page(rows, R, pd, pr, null, null_val, use_dict, nrows)
        # codes of THIS page (2v + d) -> chunk values; rows of earlier pages are already values (>= 1000) or None (-1 -> None)
        nv = sum(1 for x in pd if x == max_defi)
        conv = []
        for r_old, r_new in zip(rows, page_rows):
            if r_new is None:
                conv.append(None)
                continue
            keep = 0 if r_old is None else len(r_old)
            conv.append(list(r_new[:keep]) + [(-1 if x == -1 else 1000 + vbase + x // 2) for x in r_new[keep:]])
        rows = conv
        vbase += nv
    return [None if r is None else [None if x == -1 else x for x in r] for r in rows], R


def region(defs, reps, cuts, null, null_val):
    """which finding regions does this paged stream hit"""
    max_defi = null + 1 + null_val
    hit = set()
    for pi, (a, b) in enumerate(zip(cuts, cuts[1:])):
        pr, pd = reps[a:b], defs[a:b]
        if 0 not in pr:
            hit.add("continuation_only_page")
            continue
        f = pr.index(0)
        if f > 0 and all(x != max_defi for x in pd[:f]):
            hit.add("nulls_only_continuation")
    return hit


def main():
    n_spec = n_nat = n_dev = 0
    bad = []
    outside = []
    for null in (0, 1):
        for null_val in (0, 1):
            max_defi = null + 1 + null_val
            for n in range(1, MAXN + 1):
                for defs, reps in wf_streams(null, null_val, n):
                    nrows = reps.count(0)
                    want = assemble_leaf(defs, reps, [1000 + j for j in range(sum(1 for x in defs if x == max_defi))], max_defi, 1, null + 1)
                    for cuts in cuts_of(n):
                        for use_dict in (False, True):
                            got, R = spec_pages(defs, reps, cuts, null, null_val, use_dict, nrows)
                            n_spec += 1
                            if got != want or R != nrows:
                                bad.append((null, null_val, defs, reps, cuts, got, want))
                            nat, ridx = native_pages(defs, reps, cuts, null, null_val, use_dict, nrows)
                            n_nat += 1
                            if nat != want or ridx != nrows:
                                n_dev += 1
                                hit = region(defs, reps, cuts, null, null_val)
                                # the row-index defect is only visible to a LATER page; as the last page it is a wrong row_idx
                                if not hit:
                                    outside.append((null, null_val, defs, reps, cuts, nat, ridx, want))
    print(f"(a) SPEC STEP fold vs spec.assembly.assemble_leaf: {n_spec} paged streams, {len(bad)} mismatches")
    for b in bad[:5]:
        print("    MISMATCH", b)
    print(f"(b) compiled _assemble_objects vs the specification: {n_nat} paged streams, {n_dev} deviate, {len(outside)} outside the two finding regions")
    for b in outside[:5]:
        print("    OUTSIDE", b)
    # (c) the counter-models
    a = np.empty(3, dtype=object); a[0] = [1]
    r = cencoding._assemble_objects(a, np.array([2, 3], dtype=np.uint8), np.array([1, 0], dtype=np.uint8), np.array([7], dtype=object), None, False,
                                    True, True, 3, 1)
    print("(c1) nulls-only continuation: rep=[1,0] def=[2,3] max_defi=3 null=1 prev_i=1 assign[0]=[1], val=[7] ->", list(a), "ret", r,
          "| specification: [[1, None], [7], None] ret 1")
    a = np.empty(3, dtype=object); a[0] = [5]
    r = cencoding._assemble_objects(a, None, np.array([1], dtype=np.uint8), np.array([9], dtype=object), None, False, False, True, 2, 1)
    print("(c2) continuation-only page: rep=[1] def=None(max) max_defi=2 null=0 prev_i=1 assign[0]=[5], val=[9] ->", list(a), "ret", r,
          "| specification: [[5, 9], None, None] ret 0 (caller: row_idx = 1 + ret must stay 1)")
    # (c3) the safety consequence: rows [[1, 2], [3]] (2 rows) stored as three pages of one entry each, driven as core.read_col does
    a = np.empty(2 + 2, dtype=object)                    # 2 rows + 2 spare slots standing in for the memory after the array
    row_idx = 0
    for rep_, v in (([0], 1), ([1], 2), ([0], 3)):
        row_idx = 1 + cencoding._assemble_objects(a, None, np.array(rep_, dtype=np.uint8), np.array([v], dtype=object), None, False, False, False, 1, row_idx)
    print("(c3) [[1, 2], [3]] in pages [1] | [2] | [3], row group of 2 rows (+2 spare slots):", list(a), "row_idx", row_idx,
          "| the third page stored at index 2 == len(rows): with boundscheck=False that is a write past the array")
    files()
    return 1 if (bad or outside) else 0


def files():
    """(d) file-level replays of the refuted call-site / shape obligations (independent encoder spec.pqwrite -> fastparquet.to_pandas)"""
    import io
    import fastparquet
    from fastparquet import parquet_thrift as pt, schema
    from spec import pqwrite as W

    def read(col, rows, name, pages, dictionary=None):
        data = W.encode_file([col], [{name: rows}], {(0, name): W.ChunkLayout(pages=pages, dictionary=dictionary)})
        try:
            return list(fastparquet.ParquetFile(io.BytesIO(data)).to_pandas()[name])
        except Exception as ex:
            return f"{type(ex).__name__}: {str(ex)[:90]}"
    m = lambda name: W.MapSpec(name, W.ColumnSpec('key', 'BYTE_ARRAY', converted='UTF8'), W.ColumnSpec('value', 'INT64', optional=True), optional=True)
    rows = [[("a", 1), ("b", None)], None, [], [("c", 3)]]
    want = [{'a': 1, 'b': None}, None, {}, {'c': 3}]
    for name in ("m", "key", "value"):
        got = read(m(name), rows, name, [W.PageLayout(version=1, encoding='PLAIN')])
        norm = got if isinstance(got, str) else [None if r is None else {k: (None if v is None else int(v)) for k, v in r.items()} for r in got]
        print(f"(d1) map_zip: MAP column named {name!r}: {rows} ->", got)
        # repaired by 7dfae6b (fixed-C15-map-column-named-key): keys come from the 'key' leaf whatever the column is called
        assert norm == want, f"MAP column named {name!r}: keys / values not paired as stored: {got!r}"
    lst = lambda outer_opt, typ='INT32': W.ListSpec('c', W.ColumnSpec('element', typ, optional=True), optional=outer_opt)
    lrows = [[1, None], [], [7]]
    print("(d2) v2 null=True hard-coded, REQUIRED outer list, dictionary values:", lrows, "->",
          read(lst(False), lrows, 'c', [W.PageLayout(version=2, encoding='RLE_DICTIONARY')], 'auto'))
    print("     same rows, OPTIONAL outer list:", "->", read(lst(True), lrows, 'c', [W.PageLayout(version=2, encoding='RLE_DICTIONARY')], 'auto'))
    print("(d3) v2 page without nulls (defi unbound), OPTIONAL outer, dictionary values: [[1],[2,3]] ->",
          read(W.ListSpec('c', W.ColumnSpec('element', 'INT32', optional=False), optional=False), [[1], [2, 3]], 'c',
               [W.PageLayout(version=2, encoding='RLE_DICTIONARY')], 'auto'))
    for enc, typ, rr in (("PLAIN", 'INT32', [[1, 2], [3]]), ("DELTA_BINARY_PACKED", 'INT32', [[1, 2], [3]]), ("RLE", 'BOOLEAN', [[True, False], [True]])):
        try:
            out = read(W.ListSpec('c', W.ColumnSpec('element', typ, optional=True), optional=True), rr, 'c', [W.PageLayout(version=2, encoding=enc)])
        except Exception as ex:
            out = f"(encoder) {type(ex).__name__}: {ex}"
        print(f"(d4) v2 {enc} values, no record assembly on that branch: {rr} ->", out)

    def se(name, rep=None, ct=None, nch=None, typ=None):
        return pt.SchemaElement(name=name, repetition_type=rep, converted_type=ct, num_children=nch, type=typ)

    class O:
        pass
    c = O(); c.meta_data = O(); c.meta_data.path_in_schema = ["a", "list", "element"]
    h = schema.SchemaHelper([se("schema", nch=1), se("a", rep=2, ct=3, nch=1), se("list", rep=2, nch=1), se("element", rep=1, typ=1)])
    print("(d5) shape: REPEATED group annotated LIST: _is_list_like ->", schema._is_list_like(h, c), "max_repetition_level ->",
          h.max_repetition_level(c.meta_data.path_in_schema), "(the kernel handles one repetition level)")
    c.meta_data.path_in_schema = ["m", "key_value", "key"]
    h = schema.SchemaHelper([se("schema", nch=1), se("m", rep=2, ct=1, nch=1), se("key_value", rep=2, nch=2), se("key", rep=0, typ=1), se("value", rep=1, typ=1)])
    print("     REPEATED group annotated MAP: _is_map_like ->", schema._is_map_like(h, c), "max_repetition_level ->", h.max_repetition_level(c.meta_data.path_in_schema))


if __name__ == "__main__":
    sys.exit(main())
