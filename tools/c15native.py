"""C15 native triage and spec validation for contracts/c15_assembly.py (part 1).
 (a) SPEC STEP of the contract, folded over CONCRETE pages (the same z3 terms, evaluated in a model that fixes DEF / REP / CNT / ROWS),
     against the independent oracle spec.assembly.assemble_leaf: every well-formed stream of <= MAXN entries, every page cut.
 (b) the compiled fastparquet.cencoding._assemble_objects driven page by page as core.read_col does, against the same fold: the
     deviations must lie exactly in the regions of the two findings recorded in contracts/findings.jsonl.
 (c) the two counter-models of the refuted obligations replayed natively."""
import itertools
import sys

sys.path.insert(0, '/verif')
sys.path.insert(0, '/repo')
import numpy as np
import z3

from contracts import c15_assembly as c
from spec.assembly import assemble_leaf
from fastparquet import cencoding

MAXN = int(sys.argv[1]) if len(sys.argv) > 1 else 4


def conc_rows(lst):
    """Rows over a concrete python list of rows (None | list of codes)"""
    def none(k):
        e = z3.BoolVal(True)
        for idx, r in enumerate(lst):
            e = z3.If(k == idx, z3.BoolVal(r is None), e)
        return e

    def ln(k):
        e = z3.IntVal(0)
        for idx, r in enumerate(lst):
            e = z3.If(k == idx, z3.IntVal(0 if r is None else len(r)), e)
        return e

    def elt(k, j):
        e = z3.IntVal(-99)
        for idx, r in enumerate(lst):
            for jj, x in enumerate(r or []):
                e = z3.If(z3.And(k == idx, j == jj), z3.IntVal(x), e)
        return e
    return c.Rows(none, ln, elt)


def spec_fold_page(rows_in, prev_i, defs, reps, null, null_val, use_dict, nrows):
    """fold the contract's SPEC STEP over one concrete page -> (python rows, R_final)"""
    s = c.Sym({"defi": True, "dict": use_dict})
    max_defi = null + 1 + null_val
    sol = z3.Solver()
    n = len(defs)
    sol.add(s.N == n, s.prev_i.iv == prev_i, s.null.iv == null, s.max_defi.iv == max_defi)
    cnt = rws = 0
    for k in range(n):
        sol.add(c.DEF(k) == defs[k], c.REP(k) == reps[k], c.CNT(k) == cnt, c.ROWS(k) == rws)
        cnt += defs[k] == max_defi
        rws += reps[k] == 0
    sol.add(c.CNT(n) == cnt, c.ROWS(n) == rws)
    assert sol.check() == z3.sat
    m = sol.model()
    S = conc_rows(rows_in)
    for k in range(n):
        S = c.spec_step(s, S, z3.IntVal(k))
    out = []
    for k in range(nrows):
        if z3.is_true(m.eval(S.none(z3.IntVal(k)), model_completion=True)):
            out.append(None)
        else:
            L = m.eval(S.ln(z3.IntVal(k)), model_completion=True).as_long()
            out.append([m.eval(S.elt(z3.IntVal(k), z3.IntVal(j)), model_completion=True).as_long() for j in range(L)])
    return out, prev_i + rws


def wf_streams(null, null_val, n):
    max_defi = null + 1 + null_val
    for defs in itertools.product(range(max_defi + 1), repeat=n):
        for reps in itertools.product((0, 1), repeat=n):
            if reps[0] != 0:
                continue
            if all(not (reps[k] == 1 and (defs[k] <= null or defs[k - 1] <= null)) for k in range(n)):
                yield list(defs), list(reps)


def cuts_of(n):
    for r in range(0, n):
        for cs in itertools.combinations(range(1, n), r):
            yield [0] + list(cs) + [n]


def decode(rows, vals_by_page_base, use_dict):
    """element codes -> python values: code 2v(+1) = value v of the chunk's stream (page-relative index + base handled by caller)"""
    return rows


def native_pages(defs, reps, cuts, null, null_val, use_dict, nrows):
    max_defi = null + 1 + null_val
    assign = np.empty(nrows + 2, dtype=object)          # two spare slots: a store one row too far is visible, not a crash
    row_idx = 0
    vbase = 0
    for a, b in zip(cuts, cuts[1:]):
        pd, pr = defs[a:b], reps[a:b]
        nv = sum(1 for x in pd if x == max_defi)
        if use_dict:
            dic = np.array([1000 + vbase + j for j in range(nv)] + [0], dtype=object)[:nv] if nv else np.array([], dtype=object)
            val = np.arange(nv, dtype=np.int32)
        else:
            dic = None
            val = np.array([1000 + vbase + j for j in range(nv)], dtype=object)
        defi = np.array(pd, dtype=np.uint8) if any(x != max_defi for x in pd) else None
        try:
            row_idx = 1 + cencoding._assemble_objects(assign, defi, np.array(pr, dtype=np.uint8), val, dic, bool(use_dict), bool(null),
                                                     bool(null_val), max_defi, row_idx)
        except Exception as ex:
            return f"{type(ex).__name__}: {ex}", row_idx
        vbase += nv
    return [None if r is None else list(r) for r in assign[:nrows]] + ([] if all(x is None for x in assign[nrows:]) else ["<store beyond the rows>"]), row_idx


def spec_pages(defs, reps, cuts, null, null_val, use_dict, nrows):
    max_defi = null + 1 + null_val
    rows = [None] * nrows
    R = 0
    vbase = 0
    for a, b in zip(cuts, cuts[1:]):
        pd, pr = defs[a:b], reps[a:b]
        page_rows, R = spec_fold_page(rows, R, pd, pr, null, null_val, use_dict, nrows)
        # codes of THIS page (2v + d) -> chunk values; rows of earlier pages are already values (>= 1000) or None (-1 -> None)
        nv = sum(1 for x in pd if x == max_defi)
        conv = []
        for r_old, r_new in zip(rows, page_rows):
            if r_new is None:
                conv.append(None)
                continue
            keep = 0 if r_old is None else len(r_old)
            conv.append(list(r_new[:keep]) + [(-1 if x == -1 else 1000 + vbase + x // 2) for x in r_new[keep:]])
        rows = conv
        vbase += nv
    return [None if r is None else [None if x == -1 else x for x in r] for r in rows], R


def region(defs, reps, cuts, null, null_val):
    """which finding regions does this paged stream hit"""
    max_defi = null + 1 + null_val
    hit = set()
    for pi, (a, b) in enumerate(zip(cuts, cuts[1:])):
        pr, pd = reps[a:b], defs[a:b]
        if 0 not in pr:
            hit.add("continuation_only_page")
            continue
        f = pr.index(0)
        if f > 0 and all(x != max_defi for x in pd[:f]):
            hit.add("nulls_only_continuation")
    return hit


def main():
    n_spec = n_nat = n_dev = 0
    bad = []
    outside = []
    for null in (0, 1):
        for null_val in (0, 1):
            max_defi = null + 1 + null_val
            for n in range(1, MAXN + 1):
                for defs, reps in wf_streams(null, null_val, n):
                    nrows = reps.count(0)
                    want = assemble_leaf(defs, reps, [1000 + j for j in range(sum(1 for x in defs if x == max_defi))], max_defi, 1, null + 1)
                    for cuts in cuts_of(n):
                        for use_dict in (False, True):
                            got, R = spec_pages(defs, reps, cuts, null, null_val, use_dict, nrows)
                            n_spec += 1
                            if got != want or R != nrows:
                                bad.append((null, null_val, defs, reps, cuts, got, want))
                            nat, ridx = native_pages(defs, reps, cuts, null, null_val, use_dict, nrows)
                            n_nat += 1
                            if nat != want or ridx != nrows:
                                n_dev += 1
                                hit = region(defs, reps, cuts, null, null_val)
                                # the row-index defect is only visible to a LATER page; as the last page it is a wrong row_idx
                                if not hit:
                                    outside.append((null, null_val, defs, reps, cuts, nat, ridx, want))
    print(f"(a) SPEC STEP fold vs spec.assembly.assemble_leaf: {n_spec} paged streams, {len(bad)} mismatches")
    for b in bad[:5]:
        print("    MISMATCH", b)
    print(f"(b) compiled _assemble_objects vs the specification: {n_nat} paged streams, {n_dev} deviate, {len(outside)} outside the two finding regions")
    for b in outside[:5]:
        print("    OUTSIDE", b)
    # (c) the counter-models
    a = np.empty(3, dtype=object); a[0] = [1]
    r = cencoding._assemble_objects(a, np.array([2, 3], dtype=np.uint8), np.array([1, 0], dtype=np.uint8), np.array([7], dtype=object), None, False,
                                    True, True, 3, 1)
    print("(c1) nulls-only continuation: rep=[1,0] def=[2,3] max_defi=3 null=1 prev_i=1 assign[0]=[1], val=[7] ->", list(a), "ret", r,
          "| specification: [[1, None], [7], None] ret 1")
    a = np.empty(3, dtype=object); a[0] = [5]
    r = cencoding._assemble_objects(a, None, np.array([1], dtype=np.uint8), np.array([9], dtype=object), None, False, False, True, 2, 1)
    print("(c2) continuation-only page: rep=[1] def=None(max) max_defi=2 null=0 prev_i=1 assign[0]=[5], val=[9] ->", list(a), "ret", r,
          "| specification: [[5, 9], None, None] ret 0 (caller: row_idx = 1 + ret must stay 1)")
    return 1 if (bad or outside) else 0


if __name__ == "__main__":
    sys.exit(main())
