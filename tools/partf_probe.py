"""probe for contracts/c02_partfiles.py:  partf_probe.py [mpf|wcm|pfwcm|multi|wrg|write|all]"""
import sys, time; sys.path.insert(0, '/verif')
from vlib.common import Ctx
from vc.front_py import parse_module
from contracts import c02_partfiles as M
what = sys.argv[1] if len(sys.argv) > 1 else "all"
ctx = Ctx('C02')
t = time.time()
out = M.check(ctx, 10000, parts=None if what == "all" else (what,))
n = {"proved": 0, "refuted": 0, "unknown": 0}
for res in out:
    for nm in res.order:
        st = res.status(nm); n[st] += 1
        mark = "" if st == "proved" else "   <<<<<<"
        print(f"{st:8s} {nm}  [{len(res.d[nm])}]{mark}")
        if st != "proved":
            for e in res.d[nm]:
                if e[0] != "proved": print("        ", e[0], str(e[1])[:300], "|", (e[4] or "")[:120]); break
print(n, "%.1fs" % (time.time() - t), "engine_errors:", ctx.engine_errors, "vacuity", ctx.vacuity)
