"""probe: run contracts/c03_pages.py standalone and print the obligations"""
import sys, time, collections
sys.path.insert(0, '/verif')
from contracts import c03_pages
from vlib.common import PROVED, REFUTED, UNKNOWN


class Ctx:
    def __init__(self):
        self.vacuity = collections.Counter()
        self.errors = []

    def function(self, *a):
        pass

    def engine_error(self, s):
        self.errors.append(s)
        print("ENGINE-ERROR", s)


if __name__ == "__main__":
    parts = tuple(sys.argv[1:]) or ("dictionary_page", "data_page_v1", "data_page_v2", "read_col")
    ctx = Ctx()
    t = time.time()
    allres = c03_pages.check(ctx, 10000, parts=parts)
    n = collections.Counter()
    for res in allres:
        print("----", getattr(res, "stats", None))
        for name in res.order:
            st = res.status(name)
            n[st] += 1
            es = res.d[name]
            print(f"{st:8s} {name}   [{len(es)} path(s), {sum(e[2] for e in es):.2f}s]")
            if st != PROVED:
                e = next(x for x in es if x[0] == st)
                print("          ", (e[4] or "")[:160])
                print("          model:", str(e[1])[:900])
    print(dict(n), "vacuity", dict(ctx.vacuity), f"{time.time()-t:.1f}s")
