#!/bin/bash
# run every registered thorough check (2 at a time), summarise into /verif/out/thorough_summary.txt
cd /verif
ids=$(python3 -c "import json; print(' '.join(c['property_id'] for c in json.load(open('MANIFEST.json'))['checks']))")
run() { p=$1; s=$(date +%s); ./check $p --tier thorough > /verif/out/th_$p.log 2>&1; rc=$?; e=$(date +%s); echo "$p rc=$rc viol=$(grep -c ^VIOLATION /verif/out/th_$p.log) err=$(grep -c ENGINE-ERROR /verif/out/th_$p.log) $((e-s))s"; }
export -f run
echo $ids | tr ' ' '\n' | xargs -P 2 -I{} bash -c 'run {}' | tee /verif/out/thorough_summary.txt
