#!/bin/bash
# tools/seed_eval_all.sh C03-m1 C03-m2 ...   (summary line per seed)
cd /verif
for s in "$@"; do p=${s%-*}; m=${s#*-}; python3 tools/seed_eval.py /tmp/seed/$p-out/$m $s 2>&1 | python3 -c "
import sys,json
t=sys.stdin.read()
try:
    j=json.loads(t[t.index('{'):])
    print(j['seed'], 'demo', j['demo_clean_rc'], j.get('demo_patched_rc'), {k:(v['rc'],v['violations'],v['secs']) for k,v in j['checks'].items()}, ((list(j['checks'].values()) or [{'first':['']}])[0]['first'] or [''])[0][:220])
except Exception as e: print('EVAL-ERROR', t[-500:])"; done
