"""Native triage of the refutations of contracts/c02_partfiles.py on the unchanged tree (runs the REAL functions on the counter-models).
   partf_native.py            -> prints one line per finding (REPRODUCED) / repaired defect (REPAIRED), exit 0 if every one is as recorded"""
import io, os, shutil, sys, tempfile
sys.path.insert(0, os.environ.get("VERIF_REPO", "/repo"))
import pandas as pd
from fastparquet import write, ParquetFile, writer

df = pd.DataFrame({"x": [1, 2, 3, 4, 5]})
ok = True


def ls(d):
    return sorted((os.path.relpath(os.path.join(r, f), d), os.path.getsize(os.path.join(r, f))) for r, _, fs in os.walk(d) for f in fs)


def case(title, fn, expect):
    global ok
    d = tempfile.mkdtemp(prefix="partf-native-")
    try:
        got = fn(d)
    finally:
        shutil.rmtree(d, ignore_errors=True)
    good = expect(got)
    ok = ok and good
    print(("REPRODUCED " if good else "NOT REPRODUCED ") + title + " -> " + str(got))


def repaired(title, fn, expect):
    global ok
    d = tempfile.mkdtemp(prefix="partf-native-")
    try:
        got = fn(d)
    finally:
        shutil.rmtree(d, ignore_errors=True)
    good = expect(got)
    ok = ok and good
    print(("REPAIRED " if good else "STILL BROKEN ") + title + " -> " + str(got))


# fixed-C02-empty-frame-zero-byte-part-file / fixed-C07-empty-frame-append-crashes (f7aae56): a frame without rows is skipped BEFORE a
# part file is opened: no exception, no 0-byte file, the other frames are written in order, the summary is written
def empty_fresh(d):
    try:
        write(d, df, file_scheme="hive", row_group_offsets=[0, 5])
    except Exception as e:
        return (type(e).__name__, str(e), ls(d))
    return ("no exception", ls(d), "rows read", len(ParquetFile(d).to_pandas()))


def empty_append(d):
    write(d, df, file_scheme="hive")
    try:
        ParquetFile(d).write_row_groups([df, df.iloc[0:0], df])
    except Exception as e:
        return (type(e).__name__, str(e), ls(d))
    pf = ParquetFile(d)
    return ("no exception", ls(d), "rows read", len(pf.to_pandas()), "paths", [rg.columns[0].file_path for rg in pf.row_groups])


repaired("hive write, row_group_offsets=[0, 5] on 5 rows (second frame empty)", empty_fresh,
         lambda g: g[0] == "no exception" and [n for n, _ in g[1]] == ["_common_metadata", "_metadata", "part.0.parquet"]
         and all(sz > 0 for _, sz in g[1]) and g[3] == 5)
repaired("append of [frame, empty frame, frame] through write_row_groups", empty_append,
         lambda g: g[0] == "no exception" and all(sz > 0 for _, sz in g[1]) and g[3] == 15
         and g[5] == ["part.0.parquet", "part.1.parquet", "part.3.parquet"])


# C02-P-make-part-file-empty-frame-leaves-file-empty (still known): make_part_file itself: len(data) == 0 -> None, nothing written into the (already created) file
def mpf_empty(d):
    fmd = writer.make_metadata(df)
    f = io.BytesIO()
    r = writer.make_part_file(f, df.iloc[0:0], fmd.schema, fmd=fmd)
    return (r, len(f.getvalue()))


case("make_part_file(f, empty frame): returns None, file stays 0 bytes", mpf_empty, lambda g: g == (None, 0))


# C02-P-make-part-file-default-fmd-raises (still known): counter-model len(data) == 1.., fmd is None
def mpf_nofmd(d):
    fmd = writer.make_metadata(df)

    class F(io.BytesIO):
        def close(self):
            pass
    f = F()
    try:
        writer.make_part_file(f, df, fmd.schema)
    except TypeError as e:
        return ("TypeError", str(e), "bytes in the file", len(f.getvalue()))
    return ("no exception", len(f.getvalue()))


case("make_part_file(f, df, schema) with the default fmd=None", mpf_nofmd, lambda g: g[0] == "TypeError" and g[3] > 4)


# fixed-C02-summary-truncated-before-validation (4f80931): a key-value entry whose value is not text when the summary is rewritten is
# refused BEFORE the summary file is opened: _metadata keeps its bytes and the dataset still opens (before the fix: b'PAR1', unopenable)
def trunc(how):
    def run(d):
        write(d, df, file_scheme="hive", row_group_offsets=[0, 3])
        before = open(d + "/_metadata", "rb").read()
        files = ls(d)
        pf = ParquetFile(d)
        writer.update_custom_metadata(pf, {"k": 5})
        try:
            how(pf)
        except TypeError as e:
            after = open(d + "/_metadata", "rb").read()
            try:
                rows = len(ParquetFile(d).to_pandas())
            except Exception as e2:
                rows = "does not open: " + type(e2).__name__
            return ("TypeError", str(e), "summary unchanged", after == before, "bytes", len(after), "rows read", rows, "files kept", ls(d) == files)
        return ("no exception",)
    return run


repaired("update_custom_metadata(pf, {'k': 5}); pf._write_common_metadata()", trunc(lambda pf: pf._write_common_metadata()),
         lambda g: g[0] == "TypeError" and g[3] is True and g[7] == 5 and g[9] is True)
repaired("update_custom_metadata(pf, {'k': 5}); pf.write_row_groups([])", trunc(lambda pf: pf.write_row_groups([])),
         lambda g: g[0] == "TypeError" and g[3] is True and g[7] == 5 and g[9] is True)

# C09-P-remove-row-groups-swallows-failed-removal (known): a failing remove_with is swallowed, the files stay, unreferenced
def rm_swallowed(d):
    write(d, pd.DataFrame({"x": range(6)}), file_scheme="hive", row_group_offsets=[0, 3])
    pf = ParquetFile(d)

    def failing(paths):
        raise OSError(13, "permission denied (injected)", paths[0])
    try:
        pf.remove_row_groups(pf.row_groups[0], remove_with=failing)
    except Exception as e:
        return (type(e).__name__, str(e))
    return ("no exception", sorted(os.listdir(d)), "referenced", [rg.columns[0].file_path for rg in ParquetFile(d).row_groups])


case("remove_row_groups with a remove_with that raises OSError", rm_swallowed,
     lambda g: g[0] == "no exception" and "part.0.parquet" in g[1] and g[3] == ["part.1.parquet"])
sys.exit(0 if ok else 1)
