#!/usr/bin/env python3
"""Probe (developer tool): run only the boolean-category cases of runtime/c01_roundtrip and tabulate verdicts by
(read mode, optional, null pattern, page version): .venv/bin/python tools/bstr_c01_probe.py [quick|thorough]"""
import sys, re
sys.path.insert(0, "/verif")
from collections import Counter, defaultdict
from runtime import c01_roundtrip as M, datasets as D
tier = sys.argv[1] if len(sys.argv) > 1 else "quick"
cases = [c for c in M.enumerate_cases(tier) if c["dtype"] in D.BOOL_CATEGORICALS]
tab = defaultdict(Counter)
ex = {}
for f, r in M.run_cases(cases):
    if r["status"] == "write_raised":
        v = "write_raised"
    else:
        w = r.get("cells")
        v = "ok" if not w else re.sub(r"row \d+|index \d+|size \d+|: (True|False|nan|None) instead of (True|False|nan|None)", "", w)[:60]
    key = (f["read"], f["optional"], "nulls" if f["nulls"] != "none" else "none", f["page_version"], f["codec"] == "LZ4", f["rows"] == 0)
    tab[key][v] += 1
    ex.setdefault((key, v), (f, r.get("cells") or r.get("what")))
for k in sorted(tab, key=str):
    print(k, dict(tab[k]))
if "-v" in sys.argv:
    for (k, v), (f, w) in ex.items():
        if v != "ok":
            print(k, v, "\n   ", f, "\n   ", w)
