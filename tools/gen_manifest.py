#!/usr/bin/env python3
"""Regenerate /verif/MANIFEST.json from the table below (one place to keep claims honest)."""
import json, os
V = os.path.dirname(os.path.dirname(os.path.abspath(__file__)))
CLAIMS = json.load(open(os.path.join(V, "tools", "claims.json")))
checks = []
for pid, c in sorted(CLAIMS["checks"].items()):
    checks.append({
        "property_id": pid,
        "quick_cmd": f"./check {pid} --tier quick",
        "thorough_cmd": f"./check {pid} --tier thorough",
        "evidence_file": f"evidence/{pid}.json",
        "replay_cmd_template": f"./check {pid} --replay {{path}}",
        "engine": c.get("engine", "vcgen+bounded"),
        "level_claimed": {"category": c["category"], "text": c["text"], "design_ref": c.get("design_ref", "DESIGN.md section 5 " + pid)},
        "level_note": c["note"],
        "technique": c["technique"],
    })
m = {
    "version": 1,
    "setup_cmd": "./setup.sh",
    "hooks": {"guard": "FASTPARQUET_VERIF",
              "enable": "no source line reads the guard: contracts are sidecar files under /verif/contracts and run-time contracts are attached by wrapping/monkey-patching in the check process; nothing in /repo is instrumented",
              "baseline_off_cmd": "cd /repo && /venv/bin/python -m pytest -ra -q -p no:cacheprovider --timeout=900 --continue-on-collection-errors",
              "source_commits": [], "add_only": True},
    "engines": [
        {"name": "vcgen", "path": "vc/", "serves_properties": sorted(p for p, c in CLAIMS["checks"].items() if "P" in c.get("layers", "")),
         "kind_free_text": "own verification-condition generator: ast of the real /repo source (Python; Cython through a mechanical normaliser) -> path-wise symbolic execution with sidecar contracts -> z3 (cvc5 on unknown)"},
        {"name": "bounded", "path": "runtime/", "serves_properties": sorted(p for p, c in CLAIMS["checks"].items() if "B" in c.get("layers", "")),
         "kind_free_text": "bounded stand-in: run-time contracts on the real functions over enumerated inputs with a stated bound; oracles from spec/ (independent Parquet reader/writer, IDL-driven Thrift codec); never counted as proved"},
    ],
    "checks": checks,
    "not_applicable": CLAIMS["not_applicable"],
    "notes": CLAIMS.get("notes", ""),
}
json.dump(m, open(os.path.join(V, "MANIFEST.json"), "w"), indent=1)
print("checks:", [c["property_id"] for c in checks], "n/a:", [n["property_id"] for n in m["not_applicable"]])
