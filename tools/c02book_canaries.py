#!/usr/bin/env python3
"""Canaries of the bookkeeping contract: like tools/mut.py --file canaries/C02.json, but the check that is run on the scratch copy
is the stand-alone driver tools/c02book_check.py (P part only).  Known findings: KNOWN_FINDINGS.jsonl + contracts/findings.jsonl
lines not merged yet (written to a temporary file, VERIF_KNOWN_FILE)."""
import json, os, shutil, subprocess, sys, tempfile
V = os.path.dirname(os.path.dirname(os.path.abspath(__file__)))
REPO = "/repo"


def known_file():
    ids, lines = set(), []
    for f in (os.path.join(V, "KNOWN_FINDINGS.jsonl"), os.path.join(V, "contracts", "findings.jsonl")):
        for l in open(f):
            l = l.strip()
            if l and not l.startswith("#"):
                r = json.loads(l)
                if r["id"] not in ids:
                    ids.add(r["id"])
                    r.setdefault("status", "known")
                    lines.append(json.dumps(r))
    t = tempfile.NamedTemporaryFile("w", suffix=".jsonl", delete=False)
    t.write("\n".join(lines) + "\n")
    t.close()
    return t.name


def main():
    files = sys.argv[1:] or [os.path.join(V, "canaries", "C02.json")]
    kf = known_file()
    bad = 0
    for fjson in files:
        for c in json.load(open(fjson)):
            d = tempfile.mkdtemp(prefix="verif-canary-")
            try:
                shutil.copytree(os.path.join(REPO, "fastparquet"), os.path.join(d, "fastparquet"),
                                ignore=shutil.ignore_patterns("__pycache__", "test", "benchmarks"))
                err = None
                for rel, old, new in c["edits"]:
                    p = os.path.join(d, rel)
                    s = open(p).read()
                    if s.count(old) != 1:
                        err = f"edit does not apply uniquely ({s.count(old)} matches): {old[:60]!r}"
                        break
                    open(p, "w").write(s.replace(old, new))
                if err:
                    print(f"[canary {c['name']}] NOT APPLICABLE: {err}")
                    bad += 1
                    continue
                env = dict(os.environ, VERIF_REPO=d, VERIF_EVIDENCE_DIR=os.path.join(d, "evidence"), VERIF_REPLAY_DIR=os.path.join(d, "replays"),
                           VERIF_KNOWN_FILE=kf, PYTHONDONTWRITEBYTECODE="1", PYTHONHASHSEED="0")
                r = subprocess.run([os.path.join(V, ".venv/bin/python"), os.path.join(V, "tools", "c02book_check.py"), c["prop"]],
                                   capture_output=True, text=True, env=env, cwd=V)
                viol = [l for l in r.stdout.splitlines() if l.startswith("VIOLATION")]
                detail = [l for l in r.stdout.splitlines() if l.startswith("  obligation")]
                got = "violation" if r.returncode == 1 and viol else "clean" if r.returncode == 0 else f"rc={r.returncode}"
                ok = got == c.get("expect", "violation")
                print(f"[canary {c['name']}] prop={c['prop']} expect={c.get('expect', 'violation')} got={got} {'OK' if ok else 'MISMATCH'}")
                for l in detail[:4]:
                    print("     ", l.strip()[:200])
                if r.returncode == 3:
                    print("      stderr:", r.stderr.strip().splitlines()[-1][:300] if r.stderr.strip() else "")
                bad += 0 if ok else 1
            finally:
                shutil.rmtree(d, ignore_errors=True)
    os.unlink(kf)
    sys.exit(1 if bad else 0)


if __name__ == "__main__":
    main()
