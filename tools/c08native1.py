import sys, tempfile, os, shutil, warnings
warnings.filterwarnings("ignore")
sys.path.insert(0, "/repo")
import numpy as np, pandas as pd
from fastparquet import write, ParquetFile
d = tempfile.mkdtemp()
root = os.path.join(d, "ds")
df = pd.DataFrame({"k": pd.Series(["007", "12"], dtype="str"), "v": [1, 2]})
write(root, df, file_scheme="hive", partition_on=["k"])
pf = ParquetFile(root); print("with _metadata:", pf.file_scheme, dict(pf.cats), pf.to_pandas().to_dict("list"))
os.unlink(os.path.join(root, "_metadata")); os.unlink(os.path.join(root, "_common_metadata"))
pf = ParquetFile(root); print("dir without _metadata:", pf.file_scheme, dict(pf.cats), pf.to_pandas().to_dict("list"))
print(" partition_meta:", pf.partition_meta)
f = os.path.join(root, "k=007", "part.0.parquet")
pf = ParquetFile(f, root=root); print("single file + root:", pf.file_scheme, dict(pf.cats))
try:
    print(pf.to_pandas().to_dict("list"))
except Exception as e:
    print(" EXC", type(e).__name__, e)
shutil.rmtree(d)
