#!/usr/bin/env python3
"""Canary / mutation driver: apply a textual change to a SCRATCH COPY of /repo's source (outside /repo and
/verif), run a check against the copy (env VERIF_REPO), report whether it raised, remove the copy.

  tools/mut.py C05 'fastparquet/api.py' 'old text' 'new text' [more triples...]
  tools/mut.py --file canaries/C05.json        # [{"name":..,"prop":..,"edits":[[file,old,new],..],"expect":"violation"|"clean"}]
Exit 0 if every canary behaved as expected."""
import json
import os
import shutil
import subprocess
import sys
import tempfile

VERIF = os.path.dirname(os.path.dirname(os.path.abspath(__file__)))
REPO = "/repo"


def run_canary(prop, edits, tier="quick", env_extra=None, quiet=True):
    d = tempfile.mkdtemp(prefix="verif-canary-")
    try:
        shutil.copytree(os.path.join(REPO, "fastparquet"), os.path.join(d, "fastparquet"),
                        ignore=shutil.ignore_patterns("__pycache__", "test", "benchmarks"))
        for rel, old, new in edits:
            p = os.path.join(d, rel)
            s = open(p).read()
            if s.count(old) != 1:
                return None, f"edit does not apply uniquely ({s.count(old)} matches) in {rel}: {old[:50]!r}"
            open(p, "w").write(s.replace(old, new))
        env = dict(os.environ, VERIF_REPO=d, VERIF_EVIDENCE_DIR=os.path.join(d, "evidence"),
                   VERIF_REPLAY_DIR=os.path.join(d, "replays"), **(env_extra or {}))
        r = subprocess.run([os.path.join(VERIF, "check"), prop, "--tier", tier], capture_output=True, text=True, env=env)
        viol = [l for l in r.stdout.splitlines() if l.startswith("VIOLATION")]
        detail = [l for l in r.stdout.splitlines() if l.startswith("  obligation")]
        return (r.returncode, viol, detail, r.stderr[-800:] if r.returncode == 3 else ""), None
    finally:
        shutil.rmtree(d, ignore_errors=True)


def main():
    a = sys.argv[1:]
    if a[0] == "--file":
        canaries = json.load(open(a[1]))
    else:
        prop, rest = a[0], a[1:]
        canaries = [{"name": "cli", "prop": prop, "edits": [rest[i:i + 3] for i in range(0, len(rest), 3)], "expect": "violation"}]
    bad = 0
    for c in canaries:
        res, err = run_canary(c["prop"], c["edits"], c.get("tier", "quick"), c.get("env"))
        if err:
            print(f"[canary {c['name']}] NOT APPLICABLE: {err}")
            bad += 1
            continue
        rc, viol, detail, stderr = res
        got = "violation" if rc == 1 and viol else "clean" if rc == 0 else f"rc={rc}"
        ok = got == c.get("expect", "violation")
        print(f"[canary {c['name']}] expect={c.get('expect', 'violation')} got={got} {'OK' if ok else 'MISMATCH'}")
        for l in (detail or viol)[:3]:
            print("     ", l.strip()[:220])
        if stderr:
            print("     stderr:", stderr.strip().splitlines()[-1][:300])
        bad += 0 if ok else 1
    sys.exit(1 if bad else 0)


if __name__ == "__main__":
    main()
