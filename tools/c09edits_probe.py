import sys, time; sys.path.insert(0,'/verif')
from vlib.common import Ctx
from contracts import c09_edits
ctx=Ctx('C09')
t=time.time()
only = sys.argv[1:] 
for res in c09_edits.check(ctx, 10000, only=only or None):
    for n in res.order:
        print(f"{res.status(n):8s} {n}  x{len(res.d[n])}", [str(e[1])[:300] for e in res.d[n] if e[1]][:1], [e[4] for e in res.d[n] if e[0]!='proved'][:1])
print('engine errors', ctx.engine_errors, 'vacuity', ctx.vacuity, 'secs %.1f' % (time.time()-t))
