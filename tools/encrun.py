"""run every task of contracts/c11_encoders.py in the pool; print status counts, non-proved obligations, native replays.
   VERIF_REPO=<scratch copy> selects another source tree (mutation testing)."""
import sys, time, json
sys.path.insert(0, '/verif')
from contracts import c11_encoders as E
from vlib.common import PROVED, REFUTED, UNKNOWN, REPO

t0 = time.time()
only = None
for a in sys.argv[1:]:
    if a.startswith("only="):
        only = set(a[5:].split(","))
results = E.run_all("quick", only)
cnt = {PROVED: 0, REFUTED: 0, UNKNOWN: 0}
bad = []
slow = []
for label, order, d, kinds, err, secs in results:
    slow.append((secs, label))
    if err:
        print("TASK ERROR", label, err)
        continue
    for name in order:
        sts = [e[0] for e in d[name]]
        st = REFUTED if REFUTED in sts else UNKNOWN if UNKNOWN in sts else PROVED
        cnt[st] += 1
        if st != PROVED:
            e = next(x for x in d[name] if x[0] == st)
            bad.append((st, kinds.get(name), name, e[1], e[4]))
print(cnt, "wall %.1fs" % (time.time() - t0), "cpu %.1fs" % sum(s for s, _ in slow), "slowest", sorted(slow, reverse=True)[:4])
for st, kind, name, model, detail in bad:
    print(f"  {st:8s} {kind:10s} {name}  {json.dumps(model)[:160] if model else ''}")
if "-replay" in sys.argv:
    seen = set()
    for st, kind, name, model, detail in bad:
        if st != REFUTED:
            continue
        ok, text, prog = E.replay(name, model or {}, REPO)
        key = text
        if key in seen:
            continue
        seen.add(key)
        print("REPLAY", name, "->", "CONFIRMED" if ok else "not confirmed", text[:700])
