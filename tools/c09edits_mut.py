"""Run the C09 edit contracts (contracts/c09_edits.py via props/_edits.p_edits when present) against a scratch copy of /repo with
the edits of canaries/C09.json applied: the stand-alone counterpart of tools/mut.py for a P part that is not wired into
props/C09.py yet.   tools/c09edits_mut.py [canary-name ...]"""
import json, os, shutil, subprocess, sys, tempfile
V = os.path.dirname(os.path.dirname(os.path.abspath(__file__)))
RUN = r'''
import sys, os; sys.path.insert(0, %r)
from vlib.common import Ctx, REFUTED, UNKNOWN
from props._edits import p_edits
ctx = Ctx("C09")
p_edits(ctx)
bad = [o for o in ctx.obligations if o["status"] == REFUTED]
unk = [o for o in ctx.obligations if o["status"] == UNKNOWN]
for o in bad: print("REFUTED", o["name"])
for o in unk: print("UNKNOWN", o["name"], (o.get("detail") or "")[:200])
print("N", len(ctx.obligations), "violations", len(ctx.violations), "errors", ctx.engine_errors)
''' % V
def main():
    want = sys.argv[1:]
    bad = 0
    for c in json.load(open(os.path.join(V, "canaries", "C09.json"))):
        if want and c["name"] not in want:
            continue
        d = tempfile.mkdtemp(prefix="verif-c09-")
        try:
            shutil.copytree("/repo/fastparquet", os.path.join(d, "fastparquet"), ignore=shutil.ignore_patterns("__pycache__", "test", "benchmarks"))
            err = None
            for rel, old, new in c["edits"]:
                s = open(os.path.join(d, rel)).read()
                if s.count(old) != 1:
                    err = f"edit does not apply uniquely ({s.count(old)}) {old[:40]!r}"
                    break
                open(os.path.join(d, rel), "w").write(s.replace(old, new))
            if err:
                print(f"[canary {c['name']}] NOT APPLICABLE {err}"); bad += 1; continue
            env = dict(os.environ, VERIF_REPO=d, VERIF_EVIDENCE_DIR=os.path.join(d, "ev"), VERIF_REPLAY_DIR=os.path.join(d, "rp"),
                       VERIF_KNOWN_FILE=os.environ.get("VERIF_KNOWN_FILE", os.path.join(V, "KNOWN_FINDINGS.jsonl")))
            r = subprocess.run([os.path.join(V, ".venv/bin/python"), "-c", RUN], capture_output=True, text=True, env=env, cwd=V)
            lines = r.stdout.splitlines()
            ref = [l for l in lines if l.startswith("REFUTED")]
            viol = [l for l in lines if l.startswith("VIOLATION") or l.startswith("  obligation")]
            got = "violation" if any(l.startswith("VIOLATION") for l in lines) else "clean" if r.returncode == 0 else f"rc={r.returncode}"
            ok = got == c.get("expect", "violation")
            print(f"[canary {c['name']}] expect={c.get('expect','violation')} got={got} {'OK' if ok else 'MISMATCH'}")
            for l in [l for l in lines if l.startswith("  obligation")][:4] + [l for l in lines if l.startswith("UNKNOWN")][:3]:
                print("     ", l.strip()[:200])
            if r.returncode != 0:
                print(r.stderr[-600:])
            bad += 0 if ok else 1
        finally:
            shutil.rmtree(d, ignore_errors=True)
    sys.exit(1 if bad else 0)
main()
