"""development helper: apply each canary of canaries/C17meta.json to a scratch copy of /repo's package and run ONLY contracts/c17_makemeta.py
on it (tools/makemeta_probe.py with VERIF_REPO); prints the obligations that are not proved and are not refuted on the unchanged tree.
   usage: tools/makemeta_mut.py [name substring]"""
import json, os, shutil, subprocess, sys, tempfile
VERIF = "/verif"

def run(env=None, fam=None):
    r = subprocess.run([VERIF + "/.venv/bin/python", VERIF + "/tools/makemeta_probe.py"] + ([fam] if fam else []), capture_output=True, text=True,
                       env=dict(os.environ, **(env or {})), cwd=VERIF)
    return [l.split("  [")[0] for l in r.stdout.splitlines() if l.startswith(("refuted", "unknown"))], r.stdout[-300:] + r.stderr[-500:]

if __name__ == "__main__":
    sel = sys.argv[1] if len(sys.argv) > 1 else ""
    base, _ = run()
    base = set(base)
    for c in json.load(open(VERIF + "/canaries/C17meta.json")):
        if sel not in c["name"]:
            continue
        d = tempfile.mkdtemp(prefix="mm-canary-")
        try:
            shutil.copytree("/repo/fastparquet", d + "/fastparquet", ignore=shutil.ignore_patterns("__pycache__", "test", "benchmarks"))
            bad = None
            for rel, old, new in c["edits"]:
                s = open(d + "/" + rel).read()
                if s.count(old) != 1:
                    bad = f"edit does not apply uniquely ({s.count(old)})"
                    break
                open(d + "/" + rel, "w").write(s.replace(old, new))
            if bad:
                print(f"[{c['name']}] NOT APPLICABLE {bad}")
                continue
            got, tail = run({"VERIF_REPO": d})
            new = [g for g in got if g not in base]
            print(f"[{c['name']}] expect={c.get('expect', 'violation')}: {len(new)} new non-proved" + ("" if got or new else "  (tail: " + tail[-200:] + ")"))
            for g in new[:6]:
                print("     ", g[:200])
        finally:
            shutil.rmtree(d, ignore_errors=True)
