import sys, tempfile, os, shutil, warnings
warnings.filterwarnings("ignore")
sys.path.insert(0, "/repo")
import numpy as np, pandas as pd
import fastparquet
from fastparquet import write, ParquetFile
from fastparquet.util import get_column_metadata, path_string, val_to_num, val_from_meta, join_path, get_file_scheme
for name, s in [("int64", pd.Series([1, -5])), ("float64", pd.Series([0.5, 1e22])), ("bool", pd.Series([True, False])),
                ("ts", pd.Series([pd.Timestamp("2021-06-01 12:00:00.123456789"), pd.Timestamp("2020-01-01")]).astype("datetime64[ns]")),
                ("str", pd.Series(["007", "abc"], dtype="str")), ("obj", pd.Series(["007", "abc"], dtype=object)),
                ("cat", pd.Series(pd.Categorical(["a", "b"])))]:
    m = get_column_metadata(s, "k")
    print(name, s.dtype, {k: m[k] for k in ("pandas_type", "numpy_type")})
    for v in s:
        t = path_string(v)
        r = val_to_num(t, m)
        print("   ", repr(v), "->", repr(t), "->", repr(r), type(r).__name__, "| no meta:", repr(val_to_num(t)))

def trial(df, scheme, on):
    d = tempfile.mkdtemp()
    try:
        root = os.path.join(d, "ds")
        write(root, df, file_scheme=scheme, partition_on=on)
        files = sorted(os.path.relpath(os.path.join(a, f), d) for a, _, fs in os.walk(d) for f in fs)
        print(" files:", files)
        pf = ParquetFile(root)
        print(" scheme:", pf.file_scheme, "cats:", dict(pf.cats))
        out = pf.to_pandas()
        print(out.to_dict("list"))
    except Exception as e:
        print(" EXC", type(e).__name__, e)
    finally:
        shutil.rmtree(d)
print("== '=' in value, hive")
trial(pd.DataFrame({"k": ["a=b", "c"], "v": [1, 2]}), "hive", ["k"])
print("== '=' in all values, hive")
trial(pd.DataFrame({"k": ["a=b", "c=d"], "v": [1, 2]}), "hive", ["k"])
print("== '..' in drill")
trial(pd.DataFrame({"k": ["..", "c"], "v": [1, 2]}), "drill", ["k"])
print("== drill '=' values")
trial(pd.DataFrame({"k": ["a=b", "c=d"], "v": [1, 2]}), "drill", ["k"])
print("== column name with =")
trial(pd.DataFrame({"k=x": ["a", "c"], "v": [1, 2]}), "hive", ["k=x"])
print("== hive, two keys different order names")
print(get_file_scheme(["a=1/part.0.parquet", "b=2/part.1.parquet"]), get_file_scheme(["a=1/b=2/p", "b=2/a=1/p"]), get_file_scheme(["=a=b/p"]), get_file_scheme(["x/p", "a=1/p"]))
print(repr(join_path("/", "x")), repr(join_path("/abs/dir/", "x", None, "", "y")), repr(join_path("a\\b", "c")), repr(join_path("a", "/b")), repr(join_path(0, "x")), repr(join_path("//", "x")))
