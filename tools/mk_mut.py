"""quick canary loop for contracts/c10_markerframe.py and contracts/c12_thriftvals.py only (official: tools/mut.py --file canaries/...)"""
import json, os, shutil, subprocess, sys, tempfile
V = os.path.dirname(os.path.dirname(os.path.abspath(__file__)))
RUN = r'''
import sys
sys.path.insert(0, %r)
from contracts import c10_markerframe as M, c12_thriftvals as T, c10_fieldwidth as FW
for chk in (M.check, T.check, T.check_text, FW.check):
    res = chk(None)
    for n in res.order:
        st = res.status(n)
        if st != "proved" and "else_branch_checks" not in n:
            print((st, n[:160]))
''' % V
for path in sys.argv[1:]:
    for c in json.load(open(path)):
        d = tempfile.mkdtemp(prefix="verif-canary-")
        try:
            shutil.copytree("/repo/fastparquet", os.path.join(d, "fastparquet"), ignore=shutil.ignore_patterns("__pycache__", "test", "benchmarks"))
            for rel, old, new in c["edits"]:
                p = os.path.join(d, rel)
                s = open(p).read()
                assert s.count(old) == 1, (c["name"], s.count(old))
                open(p, "w").write(s.replace(old, new))
            r = subprocess.run([sys.executable, "-c", RUN], capture_output=True, text=True, env=dict(os.environ, VERIF_REPO=d), cwd=V)
            print("==", c["name"], "expect", c["expect"])
            for l in r.stdout.strip().splitlines():
                print("    ", l[:220])
            if r.returncode:
                print("    STDERR", r.stderr[-600:])
        finally:
            shutil.rmtree(d, ignore_errors=True)
