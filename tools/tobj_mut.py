"""quick canary loop for contracts/c10_thriftobj.py only: applies each entry of canaries/C10obj.json to a scratch copy (VERIF_REPO) and
runs the module's tasks in a subprocess; prints the non-proved obligations (the official run is tools/mut.py --file canaries/C10obj.json)"""
import json, os, shutil, subprocess, sys, tempfile
V = os.path.dirname(os.path.dirname(os.path.abspath(__file__)))
RUN = r'''
import sys
sys.path.insert(0, %r)
from contracts import c10_thriftobj as T
bad = []
for t in T.TASKS:
    try:
        res = T.run_task(t, 10000)
    except Exception as ex:
        bad.append(("EXC " + t, type(ex).__name__ + ": " + str(ex)[:200])); continue
    for n in res.order:
        st = res.status(n)
        if st != "proved":
            bad.append((st, n))
for b in bad: print(b)
''' % V
only = sys.argv[1:]
for c in json.load(open(os.environ.get("TOBJ_CANARIES") or os.path.join(V, "canaries", "C10obj.json"))):
    if only and not any(o in c["name"] for o in only):
        continue
    d = tempfile.mkdtemp(prefix="verif-canary-")
    try:
        shutil.copytree("/repo/fastparquet", os.path.join(d, "fastparquet"), ignore=shutil.ignore_patterns("__pycache__", "test", "benchmarks"))
        for rel, old, new in c["edits"]:
            p = os.path.join(d, rel)
            s = open(p).read()
            assert s.count(old) == 1, (c["name"], s.count(old))
            open(p, "w").write(s.replace(old, new))
        r = subprocess.run([sys.executable, "-c", RUN], capture_output=True, text=True, env=dict(os.environ, VERIF_REPO=d), cwd=V)
        print("==", c["name"], "expect", c["expect"], "reported_by", c.get("reported_by"))
        for l in r.stdout.strip().splitlines():
            print("    ", l[:200])
        if r.returncode:
            print("    STDERR", r.stderr[-400:])
    finally:
        shutil.rmtree(d, ignore_errors=True)
