"""probe for the text dimension of contracts/c12_thriftvals.py"""
import sys, collections
sys.path.insert(0, '/verif')
from contracts import c12_thriftvals as T
res = T.check_text(None)
c = collections.Counter()
for n in res.order:
    st = res.status(n); c[st] += 1
    e = res.d[n][0]
    if st != "proved" or "-v" in sys.argv:
        print(st, n, "\n     ", e[4][:300], e[1] or "")
print(c)
