#!/bin/bash
# tools/seed2_batch.sh C06 C08 ...   evaluates m3 and m4 of each id, 4 ids in parallel; appends to seeded/RESULTS2.jsonl
cd /verif
for id in "$@"; do echo $id; done | xargs -P 4 -I{} bash -c 'for m in m3 m4; do python3 tools/seed2_eval.py {} $m 2>/dev/null | grep "^{" >> /verif/seeded/RESULTS2.jsonl; done'
