"""probe for contracts/c11_codecpairs.py (VERIF_REPO=<scratch> selects another tree)"""
import sys, json
sys.path.insert(0, '/verif')
from contracts import c11_codecpairs as P
for fn in (P.dict_index_pair, P.decoder_purity):
    r = fn(10000)
    for n in r.order:
        e = r.d[n][0]
        print(f"{r.status(n):8s} {n}\n            {json.dumps(e[1])[:260] if e[1] else ''} | {(e[4] or '')[:330]}")
