#!/bin/bash
# run the pinned test suite on /repo's working tree and compare with the baseline stable_pass set
cd /repo && /venv/bin/python -m pytest -q -p no:cacheprovider --timeout=900 --continue-on-collection-errors --junitxml=/tmp/junit_fix.xml 2>&1 | tail -1
/venv/bin/python - <<'PY'
import json, xml.etree.ElementTree as ET
b=json.load(open('/root/.vp/BASELINE.json'))
t=ET.parse('/tmp/junit_fix.xml').getroot()
ok=set()
for tc in t.iter('testcase'):
    if not any(c.tag in('failure','error','skipped') for c in tc):
        ok.add(tc.get('classname')+'::'+tc.get('name'))
sp=set(b['stable_pass'])
print("baseline", len(sp), "lost", len(sp-ok), sorted(sp-ok)[:5])
PY
rm -f /tmp/junit_fix.xml
