#!/usr/bin/env python3
"""Stand-alone driver of the bookkeeping P part (props/_bookkeeping.py) with the exit codes of ./check:
     tools/c02book_check.py C02|C04|C01 [--tier quick]
(used by tools/c02book_canaries.py until props/C0x.py list p_bookkeeping in their p_parts())."""
import os
import sys
import tempfile
_d = tempfile.mkdtemp(prefix='c02book-')
os.environ.setdefault('VERIF_EVIDENCE_DIR', os.path.join(_d, 'evidence'))      # never overwrite /verif/evidence from this driver
os.environ.setdefault('VERIF_REPLAY_DIR', os.path.join(_d, 'replays'))
sys.path.insert(0, os.path.dirname(os.path.dirname(os.path.abspath(__file__))))
from vlib.common import run_check
from props._generic import run_property
from props._bookkeeping import p_bookkeeping

prop = sys.argv[1]
tier = sys.argv[3] if len(sys.argv) > 3 else "quick"
rc = run_check(prop, lambda ctx: run_property(ctx, "other", "bookkeeping P part only (stand-alone driver)", p_parts=[p_bookkeeping]),
                   tier, 0)
print('evidence:', os.path.join(os.environ['VERIF_EVIDENCE_DIR'], prop + '.json'))
sys.exit(rc)
