"""native triage for the C03 page-bookkeeping contract (contracts/c03_pages.py): each case builds a file with the
spec-level encoder (spec/pqwrite.py) and reads it with fastparquet; prints what happens."""
import io, sys, os, tempfile, traceback
sys.path.insert(0, '/verif')
import numpy as np
import pandas as pd
from spec import pqwrite as W
import fastparquet
from fastparquet import ParquetFile


def read(data, **kw):
    d = tempfile.mkdtemp(prefix="c03p")
    fn = os.path.join(d, "f.parquet")
    open(fn, "wb").write(data)
    try:
        pf = ParquetFile(fn)
        return pf.to_pandas(**kw)
    finally:
        os.unlink(fn); os.rmdir(d)


# repaired in /repo (efe7e45, c8ef5ea, f1984b1): these cases now ASSERT the repaired behaviour
REPAIRED = {"dict_boolean_v1_w2": "ok", "dict_boolean_v1_w3": "ok", "dict_boolean_v1": "ok", "v1_rle_boolean": "ok",
            "v1_bit_packed_levels": "NotImplementedError",
            # categorical read of a chunk that fell back to PLAIN v1 pages: refused since af3a4f3
            "fallback_categorical_required": "ValueError", "fallback_categorical_optional": "ValueError",
            # ... and of a chunk that fell back to a PLAIN DATA_PAGE_V2 page: refused since c3e23bf
            "fallback_categorical_v2": "ValueError", "fallback_categorical_v2_int32_codes": "ValueError",
            # row mask through read_col, repaired by e953da1 (nan == None for the object column)
            "mask_v1_page_without_selection": "ok", "mask_v1_nulls_shift_mask_cursor": "ok", "mask_v1_nulls_before_selection": "ok",
            "mask_v1_multipage_every_page_selected_no_nulls": "ok", "mask_v2_multipage": "IndexError"}
FAILED = []


def case(name, fn):
    want = REPAIRED.get(name)
    try:
        r = fn()
        print(f"[{name}] ->", r)
        good = want is None or (want == "ok" and isinstance(r, dict) and (r.get("ok") is True or r.get("read") == r.get("expected")))
    except Exception as ex:
        print(f"[{name}] RAISES {type(ex).__name__}: {str(ex)[:200]}")
        good = want is None or want == type(ex).__name__
    if want is not None:
        print(f"     repaired behaviour ({want}): {'PASS' if good else 'FAIL'}")
        if not good:
            FAILED.append(name)


def v2_dict_categorical():
    col = W.ColumnSpec("x", "INT32", optional=False)
    rows = [5, 7, 5, 9, 7, 5, 5, 9, 7, 7, 5]
    lay = W.ChunkLayout(pages=[W.PageLayout(version=2, encoding="RLE_DICTIONARY")], dictionary="auto")
    data = W.encode_file([col], [{"x": rows}], layout=lay)
    plain = list(read(data)["x"])
    cat = read(data, categories=["x"])["x"]
    return {"expected": rows, "plain_read": plain, "categorical_read": list(cat), "ok": list(cat) == rows}


def v1_dict_categorical():
    col = W.ColumnSpec("x", "INT32", optional=False)
    rows = [5, 7, 5, 9, 7, 5, 5, 9, 7, 7, 5]
    lay = W.ChunkLayout(pages=[W.PageLayout(version=1, encoding="RLE_DICTIONARY")], dictionary="auto")
    data = W.encode_file([col], [{"x": rows}], layout=lay)
    cat = read(data, categories=["x"])["x"]
    return {"expected": rows, "categorical_read": list(cat), "ok": list(cat) == rows}


def fallback_categorical(optional):
    def f():
        col = W.ColumnSpec("x", "INT32", optional=optional)
        rows = [5, 7, 5, 9, 7, 5, 5, 9] + ([None, 11, 12, 13] if optional else [10, 11, 12, 13])
        lay = W.ChunkLayout(pages=[W.PageLayout(n=8, version=1, encoding="RLE_DICTIONARY"), W.PageLayout(n=None, version=1, encoding="PLAIN")],
                            dictionary="auto")
        data = W.encode_file([col], [{"x": rows}], layout=lay)
        plain = list(read(data)["x"])
        cat = read(data, categories=["x"])["x"]
        return {"expected": rows, "plain_read": plain, "categorical_read": list(cat)}
    return f


def v2_rle_bool_nulls():
    col = W.ColumnSpec("b", "BOOLEAN", optional=True)
    rows = [True, None, False, True, None, True, True, False]
    lay = W.ChunkLayout(pages=[W.PageLayout(version=2, encoding="RLE")])
    data = W.encode_file([col], [{"b": rows}], layout=lay)
    return {"expected": rows, "read": list(read(data)["b"])}


def v2_rle_bool_nonull():
    col = W.ColumnSpec("b", "BOOLEAN", optional=True)
    rows = [True, True, False, True, False, True, True, False]
    lay = W.ChunkLayout(pages=[W.PageLayout(version=2, encoding="RLE")])
    data = W.encode_file([col], [{"b": rows}], layout=lay)
    return {"expected": rows, "read": list(read(data)["b"])}


def dict_boolean(version):
    def f():
        col = W.ColumnSpec("b", "BOOLEAN", optional=False)
        rows = [True, True, False, True, False, True, True, False, False]
        lay = W.ChunkLayout(pages=[W.PageLayout(version=version, encoding="RLE_DICTIONARY")], dictionary="auto")
        data = W.encode_file([col], [{"b": rows}], layout=lay)
        return {"expected": rows, "read": list(read(data)["b"])}
    return f


def dict_page_encoding(enc):
    def f():
        col = W.ColumnSpec("x", "INT32", optional=False)
        rows = [5, 7, 5, 9]
        lay = W.ChunkLayout(pages=[W.PageLayout(version=1, encoding="RLE_DICTIONARY")], dictionary="auto", dict_page_encoding=enc)
        data = W.encode_file([col], [{"x": rows}], layout=lay)
        return {"expected": rows, "read": list(read(data)["x"])}
    return f


if __name__ == "__main__":
    sel = sys.argv[1:] 
    cases = {
        "v2_dict_categorical": v2_dict_categorical, "v1_dict_categorical": v1_dict_categorical,
        "fallback_categorical_required": fallback_categorical(False), "fallback_categorical_optional": fallback_categorical(True),
        "v2_rle_bool_nulls": v2_rle_bool_nulls, "v2_rle_bool_nonull": v2_rle_bool_nonull,
        "dict_boolean_v1": dict_boolean(1), "dict_boolean_v2": dict_boolean(2),
        "dict_page_encoding_DELTA_BYTE_ARRAY": dict_page_encoding("DELTA_BYTE_ARRAY"),
        "dict_page_encoding_RLE": dict_page_encoding("RLE"),
    }
    for k, f in cases.items():
        if not sel or k in sel:
            case(k, f)


def dict_boolean_w(version, w):
    def f():
        col = W.ColumnSpec("b", "BOOLEAN", optional=False)
        rows = [True, True, False, True, False, True, True, False, False]
        lay = W.ChunkLayout(pages=[W.PageLayout(version=version, encoding="RLE_DICTIONARY", index_width=w)], dictionary="auto")
        data = W.encode_file([col], [{"b": rows}], layout=lay)
        got = list(read(data)["b"])
        return {"expected": rows, "read": got, "ok": got == rows}
    return f


def footer_rows_mismatch(delta):
    """flat required INT32 chunk of 8 values in a row group whose footer says num_rows = 8 + delta (an inconsistent file)"""
    def f():
        from fastparquet.cencoding import ThriftObject
        from fastparquet import parquet_thrift
        col = W.ColumnSpec("x", "INT32", optional=False)
        rows = list(range(100, 108))
        data = bytearray(W.encode_file([col], [{"x": rows}]))
        import struct
        flen = struct.unpack("<i", data[-8:-4])[0]
        foot = bytes(data[-8 - flen:-8])
        from fastparquet.thrift_structures import parquet_thrift as pt  # noqa
        fmd = ThriftObject.from_buffer(np.frombuffer(foot, dtype="uint8").copy() if False else foot, "FileMetaData")
        fmd.num_rows = 8 + delta
        fmd.row_groups[0].num_rows = 8 + delta
        nf = fmd.to_bytes()
        out = bytes(data[:-8 - flen]) + nf + struct.pack("<i", len(nf)) + b"PAR1"
        got = list(read(out)["x"])
        return {"pages_hold": rows, "footer_num_rows": 8 + delta, "read": got}
    return f


if __name__ == "__main__":
    for k, f in {"dict_boolean_v1_w2": dict_boolean_w(1, 2), "dict_boolean_v1_w3": dict_boolean_w(1, 3), "dict_boolean_v2_w2": dict_boolean_w(2, 2),
                 "footer_rows_more_than_pages": footer_rows_mismatch(3), "footer_rows_fewer_than_pages": footer_rows_mismatch(-3)}.items():
        if not sel or k in sel:
            case(k, f)


def generic(col, rows, lay, **kw):
    def f():
        data = W.encode_file([col], [{col.name: rows}], layout=lay)
        got = read(data, **kw)[col.name]
        got = [None if (x is pd.NA or (isinstance(x, float) and x != x) or x is None) else (x.item() if hasattr(x, "item") else x) for x in got]
        return {"expected": rows, "read": got, "ok": got == rows}
    return f


if __name__ == "__main__":
    more = {
        "v1_bit_packed_levels": generic(W.ColumnSpec("x", "INT32", optional=True), [1, None, 3, 4, None, 6, 7, 8, None],
                                        W.ChunkLayout(pages=[W.PageLayout(version=1, encoding="PLAIN", level_encoding="BIT_PACKED")])),
        "v1_rle_boolean": generic(W.ColumnSpec("b", "BOOLEAN", optional=False), [True, False, True, True, False, False, True, False, True],
                                  W.ChunkLayout(pages=[W.PageLayout(version=1, encoding="RLE")])),
        "v2_delta_nulls": generic(W.ColumnSpec("x", "INT32", optional=True), [1, None, 3, 4, None, 6],
                                  W.ChunkLayout(pages=[W.PageLayout(version=2, encoding="DELTA_BINARY_PACKED")])),
        "v2_delta_int64": generic(W.ColumnSpec("x", "INT64", optional=False), [10, 20, 30, 40, 50, 60, 70],
                                  W.ChunkLayout(pages=[W.PageLayout(version=2, encoding="DELTA_BINARY_PACKED")])),
        "v2_empty_values_midchunk": generic(W.ColumnSpec("x", "DOUBLE", optional=True), [None, None, None, 1.5, 2.5],
                                            W.ChunkLayout(pages=[W.PageLayout(n=2, version=2), W.PageLayout(n=None, version=2)])),
        "v2_nullable_multipage": generic(W.ColumnSpec("x", "INT32", optional=True), [1, None, 3, 4, 5, 6, None, 8, 9, 10],
                                         W.ChunkLayout(pages=[W.PageLayout(n=5, version=2), W.PageLayout(n=None, version=2)])),
        "v2_dict_categorical_nulls": generic(W.ColumnSpec("x", "INT32", optional=True), [5, None, 5, 9, 7, 5, None, 9],
                                             W.ChunkLayout(pages=[W.PageLayout(version=2, encoding="RLE_DICTIONARY")], dictionary="auto"),
                                             categories=["x"]),
    }
    for k, f in more.items():
        if not sel or k in sel:
            case(k, f)


def mask_cases():
    """C13: caller-supplied row mask through core.read_col (files written by fastparquet itself with small pages)"""
    import fastparquet.writer as fw
    out = {}

    def roundtrip(df, mask, version=1, page=64):
        d = tempfile.mkdtemp(prefix="c03p")
        fn = os.path.join(d, "f.parquet")
        old, oldv = fw.MAX_PAGE_SIZE, fw.DATAPAGE_VERSION
        fw.MAX_PAGE_SIZE, fw.DATAPAGE_VERSION = page, version
        try:
            fastparquet.write(fn, df)
        finally:
            fw.MAX_PAGE_SIZE, fw.DATAPAGE_VERSION = old, oldv
        try:
            got = ParquetFile(fn).to_pandas(row_filter=mask)
            col = df.columns[0]
            norm = lambda xs: [None if (x is None or x is pd.NA or (isinstance(x, float) and x != x)) else x for x in xs]
            return {"expected": norm(df[col][mask]), "read": norm(got[col])}
        finally:
            os.unlink(fn); os.rmdir(d)
    out["mask_v1_page_without_selection"] = lambda: roundtrip(pd.DataFrame({"s": ["s%02d" % k for k in range(24)]}), np.arange(24) >= 20)
    out["mask_v1_nulls_shift_mask_cursor"] = lambda: roundtrip(
        pd.DataFrame({"s": [None if k % 3 == 0 else "s%02d" % k for k in range(24)]}), np.arange(24) % 2 == 0)
    out["mask_v1_nulls_before_selection"] = lambda: roundtrip(pd.DataFrame({"s": [None, "b", "c"]}), np.array([False, False, True]), page=10**6)
    out["mask_v2_multipage"] = lambda: roundtrip(pd.DataFrame({"x": np.arange(40, dtype="int64")}), np.arange(40) % 2 == 0, version=2, page=64)
    out["mask_v1_multipage_every_page_selected_no_nulls"] = lambda: roundtrip(
        pd.DataFrame({"s": ["s%02d" % k for k in range(24)]}), np.arange(24) % 2 == 0)
    return out


if __name__ == "__main__":
    for k, f in mask_cases().items():
        if (not sel and False) or k in sel or "mask" in sel:
            case(k, f)


if __name__ == "__main__":
    if FAILED:
        print("FAILED (repaired behaviour not observed):", FAILED)
        sys.exit(1)


def fallback_categorical_v2():
    """categorical read of a chunk whose second page is a PLAIN DATA_PAGE_V2 (dictionary fallback): not covered by af3a4f3 (v2 pages leave
    the loop body before the guard)"""
    col = W.ColumnSpec("x", "INT32", optional=False)
    rows = [5, 7, 5, 9, 7, 5, 5, 9, 10, 11, 12, 13]
    lay = W.ChunkLayout(pages=[W.PageLayout(n=8, version=1, encoding="RLE_DICTIONARY"), W.PageLayout(n=None, version=2, encoding="PLAIN")],
                        dictionary="auto")
    data = W.encode_file([col], [{"x": rows}], layout=lay)
    plain = list(read(data)["x"])
    cat = read(data, categories=["x"])["x"]
    return {"expected": rows, "plain_read": plain, "categorical_read": [None if x != x else x for x in cat]}


if __name__ == "__main__":
    if "fallback_categorical_v2" in sel:
        case("fallback_categorical_v2", fallback_categorical_v2)


def fallback_categorical_v2_int32_codes():
    """the same with > 32767 dictionary entries: the category codes are int32, as wide as the PLAIN INT32 values of the v2 fallback page"""
    col = W.ColumnSpec("x", "INT32", optional=False)
    n = 40000
    rows = [100000 + k for k in range(n)] + [7, 8, 9, 10]
    lay = W.ChunkLayout(pages=[W.PageLayout(n=n, version=1, encoding="RLE_DICTIONARY"), W.PageLayout(n=None, version=2, encoding="PLAIN", compressed=False)],
                        dictionary="auto")
    data = W.encode_file([col], [{"x": rows}], layout=lay)
    plain = list(read(data)["x"])
    cat = read(data, categories={"x": 50000})["x"]
    return {"expected_tail": rows[-4:], "plain_read_tail": plain[-4:], "categorical_read_tail": [None if x != x else x for x in list(cat)[-4:]],
            "codes_tail": list(cat.cat.codes[-4:])}


if __name__ == "__main__":
    if "fallback_categorical_v2_int32_codes" in sel:
        case("fallback_categorical_v2_int32_codes", fallback_categorical_v2_int32_codes)
