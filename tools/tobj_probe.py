"""probe: run parts of contracts/c10_thriftobj.py standalone:  tools/tobj_probe.py [check names...]"""
import sys, time
sys.path.insert(0, '/verif')
from contracts import c10_thriftobj as T
names = sys.argv[1:] or [n for n in dir(T) if n.startswith("check_")]
tot = {}
for n in names:
    t0 = time.time()
    res = getattr(T, n if n.startswith("check_") else "check_" + n)(10000)
    print(f"== {n}: {time.time() - t0:.2f}s")
    for name in res.order:
        st = res.status(name)
        tot[st] = tot.get(st, 0) + 1
        e = next((x for x in res.d[name] if x[0] == st), res.d[name][0])
        print(f"  {st:8s} {name}  ({len(res.d[name])} paths)" + (f"\n           model: {e[1]}" if st != 'proved' and e[1] else "") + (f"\n           {e[4]}" if st == 'unknown' else ""))
print(tot)
