#!/bin/bash
# robustness: every quick check under several seeds (evidence into scratch dirs); prints only non-clean runs
cd /verif
ids=$(python3 -c "import json; print(' '.join(c['property_id'] for c in json.load(open('MANIFEST.json'))['checks']))")
for seed in "$@"; do
  for p in $ids; do
    while [ $(jobs -r | wc -l) -ge 3 ]; do sleep 1; done
    ( VERIF_SEED=$seed VERIF_EVIDENCE_DIR=/tmp/evseed_$seed VERIF_REPLAY_DIR=/tmp/evseed_rep ./check $p > /tmp/vs_${seed}_$p.log 2>&1; rc=$?; v=$(grep -c ^VIOLATION /tmp/vs_${seed}_$p.log); if [ $rc -ne 0 ] || [ $v -ne 0 ]; then echo "seed=$seed $p rc=$rc viol=$v"; fi ) &
  done
done; wait; echo "seeds done: $@"
