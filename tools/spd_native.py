"""Native exploration of fastparquet.speedups (each case in a SUBPROCESS: the extension may crash the interpreter).
usage: spd_native.py [--big]   (--big also runs the cases that need 2 GiB objects)"""
import json
import subprocess
import sys

REPO = "/repo"
PRE = f"import sys, json\nsys.path.insert(0, {REPO!r})\nimport numpy as np\nfrom fastparquet import speedups as sp\n"

CASES = {
    "pack_basic": "print(sp.pack_byte_array([b'ab', b'', b'xyz']))",
    "pack_nonbytes": "print(sp.pack_byte_array([b'ab', 'x']))",
    "pack_bytearray": "print(sp.pack_byte_array([bytearray(b'ab')]))",
    "unpack_basic": "print(list(sp.unpack_byte_array(b'\\x02\\x00\\x00\\x00ab\\x00\\x00\\x00\\x00\\x03\\x00\\x00\\x00xyz', 3)))",
    "unpack_utf": "print(list(sp.unpack_byte_array(b'\\x02\\x00\\x00\\x00ab\\x00\\x00\\x00\\x00\\x03\\x00\\x00\\x00xyz', 3, True)))",
    "unpack_empty0": "print(list(sp.unpack_byte_array(b'', 0)))",
    "unpack_empty3": "print(list(sp.unpack_byte_array(b'', 3)))",
    "unpack_fewer_values_than_n": "print(list(sp.unpack_byte_array(b'\\x02\\x00\\x00\\x00ab', 3)))",
    "unpack_neg_n": "print(list(sp.unpack_byte_array(b'\\x02\\x00\\x00\\x00ab', -1)))",
    # declared length runs past the end of the VIEW handed in (the view is a prefix of a bigger array filled with 0xAA)
    "unpack_len_past_end": "big = np.full(64, 0xAA, 'uint8'); big[:4] = [20, 0, 0, 0]; r = sp.unpack_byte_array(big[:8], 1); print(len(r[0]), r[0])",
    "unpack_len_past_end_utf": "big = np.full(64, 0x41, 'uint8'); big[:4] = [20, 0, 0, 0]; r = sp.unpack_byte_array(big[:8], 1, True); print(len(r[0]), r[0])",
    # fewer than 4 bytes left: the 4-byte length itself is read past the end
    "unpack_short_header": "big = np.full(64, 0, 'uint8'); big[:6] = [0, 0, 0, 0, 3, 0]; big[6:8] = [0, 0]; big[8:11] = [0x51, 0x52, 0x53]; r = sp.unpack_byte_array(big[:6], 2); print(list(r))",
    "unpack_neg_len": "r = sp.unpack_byte_array(b'\\xff\\xff\\xff\\xff', 1); print(list(r))",
    "unpack_neg_len_utf": "r = sp.unpack_byte_array(b'\\xff\\xff\\xff\\xff', 1, True); print(list(r))",
    "unpack_neg_len_then_more": "r = sp.unpack_byte_array(b'\\xfc\\xff\\xff\\xff' + b'\\x01\\x00\\x00\\x00Z', 3, True); print(list(r))",
    "unpack_huge_len": "r = sp.unpack_byte_array(b'\\xff\\xff\\xff\\x7f' + b'abcd', 1); print(len(r[0]))",
    "unpack_big_len_1MB": "r = sp.unpack_byte_array(b'\\x00\\x00\\x10\\x00' + b'abcd', 1); print(len(r[0]))",
    "unpack_big_len_256MB": "r = sp.unpack_byte_array(b'\\x00\\x00\\x00\\x10' + b'abcd', 1); print(len(r[0]))",
    "encode_utf8": "print(list(sp.array_encode_utf8(np.array(['a', 'h\\u00e9'], dtype=object))))",
    "encode_utf8_nonstr": "print(list(sp.array_encode_utf8(np.array(['a', None], dtype=object))))",
    "encode_utf8_bytes": "print(list(sp.array_encode_utf8(np.array([b'a'], dtype=object))))",
    "encode_utf8_surrogate": "print(list(sp.array_encode_utf8(np.array(['\\ud800'], dtype=object))))",
    "encode_utf8_2d": "print(sp.array_encode_utf8(np.array([['a'], ['b']], dtype=object)))",
    "encode_utf8_series": "import pandas as pd; print(list(sp.array_encode_utf8(pd.Series(['a', 'b']))))",
}
BIG = {
    "pack_item_2GiB": "x = bytes(2**31); o = sp.pack_byte_array([x]); print(len(o), o[:4])",
    "unpack_buffer_2GiB": "b = np.zeros(2**31, 'uint8'); b[:5] = [1, 0, 0, 0, 65]; r = sp.unpack_byte_array(b, 1); print(list(r))",
}


def run(name, body):
    r = subprocess.run([sys.executable, "-c", PRE + body], capture_output=True, text=True, timeout=300)
    if r.returncode < 0:
        return f"DIED signal {-r.returncode}"
    if r.returncode:
        return "EXC " + r.stderr.strip().splitlines()[-1][:200]
    return "OK  " + r.stdout.strip()[:300]


if __name__ == "__main__":
    cases = dict(CASES)
    if "--big" in sys.argv:
        cases.update(BIG)
    for k, v in cases.items():
        print(f"{k:32s} {run(k, v)}")
