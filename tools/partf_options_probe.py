"""probe for contracts/c02_options.py"""
import sys; sys.path.insert(0, '/verif')
from vlib.common import Ctx
from contracts import c02_options as M
ctx = Ctx('C02')
for res in M.check(ctx):
    n = {}
    for nm in res.order:
        st = res.status(nm); n[st] = n.get(st, 0) + 1
        e = res.d[nm][0]
        print(f"{st:8s} {nm}   | {(e[4] or '')[:150]}" + ("" if st == "proved" else f"   <<<<<< {e[1]}"))
    print(n, ctx.engine_errors, ctx.vacuity)
