import sys, ast
sys.path.insert(0, '/verif')
from contracts import cy
funcs, fields, consts = cy.load()
f = funcs["_assemble_objects"]
print(f.types)
print(ast.unparse(f.tree))
