#!/bin/bash
# tools/seed_cross.sh <seed>:<P1>,<P2>...   P layers (bounded skipped) of the named checks against each seed's scratch tree -> /tmp/cross/<seed>.txt
mkdir -p /tmp/cross
one() { s=${1%%:*}; ps=${1#*:}; T=$(/verif/tools/seed_tree.sh $s); out=/tmp/cross/$s.txt; : > $out
  for P in ${ps//,/ }; do
    VERIF_REPO=$T VERIF_EVIDENCE_DIR=/tmp/cross/ev-$s VERIF_REPLAY_DIR=/tmp/cross/rp-$s VERIF_SKIP_BOUNDED=1 /verif/check $P > /tmp/cross/$s.$P.log 2>&1; rc=$?
    echo "$P rc=$rc $(grep -m1 '^  obligation' /tmp/cross/$s.$P.log | cut -c1-180)" >> $out; done
  rm -rf $T /tmp/cross/ev-$s /tmp/cross/rp-$s; }
export -f one
printf '%s\n' "$@" | xargs -P 3 -I{} bash -c 'one {}'
