import sys, time; sys.path.insert(0,'/verif')
import z3
from contracts import cy
from vc.symexec import *
from vc import backends
def show(eng, outs):
    for ob in eng.oblig:
        st,be,secs,m = backends.discharge(ob, 5000)
        print('  ', ob.name, ob.kind, st, round(secs,3), (str(m)[:200] if m is not None else ''))
    eng.oblig=[]
# zigzag_long
eng = cy.engine(); p=Path(); n=z3.BitVec('n',64)
outs = eng.run('zigzag_long', p, [CI(n,64,False)])
print('zigzag_long paths', len(outs), outs[0].ctl)
show(eng, outs)
r = outs[0].ctl[1]
spec = z3.If(n & 1 == 0, z3.LShR(n,1), ~z3.LShR(n,1))
s=z3.Solver(); s.add(r.bv != spec); print(' spec', s.check())
# long_zigzag + roundtrip
eng = cy.engine(); p=Path(); x=z3.BitVec('x',64)
o1 = eng.run('long_zigzag', p, [CI(x,64,True)])[0]
enc = o1.ctl[1]; print('long_zigzag', enc)
o1.ctl=None
o2 = eng.run('zigzag_long', o1, [enc])[0]
s=z3.Solver(); s.add(o2.ctl[1].bv != x); print(' roundtrip', s.check()); show(eng,[])
# mask
eng = cy.engine(); p=Path(); i=z3.BitVec('i',32)
o = eng.run('_mask_for_bits', p, [CI(i,32,True)]); print('mask', o[0].ctl[1]); show(eng,o)
# width_from_max_int
eng = cy.engine(); p=Path(); v=z3.BitVec('v',64); p.pc.append(v>=0)
t=time.time(); o = eng.run('width_from_max_int', p, [CI(v,64,True)]); print('width paths', len(o), round(time.time()-t,2)); show(eng,o)
# read_unsigned_var_int
eng = cy.engine(loops={('read_unsigned_var_int',0):LoopSpec('unroll',10)}); p=Path(); f=cy.new_io(p,'f')
t=time.time(); o = eng.run('read_unsigned_var_int', p, [f]); print('varint paths', len(o), round(time.time()-t,2), eng.n_feas)
for q in o[:3]: print('   ', q.ctl[0], q.ctl[1] if q.ctl[0]=='ret' else '', q.heap['f']['loc'])
print(len(eng.oblig)); 
for ob in eng.oblig[:6]: print('  ', ob.name, ob.kind, ob.goal)
