"""fast canary driver for the speedups part only: every entry of canaries/C12speedups.json is applied to a scratch copy of
/repo/fastparquet and props/_speedups.p_speedups is run on it (not the whole check).  usage: spdmut.py <known-file>"""
import json
import os
import shutil
import subprocess
import sys
import tempfile

V = "/verif"
known = sys.argv[1]
bad = 0
for c in json.load(open(os.path.join(V, "canaries", "C12speedups.json"))):
    d = tempfile.mkdtemp(prefix="spdmut-")
    try:
        shutil.copytree("/repo/fastparquet", os.path.join(d, "fastparquet"), ignore=shutil.ignore_patterns("__pycache__", "test", "benchmarks"))
        err = None
        for rel, old, new in c["edits"]:
            p = os.path.join(d, rel)
            s = open(p).read()
            if s.count(old) != 1:
                err = f"edit does not apply uniquely ({s.count(old)}): {old[:40]!r}"
                break
            open(p, "w").write(s.replace(old, new))
        if err:
            print(f"[{c['name']}] NOT APPLICABLE {err}")
            bad += 1
            continue
        r = subprocess.run([sys.executable, os.path.join(V, "tools", "spdctx.py"), c["prop"], known], capture_output=True, text=True,
                           env=dict(os.environ, VERIF_REPO=d))
        viol = [l for l in r.stdout.splitlines() if l.startswith("  obligation")]
        other = [l for l in r.stdout.splitlines() if l.startswith("  unknown") or "out_of_reach" in l]
        got = "violation" if viol else "clean"
        ok = got == c.get("expect", "violation") and not other
        bad += 0 if ok else 1
        print(f"[{c['name']}] prop={c['prop']} expect={c.get('expect', 'violation')} got={got} {'OK' if ok else 'MISMATCH'}")
        for l in viol[:4] + other[:3]:
            print("      ", l.strip()[:170])
        if r.returncode:
            print("   stderr:", r.stderr[-400:])
    finally:
        shutil.rmtree(d, ignore_errors=True)
sys.exit(1 if bad else 0)
