"""probe for contracts/c06_readoptions.py:   readopt_probe.py [-q]"""
import sys; sys.path.insert(0, '/verif')
from vlib.common import Ctx
from contracts import c06_readoptions as M
ctx = Ctx('C06')
quiet = "-q" in sys.argv
for res in M.check(ctx):
    n = {}
    for nm in res.order:
        st = res.status(nm); n[st] = n.get(st, 0) + 1
        e = res.d[nm][0]
        if not quiet or st != "proved":
            print(f"{st:8s} {nm}   | {(e[4] or '')[:110]}" + ("" if st == "proved" else f"\n      <<<<<< {e[1]}"))
    print(n, ctx.engine_errors, ctx.vacuity)
