#!/usr/bin/env python3
"""Confirm and evaluate one wave-2 seeded change:  tools/seed2_eval.py C05 m3 [extra props...]
 1. in the seeding agent's scratch worktree /tmp/seed2/<ID>: apply the patch, run the pinned test suite, compare with the baseline's
    stable_pass set (every one must still pass), undo;   2. tools/seed_eval.py in scratch-copy mode (demo clean/patched, ./check);
 3. record `tests_confirmed` in /verif/seeded/<ID>-<m>/meta.json.  One line of JSON on stdout."""
import json, os, subprocess, sys, tempfile
import xml.etree.ElementTree as ET
V = os.path.dirname(os.path.dirname(os.path.abspath(__file__)))
pid, m, extra = sys.argv[1], sys.argv[2], sys.argv[3:]
wt = os.path.join(os.environ.get("SEED_WT", "/tmp/seed2"), pid)
src = f"{wt}/{m}"
sid = f"{pid}-{m}"
out = {"seed": sid}
subprocess.run(["git", "-C", wt, "checkout", "--", "."], check=True)
ap = subprocess.run(["git", "-C", wt, "apply", f"{m}/patch.diff"], capture_output=True, text=True)
if ap.returncode != 0:
    out["error"] = "patch does not apply: " + ap.stderr[-200:]
    print(json.dumps(out)); sys.exit(0)
try:
    jx = tempfile.mktemp(suffix=".xml")
    subprocess.run(["/venv/bin/python", "-m", "pytest", "-q", "-p", "no:cacheprovider", "--timeout=900", "--continue-on-collection-errors",
                    "--junitxml=" + jx], cwd=wt, env=dict(os.environ, PYTHONPATH=wt), capture_output=True, text=True)
    ok = set()
    for tc in ET.parse(jx).getroot().iter("testcase"):
        if not any(c.tag in ("failure", "error", "skipped") for c in tc):
            ok.add(tc.get("classname") + "::" + tc.get("name"))
    os.unlink(jx)
    sp = set(json.load(open("/root/.vp/BASELINE.json"))["stable_pass"])
    out["baseline_tests_lost"] = sorted(sp - ok)[:5]
    out["baseline_tests_passing"] = len(sp & ok)
finally:
    subprocess.run(["git", "-C", wt, "checkout", "--", "."], check=True)
r = subprocess.run([sys.executable, os.path.join(V, "tools", "seed_eval.py"), src, sid, pid] + extra, capture_output=True, text=True,
                   env=dict(os.environ, SEED_SCRATCH="1"))
t = r.stdout
try:
    j = json.loads(t[t.index("{"):])
    out.update(demo_clean=j["demo_clean_rc"], demo_patched=j.get("demo_patched_rc"),
               checks={k: {"rc": v["rc"], "violations": v["violations"], "first": (v["first"][:1] or [""])[0][:200], "secs": v["secs"]} for k, v in j["checks"].items()})
    mp = os.path.join(V, "seeded", sid, "meta.json")
    meta = json.load(open(mp))
    meta["confirmed"]["baseline_tests_passing"] = out["baseline_tests_passing"]
    meta["confirmed"]["baseline_tests_lost"] = out["baseline_tests_lost"]
    meta["wave"] = int(os.environ.get("SEED_WAVE", "2"))
    json.dump(meta, open(mp, "w"), indent=1)
except Exception as ex:
    out["error"] = (t + r.stderr)[-400:]
print(json.dumps(out))
