#!/usr/bin/env python3
"""Evaluate one seeded change:  tools/seed_eval.py <src dir with patch.diff demo.py meta.json> <seed id> [props...]
 1. demo on the clean /repo must exit 0;  2. git -C /repo apply patch;  3. demo must exit != 0;  4. run ./check for the property
 (and any extra props) -> record which raised;  5. git -C /repo checkout -- . ;  6. keep under /verif/seeded/<seed id>/."""
import json, os, shutil, subprocess, sys, time
V = os.path.dirname(os.path.dirname(os.path.abspath(__file__)))
SCRATCH = os.environ.get("SEED_SCRATCH") == "1"     # evaluate on a scratch copy of /repo (when /repo is in use by other runs)
src, sid = os.path.abspath(sys.argv[1]), sys.argv[2]
meta = json.load(open(os.path.join(src, "meta.json")))
props = sys.argv[3:] or [meta["property"]]
patch, demo = os.path.join(src, "patch.diff"), os.path.join(src, "demo.py")
import tempfile
TREE = "/repo"
def run_demo(tree="/repo"):
    r = subprocess.run(["/venv/bin/python", demo], capture_output=True, text=True, env=dict(os.environ, PYTHONPATH=tree), cwd="/tmp", timeout=900)
    return r.returncode, (r.stdout + r.stderr)[-400:]
rc0, out0 = run_demo()
if SCRATCH:
    TREE = tempfile.mkdtemp(prefix="verif-seed-")
    shutil.copytree("/repo/fastparquet", os.path.join(TREE, "fastparquet"), ignore=shutil.ignore_patterns("__pycache__", "benchmarks"))
    os.symlink("/repo/test-data", os.path.join(TREE, "test-data"))
    ap = subprocess.run(["patch", "-p1", "-s", "-d", TREE, "-i", patch], capture_output=True, text=True)
else:
    assert subprocess.run(["git", "-C", "/repo", "status", "--porcelain", "--untracked-files=no"], capture_output=True, text=True).stdout.strip() == "", "/repo not clean"
    ap = subprocess.run(["git", "-C", "/repo", "apply", patch], capture_output=True, text=True)
res = {"seed": sid, "property": meta["property"], "demo_clean_rc": rc0, "applied": ap.returncode == 0, "checks": {}}
try:
    if ap.returncode != 0:
        res["apply_error"] = ap.stderr[-300:]
    else:
        rc1, out1 = run_demo(TREE)
        res["demo_patched_rc"] = rc1
        res["demo_patched_tail"] = out1[-200:]
        for p in props:
            t = time.time()
            r = subprocess.run([os.path.join(V, "check"), p, "--tier", os.environ.get("SEED_TIER", "quick")], capture_output=True, text=True,
                               env=dict(os.environ, VERIF_EVIDENCE_DIR="/tmp/seed-evidence-" + sid, VERIF_REPLAY_DIR="/tmp/seed-replays",
                                        **({"VERIF_REPO": TREE} if SCRATCH else {})))
            viol = [l for l in r.stdout.splitlines() if l.startswith("VIOLATION")]
            det = [l.strip() for l in r.stdout.splitlines() if l.startswith("  obligation")]
            res["checks"][p] = {"rc": r.returncode, "violations": len(viol), "first": (det or viol)[:2], "secs": round(time.time() - t, 1)}
finally:
    if SCRATCH:
        shutil.rmtree(TREE, ignore_errors=True)
    else:
        subprocess.run(["git", "-C", "/repo", "checkout", "--", "."], check=True)
    shutil.rmtree("/tmp/seed-evidence-" + sid, ignore_errors=True)
dst = os.path.join(V, "seeded", sid)
os.makedirs(dst, exist_ok=True)
if os.path.abspath(src) != os.path.abspath(dst):
    shutil.copy(patch, os.path.join(dst, "patch.diff"))
    shutil.copy(demo, os.path.join(dst, "demo.py"))
meta["confirmed"] = {"demo_clean_rc": rc0, "demo_patched_rc": res.get("demo_patched_rc"), "what_i_ran": [
    "demo on clean /repo", "git -C /repo apply patch.diff", "demo with patch", "./check " + " ".join(props), "git -C /repo checkout -- ."],
    "checks": {**meta.get("confirmed", {}).get("checks", {}), **res["checks"]} if False else res["checks"]}
json.dump(meta, open(os.path.join(dst, "meta.json"), "w"), indent=1)
print(json.dumps(res, indent=1))
