"""Native triage for contracts/c03_schematree.py: runs the REAL functions of the tree under check (VERIF_REPO or /repo)
on the counter-models of the refuted obligations.  Usage: tools/schematree_native.py [ill|dots|order|codec|all]"""
import io
import os
import sys
import tempfile
import traceback

sys.path.insert(0, "/verif")
from runtime.harness import import_fastparquet  # noqa: E402

fp = import_fastparquet()
import numpy as np  # noqa: E402
import pandas as pd  # noqa: E402
from fastparquet import parquet_thrift as pt, schema as sch  # noqa: E402
from fastparquet.cencoding import ThriftObject, from_buffer  # noqa: E402


def se(name, nc=None, **kw):
    d = dict(name=name, **kw)
    if nc is not None:
        d["num_children"] = nc
    return pt.SchemaElement(i32=True, **d)


def tree_of(helper):
    def rec(e):
        ch = e["children"] if "children" in e.contents or hasattr(e, "children") else {}
        return (e.name, [rec(c) for c in ch.values()])
    return rec(helper.root)


def attempt(label, fn):
    try:
        r = fn()
        print(f"  {label}: returned {r!r}")
        return ("ret", r)
    except Exception as ex:
        print(f"  {label}: raised {type(ex).__name__}: {str(ex)[:120]}")
        return ("raise", type(ex).__name__)


def direct(label, elems):
    def run():
        h = sch.SchemaHelper(elems)
        return {"root_children": list(h.root["children"]), "n_elements": len(elems)}
    return attempt(label, run)


def ill():
    print("== ill-formed pre-order lists, direct SchemaHelper(...) ==")
    I32 = pt.Type.INT32
    direct("well-formed  [root/2, a, b]", [se("schema", 2), se("a", type=I32), se("b", type=I32)])
    direct("LEFTOVER     [root/1, a, b]   (b is never reached)", [se("schema", 1), se("a", type=I32), se("b", type=I32)])
    direct("LEFTOVER in group [root/1, g/1, x, y]", [se("schema", 1), se("g", 1), se("x", type=I32), se("y", type=I32)])
    direct("OVERRUN      [root/3, a, b]", [se("schema", 3), se("a", type=I32), se("b", type=I32)])
    direct("OVERRUN in group [root/1, g/2, x]", [se("schema", 1), se("g", 2), se("x", type=I32)])
    direct("DUPLICATE siblings [root/2, a, a, b] (dict keyed by name: third element absorbed)",
           [se("schema", 2), se("a", type=I32), se("a", type=I32), se("b", type=I32)])
    direct("DUPLICATE siblings exact [root/2, a, a] ", [se("schema", 2), se("a", type=I32), se("a", type=I32)])
    direct("root without num_children [root/None, a]", [se("schema"), se("a", type=I32)])
    direct("negative count [root/-1, a]", [se("schema", -1), se("a", type=I32)])
    print("== the same through a real file: footer re-written with a wrong root.num_children ==")
    d = tempfile.mkdtemp(prefix="schematree-")
    fn = os.path.join(d, "t.parq")
    df = pd.DataFrame({"a": np.arange(4, dtype="int32"), "b": np.arange(4, dtype="int32") * 10})
    fp.write(fn, df)
    pf = fp.ParquetFile(fn)
    print("  clean file columns:", pf.columns)
    for delta, what in ((-1, "LEFTOVER (root.num_children = 1 of 2)"), (+1, "OVERRUN (root.num_children = 3 of 2)")):
        pf = fp.ParquetFile(fn)
        fmd = pf.fmd
        fmd.schema[0].num_children = fmd.schema[0].num_children + delta
        fn2 = os.path.join(d, f"bad{delta}.parq")
        raw = open(fn, "rb").read()
        import struct
        flen = struct.unpack("<I", raw[-8:-4])[0]
        body = raw[:len(raw) - 8 - flen]
        foot = fmd.to_bytes()
        open(fn2, "wb").write(body + foot + struct.pack("<I", len(foot)) + b"PAR1")

        def run():
            p2 = fp.ParquetFile(fn2)
            out = p2.to_pandas()
            return {"columns": list(out.columns), "rows": len(out), "chunks_in_row_group": len(p2.row_groups[0].columns)}
        attempt(what, run)


def dots():
    print("== a flat column whose name contains '.' (schema_element(str) splits on '.') ==")
    d = tempfile.mkdtemp(prefix="schematree-")
    fn = os.path.join(d, "t.parq")
    df = pd.DataFrame({"a.x": np.arange(6, dtype="int64"), "b": np.arange(6, dtype="int64")})
    fp.write(fn, df, row_group_offsets=[0, 3], stats=True)
    pf = fp.ParquetFile(fn)
    attempt("to_pandas()", lambda: pf.to_pandas().to_dict("list"))
    attempt("schema_element(['a.x'])  (path as list)", lambda: pf.schema.schema_element(["a.x"]).name)
    attempt("schema_element('a.x')    (path as str)", lambda: pf.schema.schema_element("a.x").name)
    attempt("to_pandas(filters=[('a.x', '>', 2)])", lambda: pf.to_pandas(filters=[("a.x", ">", 2)]).to_dict("list"))
    attempt("to_pandas(filters=[('b', '>', 2)])", lambda: pf.to_pandas(filters=[("b", ">", 2)]).to_dict("list"))
    attempt("is_required('a.x')", lambda: pf.schema.is_required("a.x"))
    attempt("max_definition_level(['a.x'])", lambda: pf.schema.max_definition_level(["a.x"]))
    I32 = pt.Type.INT32
    print("== dotted top-level name colliding with a nested leaf path ==")
    elems = [se("schema", 2), se("a.x", type=I32, repetition_type=0), se("a", 1, repetition_type=0), se("x", type=pt.Type.INT64, repetition_type=0)]
    h = sch.SchemaHelper(elems)
    print("  flat map keys:", list(h.root["children"]), " 'a.x' ->", "INT32 top-level column" if h.root["children"]["a.x"].type == I32 else "INT64 nested leaf a/x (top-level column 'a.x' lost)")


def order():
    print("== leaf order of the flat name map vs schema (= column chunk) order ==")
    I32 = pt.Type.INT32
    elems = [se("schema", 2), se("g", 2, repetition_type=0), se("x", type=I32, repetition_type=0), se("y", type=I32, repetition_type=0),
             se("b", type=I32, repetition_type=0)]
    h = sch.SchemaHelper(elems)
    print("  schema leaves in pre-order : ['g.x', 'g.y', 'b']")
    print("  root['children'] keys      :", list(h.root["children"]))
    print("  leaves offered as columns  :", [k for k, f in h.root["children"].items() if getattr(f, "isflat", False) is False])
    fn = "/repo/test-data/nested1.parquet"
    for f in ("nested1.parquet", "nested.parq", "repeated_no_annotation.parquet"):
        path = os.path.join("/repo/test-data", f)
        if os.path.exists(path) and os.path.getsize(path):
            try:
                pf = fp.ParquetFile(path)
                print(f"  {f}: columns={pf.columns}  chunk paths={['.'.join(c.meta_data.path_in_schema) for c in pf.row_groups[0].columns]}")
            except Exception as ex:
                print(f"  {f}: {type(ex).__name__}: {ex}")


def codec():
    print("== compress_data with a numeric codec ==")
    from fastparquet import compression as C
    attempt("compress_data(b'abc', 1)   (int argument)", lambda: C.compress_data(b"abc", 1))
    attempt("compress_data(b'abc', {'type': 1})", lambda: C.compress_data(b"abc", {"type": 1}))
    attempt("decompress_data(snappy(b'abc'), 3, 1)", lambda: bytes(C.decompress_data(C.compress_data(b"abc", "SNAPPY"), 3, 1)))
    attempt("decompress_data(b'', 0, 99) (number outside the enum)", lambda: C.decompress_data(b"", 0, 99))
    attempt("decompress_data(b'', 0, 2)  (LZO: in the enum, library absent)", lambda: C.decompress_data(b"", 0, 2))
    print("  compressions:", sorted(C.compressions), " decompressions:", sorted(C.decompressions), " rev_map:", C.rev_map)


if __name__ == "__main__":
    what = sys.argv[1] if len(sys.argv) > 1 else "all"
    for nm, f in (("ill", ill), ("dots", dots), ("order", order), ("codec", codec)):
        if what in (nm, "all"):
            try:
                f()
            except Exception:
                traceback.print_exc()


def rewrite_footer(src, dst, mutate):
    import struct
    raw = open(src, "rb").read()
    flen = struct.unpack("<I", raw[-8:-4])[0]
    fmd = from_buffer(raw[len(raw) - 8 - flen:len(raw) - 8], "FileMetaData")        # a fresh parse (a ParquetFile's fmd holds re-stored lists)
    mutate(fmd)
    foot = fmd.to_bytes()
    open(dst, "wb").write(raw[:len(raw) - 8 - flen] + foot + struct.pack("<I", len(foot)) + b"PAR1")


def files():
    print("== crafted FILES (a flat fastparquet file whose footer is re-written; data pages untouched) ==")
    d = tempfile.mkdtemp(prefix="schematree-")
    src = os.path.join(d, "flat.parq")
    df = pd.DataFrame({"x": np.arange(4, dtype="int32"), "y": np.arange(4, dtype="int32") * 10, "b": np.arange(4, dtype="int32") * 100})
    fp.write(src, df, has_nulls=False)

    def struct_first(fmd):
        s = fmd.schema
        g = pt.SchemaElement(name="g", num_children=2, repetition_type=0, i32=True)
        s[0].num_children = 2                      # (before the list is stored: reading fmd.schema back after storing ThriftObjects is finding C10-P-setattr-list-unchecked-cast)
        fmd.key_value_metadata = []
        fmd.schema = [s[0], g, s[1], s[2], s[3]]
        for rg in fmd.row_groups:
            rg.columns[0].meta_data.path_in_schema.insert(0, "g")      # in place (assigning a list to a thrift attribute is finding
            rg.columns[1].meta_data.path_in_schema.insert(0, "g")      #  C10-P-setattr-list-unchecked-cast: it crashes the interpreter)
    dst = os.path.join(d, "struct_first.parq")
    rewrite_footer(src, dst, struct_first)

    def run():
        pf = fp.ParquetFile(dst)
        out = pf.to_pandas()
        return {"schema leaves / column chunks": [".".join(c.meta_data.path_in_schema) for c in pf.row_groups[0].columns], "DataFrame columns": list(out.columns),
                "values": out.to_dict("list")}
    attempt("struct group before a flat column  [schema/2, g/2, x, y, b]", run)

    def collide(fmd):
        s = fmd.schema
        a = pt.SchemaElement(name="a", num_children=1, repetition_type=0, i32=True)
        s[1].name = "a.x"
        s[2].name = "x"
        s[0].num_children = 2
        fmd.key_value_metadata = []
        for rg in fmd.row_groups:
            rg.columns[0].meta_data.path_in_schema[0] = "a.x"
            rg.columns[1].meta_data.path_in_schema[0] = "x"
            rg.columns[1].meta_data.path_in_schema.insert(0, "a")
            del rg.columns[2]
        fmd.schema = [s[0], s[1], a, s[2]]
    dst2 = os.path.join(d, "collide.parq")
    rewrite_footer(src, dst2, collide)

    def run2():
        pf = fp.ParquetFile(dst2)
        out = pf.to_pandas()
        return {"column chunks": [c.meta_data.path_in_schema for c in pf.row_groups[0].columns], "DataFrame": out.to_dict("list"),
                "written": {"a.x": [0, 1, 2, 3], "a/x": [0, 10, 20, 30]}}
    attempt("top-level column 'a.x' next to struct a{x}  [schema/2, 'a.x', a/1, x]", run2)
    f = "/repo/test-data/repeated_no_annotation.parquet"
    if os.path.exists(f) and os.path.getsize(f):
        pf = fp.ParquetFile(f)
        print("  repeated_no_annotation.parquet: column chunks", [".".join(c.meta_data.path_in_schema) for c in pf.row_groups[0].columns], "-> columns offered", pf.columns,
              "(no exception)")


if __name__ == "__main__" and (len(sys.argv) > 1 and sys.argv[1] in ("files", "all")):
    try:
        files()
    except Exception:
        traceback.print_exc()
