"""standalone probe of contracts/c17_makemeta.py: prints every obligation that is not PROVED (and a count), per family
   usage: tools/makemeta_probe.py [family substring] [-v]"""
import sys, time, os, tempfile
sys.path.insert(0, '/verif')
os.environ.setdefault("VERIF_EVIDENCE_DIR", tempfile.mkdtemp(prefix="mm-ev-"))
os.environ.setdefault("VERIF_REPLAY_DIR", tempfile.mkdtemp(prefix="mm-rp-"))
from vlib.common import Ctx
from contracts import c17_makemeta as M

if __name__ == "__main__":
    args = [a for a in sys.argv[1:] if not a.startswith("-")]
    verbose = "-v" in sys.argv
    prop = next((a[2:] for a in sys.argv[1:] if a.startswith("-p")), "C17")
    ctx = Ctx(prop)
    t0 = time.time()
    out = M.check(ctx, 10000, only=args[0] if args else None)
    n = {"proved": 0, "refuted": 0, "unknown": 0}
    for res in out:
        for name in res.order:
            st = res.status(name)
            n[st] += 1
            e = next((x for x in res.d[name] if x[0] == st), res.d[name][0])
            if st != "proved" or verbose:
                print(f"{st:8s} {name}  [{e[3]}, {sum(x[2] for x in res.d[name]):.2f}s]")
                if st != "proved":
                    print("         ", str(e[4])[:400])
                    print("         model:", str(e[1])[:500])
    print(n, f"{time.time() - t0:.1f}s", "engine_errors:", ctx.engine_errors)
