"""run the C08 contract probe against a scratch copy of /repo with one canary of canaries/C08.json applied: tools/c08mut.py <name> [filter]"""
import json, os, shutil, subprocess, sys, tempfile
name = sys.argv[1]
c = next(x for x in json.load(open('/verif/canaries/C08.json')) if x['name'] == name)
d = tempfile.mkdtemp(prefix='verif-c08mut-')
try:
    shutil.copytree('/repo/fastparquet', os.path.join(d, 'fastparquet'), ignore=shutil.ignore_patterns('__pycache__', 'test', 'benchmarks'))
    for rel, old, new in c['edits']:
        p = os.path.join(d, rel); s = open(p).read(); assert s.count(old) == 1, (rel, old, s.count(old)); open(p, 'w').write(s.replace(old, new))
    r = subprocess.run(['/verif/.venv/bin/python', '/verif/tools/c08probe.py'] + sys.argv[2:], env=dict(os.environ, VERIF_REPO=d), capture_output=True, text=True, cwd='/verif')
    print("\n".join(l for l in r.stdout.splitlines() if not l.startswith('proved')))
    print(r.stderr[-1500:])
finally:
    shutil.rmtree(d)
