"""the canaries of canaries/C12speedups.json through tools/mut.run_canary (the WHOLE ./check <prop> on a scratch copy), with the violation
lines split into those of the speedups part and those of other parts (other agents' parts may carry findings that are not merged yet).
usage: spdmut_official.py <known-file> [name-substring ...]"""
import json
import os
import sys

sys.path.insert(0, "/verif/tools")
import mut    # noqa: E402

MINE = ("pack_byte_array", "unpack_byte_array", "array_encode_utf8", "callsite.read_plain", "callsite.read_dictionary_page", "callsite.read_data_page",
        "callsite.encode_plain", "callsite.convert", "spec.", "roundtrip.", "speedups[")
os.environ["VERIF_KNOWN_FILE"] = sys.argv[1]
sel = sys.argv[2:]
bad = 0
for c in json.load(open("/verif/canaries/C12speedups.json")):
    if sel and not any(s in c["name"] for s in sel):
        continue
    res, err = mut.run_canary(c["prop"], c["edits"], "quick", c.get("env"))
    if err:
        print(f"[{c['name']}] NOT APPLICABLE {err}")
        bad += 1
        continue
    rc, viol, detail, stderr = res
    mine = [l.strip() for l in detail if l.strip().split(" ", 1)[1].startswith(MINE)]
    others = [l.strip() for l in detail if l.strip() not in mine]
    got = "violation" if mine else "clean"
    ok = got == c.get("expect", "violation") and rc in (0, 1)
    bad += 0 if ok else 1
    print(f"[{c['name']}] prop={c['prop']} rc={rc} expect={c.get('expect', 'violation')} speedups-part={got} {'OK' if ok else 'MISMATCH'}"
          f" (violation lines of other parts: {len(others)})")
    for l in mine[:3]:
        print("      ", l[:160])
    for l in others[:2]:
        print("       other part:", l[:120])
sys.exit(1 if bad else 0)
