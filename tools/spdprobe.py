"""standalone probe for contracts/c12_speedups.py:  spdprobe.py [task ...]   (default: all tasks)"""
import sys
import time
import traceback

sys.path.insert(0, "/verif")
from contracts import c12_speedups as c    # noqa: E402

tasks = sys.argv[1:] or c.TASKS
tot = {"proved": 0, "refuted": 0, "unknown": 0}
t00 = time.time()
for t in tasks:
    t0 = time.time()
    try:
        res = c.run_task(t, 20000)
    except Exception:
        traceback.print_exc()
        continue
    print(f"=== {t}: {time.time() - t0:.1f}s")
    for name in res.order:
        es = res.d[name]
        st = res.status(name)
        tot[st] += 1
        e = next(x for x in es if x[0] == st)
        extra = f"  model={e[1]}" if st == "refuted" else (f"  ({e[4][:90]})" if st == "unknown" and e[4] else "")
        print(f"  {st:8s} {res.kind.get(name, '?'):10s} {name}  x{len(es)} {sum(x[2] for x in es):.2f}s{extra}")
print(tot, f"{time.time() - t00:.1f}s")
