import sys; sys.path.insert(0,'/verif')
from vlib.common import Ctx
from contracts import c07_parts
ctx=Ctx('C07')
for res in c07_parts.check(ctx, 10000):
    for n in res.order: print(n, res.status(n), [str(e[1])[:160] for e in res.d[n] if e[1]][:1], [e[4] for e in res.d[n] if e[0]!='proved'][:1])
print(ctx.engine_errors)
