#!/usr/bin/env python3
"""Stand-alone driver for ONE P wiring helper (props/_<name>.py) - used while the helper is not yet listed in props/<Cxx>.py.

  tools/pprobe.py C04 props._sorted.p_sorted                 run on /repo, print obligations / violations
  tools/pprobe.py C04 props._sorted.p_sorted --canaries canaries/C04.json
        every canary: scratch copy of /repo/fastparquet outside /repo and /verif, edits applied, helper run in a subprocess with
        VERIF_REPO pointing at the copy; expect 'violation' (>= 1 VIOLATION line) or 'clean'
Known findings: KNOWN_FINDINGS.jsonl merged with contracts/findings.jsonl (lines not merged yet) into a temporary file.
"""
import importlib
import json
import os
import shutil
import subprocess
import sys
import tempfile

VERIF = os.path.dirname(os.path.dirname(os.path.abspath(__file__)))
sys.path.insert(0, VERIF)


def known_file():
    seen, out = set(), []
    for f in (os.path.join(VERIF, "KNOWN_FINDINGS.jsonl"), os.path.join(VERIF, "contracts", "findings.jsonl")):
        for l in open(f):
            l = l.strip()
            if l and not l.startswith("#"):
                r = json.loads(l)
                if r["id"] not in seen:
                    seen.add(r["id"])
                    r.setdefault("status", "known")
                    out.append(r)
    fd, path = tempfile.mkstemp(prefix="verif-known-", suffix=".jsonl")
    with os.fdopen(fd, "w") as fh:
        for r in out:
            fh.write(json.dumps(r) + "\n")
    return path


def run_here(prop, target, verbose):
    from vlib.common import Ctx
    mod, fn = target.rsplit(".", 1)
    ctx = Ctx(prop)
    from vc.symexec import Unsupported
    try:
        getattr(importlib.import_module(mod), fn)(ctx)
    except Unsupported as ex:
        ctx.obligation(fn + ".out_of_reach", "?", "unknown", "engine", 0.0, detail=str(ex))
    except Exception as ex:
        import traceback
        traceback.print_exc()
        ctx.obligation(fn + ".out_of_reach", "?", "unknown", "engine", 0.0, detail=f"{type(ex).__name__}: {ex}")
    n = {}
    for o in ctx.obligations:
        n[o["status"]] = n.get(o["status"], 0) + 1
        if verbose or o["status"] != "proved":
            print(f"  {o['status']:14s} {o['secs']:6.2f}s {o['name']}  -- {str(o.get('detail'))[:150]}" +
                  (f"  MODEL {str(o.get('model'))[:300]}" if o.get("model") else ""))
    print("SUMMARY", n, "solver_s=%.2f" % sum(o["secs"] for o in ctx.obligations), "violations=%d" % len(ctx.violations),
          "engine_errors=%s" % ctx.engine_errors, "vacuity=%s" % ctx.vacuity)
    return 1 if ctx.violations else (3 if ctx.engine_errors else 0)


def main():
    a = sys.argv[1:]
    prop, target = a[0], a[1]
    if "--here" in a:
        sys.exit(run_here(prop, target, "-v" in a))
    kf = known_file()
    env = dict(os.environ, VERIF_KNOWN_FILE=kf)
    try:
        if "--canaries" not in a:
            r = subprocess.run([sys.executable, __file__, prop, target, "--here"] + (["-v"] if "-v" in a else []), env=env)
            sys.exit(r.returncode)
        bad = 0
        for c in json.load(open(a[a.index("--canaries") + 1])):
            d = tempfile.mkdtemp(prefix="verif-canary-")
            try:
                shutil.copytree("/repo/fastparquet", os.path.join(d, "fastparquet"),
                                ignore=shutil.ignore_patterns("__pycache__", "test", "benchmarks"))
                err = None
                for rel, old, new in c["edits"]:
                    p = os.path.join(d, rel)
                    s = open(p).read()
                    if s.count(old) != 1:
                        err = f"edit does not apply uniquely ({s.count(old)} matches) in {rel}: {old[:50]!r}"
                        break
                    open(p, "w").write(s.replace(old, new))
                if err:
                    print(f"[canary {c['name']}] NOT APPLICABLE: {err}")
                    bad += 1
                    continue
                e2 = dict(env, VERIF_REPO=d, VERIF_EVIDENCE_DIR=os.path.join(d, "evidence"), VERIF_REPLAY_DIR=os.path.join(d, "replays"))
                r = subprocess.run([sys.executable, __file__, prop, target, "--here"], env=e2, capture_output=True, text=True)
                viol = [l for l in r.stdout.splitlines() if l.startswith("  obligation")]
                got = "violation" if r.returncode == 1 and viol else "clean" if r.returncode == 0 else f"rc={r.returncode}"
                ok = got == c.get("expect", "violation")
                print(f"[canary {c['name']}] expect={c.get('expect', 'violation')} got={got} {'OK' if ok else 'MISMATCH'}")
                for l in viol[:3]:
                    print("     ", l.strip()[:230])
                if not ok or "-v" in a:
                    print("\n".join("      | " + l for l in (r.stdout + r.stderr).splitlines()[-25:]))
                bad += 0 if ok else 1
            finally:
                shutil.rmtree(d, ignore_errors=True)
        sys.exit(1 if bad else 0)
    finally:
        os.unlink(kf)


if __name__ == "__main__":
    main()
