#!/usr/bin/env python3
"""Re-evaluate some seeds on scratch copies and replace their rows in seeded/RESULTS.jsonl:  tools/seed_reeval.py C10-m3 C16-m1[:C14] ..."""
import json, os, subprocess, sys
V = os.path.dirname(os.path.dirname(os.path.abspath(__file__)))
p = os.path.join(V, "seeded", "RESULTS.jsonl")
rows = {json.loads(l)["seed"]: json.loads(l) for l in open(p) if l.strip()}
for a in sys.argv[1:]:
    s, *extra = a.split(":")
    prop = s.split("-")[0]
    r = subprocess.run([sys.executable, os.path.join(V, "tools", "seed_eval.py"), os.path.join(V, "seeded", s), s, prop] + extra,
                       capture_output=True, text=True, env=dict(os.environ, SEED_SCRATCH="1"))
    t = r.stdout
    j = json.loads(t[t.index("{"):])
    rows[s] = {"seed": s, "demo_clean": j["demo_clean_rc"], "demo_patched": j.get("demo_patched_rc"),
               "checks": {k: {"rc": v["rc"], "violations": v["violations"], "first": (v["first"][:1] or [""])[0][:200]} for k, v in j["checks"].items()}}
    print(s, {k: (v["rc"], v["violations"]) for k, v in rows[s]["checks"].items()})
open(p, "w").write("".join(json.dumps(rows[k]) + "\n" for k in sorted(rows)))
