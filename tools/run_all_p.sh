#!/bin/bash
# quick regression: the P layer of every property (bounded layer skipped), in parallel
cd /verif
for p in C01 C02 C05 C07 C09 C10 C11 C12 C16 C18 C19; do
  ( VERIF_SKIP_BOUNDED=1 VERIF_EVIDENCE_DIR=/tmp/evp ./check $p > /tmp/vp_$p.log 2>&1; echo "$p rc=$? viol=$(grep -c ^VIOLATION /tmp/vp_$p.log) $(python3 -c "
import json; e=json.load(open('/tmp/evp/$p.json')); c=e['coverage']; print(e['level'], c['obligations'], c['discharged'], 'undecided', len(c['undecided']))")" ) &
done; wait
