#!/usr/bin/env python3
"""Merge runtime/findings/*.jsonl (authored per bounded module) and contracts/findings.jsonl (P layer) into
/verif/KNOWN_FINDINGS.jsonl (the committed known-findings file; never written at check run time)."""
import glob, json, os
V = os.path.dirname(os.path.dirname(os.path.abspath(__file__)))
recs, seen = [], set()
for f in [os.path.join(V, "contracts", "findings.jsonl")] + sorted(glob.glob(os.path.join(V, "runtime", "findings", "*.jsonl"))):
    if not os.path.exists(f):
        continue
    for l in open(f):
        l = l.strip()
        if not l or l.startswith("#"):
            continue
        r = json.loads(l)
        assert r["id"] not in seen, "duplicate finding id " + r["id"]
        seen.add(r["id"])
        r.setdefault("status", "known")
        r["source_file"] = os.path.relpath(f, V)
        recs.append(r)
with open(os.path.join(V, "KNOWN_FINDINGS.jsonl"), "w") as out:
    for r in recs:
        out.write(json.dumps(r) + "\n")
print(len(recs), "findings")
