import sys; sys.path.insert(0,'/verif')
from vlib.common import Ctx
from contracts import c07_append
ctx=Ctx('C07')
for res in c07_append.check(ctx, 10000):
    for n in res.order: print(n, res.status(n), [str(e[1])[:120] for e in res.d[n] if e[1]][:1])
