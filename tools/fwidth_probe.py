"""probe for contracts/c10_fieldwidth.py"""
import sys, collections
sys.path.insert(0, '/verif')
from contracts import c10_fieldwidth as T
res = T.check(None)
c = collections.Counter()
for n in res.order:
    st = res.status(n); c[st] += 1
    e = res.d[n][0]
    if st != "proved" or "-v" in sys.argv:
        print(st, n, "\n     ", e[4], e[1] or "")
print(c)
