import sys; sys.path.insert(0,'/verif')
import z3
from vlib.common import Ctx
from contracts import c08_paths as c
from vc.front_py import parse_module
ctx=Ctx('C08')
u,_,_=parse_module("fastparquet/util.py"); a,_,_=parse_module("fastparquet/api.py")
af=dict(a); af["_strip_path_tail"]=u["_strip_path_tail"]
import contracts.c08_paths as m
orig=m.Eng.run
res=c.run_paths_to_cats(ctx, af, 10000, sys.argv[1], sys.argv[2]=="1", sys.argv[3]=="1", (sys.argv+["1"])[4]=="1")
for n in res.order:
    if res.status(n)!='proved': print(res.status(n), n, [str(e[1])[:3000] for e in res.d[n] if e[1]][:1])
