import sys, time; sys.path.insert(0,'/verif')
import z3
from contracts import cy
from vc.symexec import *
from vc import backends
loops={('read_rle',0):LoopSpec('unroll',4), ('read_rle',1):LoopSpec('unroll',1), ('read_rle',2):LoopSpec('unroll',1)}
eng = cy.engine(loops=loops); p=Path(); f=cy.new_io(p,'f'); o=cy.new_io(p,'o')
header=cy.arg('header','int32_t',p); bw=cy.arg('bit_width','int32_t',p)
p.pc += [header.iv>=0, bw.iv>=0, bw.iv<=32, cy.nbytes(p,'f') - cy.loc(p,'f') >= (bw.iv+7)/8]
outs=eng.run('read_rle', p, [f, header, bw, o, PyI(4, lit=True)])
for ob in eng.oblig:
    if 'loop0.unwind' in ob.name:
        print(ob.name); 
        for c in ob.pc: print('   ', c)
        break
