#!/usr/bin/env python3
"""native replays of the refuted obligations of contracts/c01_units.py on the tree under check (VERIF_REPO or /repo)"""
import sys, os, tempfile, warnings
sys.path.insert(0, '/verif')
warnings.simplefilter("ignore")
from runtime.harness import import_fastparquet
fp = import_fastparquet()
import numpy as np, pandas as pd
from fastparquet import writer, converted_types as ct, parquet_thrift as pt
d = tempfile.mkdtemp()
fn = os.path.join(d, "x.parq")

def rt(s, **kw):
    fp.write(fn, pd.DataFrame({"x": s}), **kw)
    return fp.ParquetFile(fn).to_pandas()["x"]

print("1. timedelta64[s] written unscaled as TIME_MICROS")
s = pd.Series(np.array([1, 2, 3], dtype="m8[s]"))
se, _ = writer.find_type(s.rename("x"))
print("   annotation:", pt.ConvertedType._VALUES_TO_NAMES[se.converted_type], " stored int64:", np.asarray(writer.convert(s.rename("x"), se)).view("i8").tolist(), "(1 s == 1000000 us)")
try:
    print("   read back:", rt(s).tolist())
except Exception as ex:
    print("   read back raises:", type(ex).__name__, ex)
s = pd.Series(np.array([1000, 5], dtype="m8[ms]"))
try:
    print("   timedelta64[ms] [1000, 5] read back:", rt(s).values)
except Exception as ex:
    print("   timedelta64[ms] read back raises:", type(ex).__name__, ex)

print("2. times='int96' with datetime64[us]: day / nanosecond split of the raw count")
s = pd.Series(np.array(["2020-01-01T00:00:00"], dtype="M8[us]"))
se, _ = writer.find_type(s.rename("x"), times="int96")
print("   stored (ns, julian day):", writer.convert(s.rename("x"), se).tolist(), " expected (0, 2458850)")
print("   read back:", rt(s, times="int96").values)

print("3. datetime64[s] * 1000 wraps silently")
for v in (2 ** 61, "NaT", 9223372036854776):
    s = pd.Series(np.array([v], dtype="M8[s]"))
    se, _ = writer.find_type(s.rename("x"))
    print(f"   v={v}: stored int64 (TIMESTAMP_MILLIS) =", writer.convert(s.rename("x"), se).tolist(), end="  ")
    try:
        print("read back (has_nulls=False):", rt(s, has_nulls=False).values)
    except Exception as ex:
        print("read back raises:", type(ex).__name__, str(ex)[:80])

print("4. DATE beyond the datetime64[ns] range (valid file of another writer: 3000-01-01 = day 376200)")
se = pt.SchemaElement(name="x", type=pt.Type.INT32, converted_type=pt.ConvertedType.DATE)
print("   convert([376200, 106751, 106752]) =", ct.convert(np.array([376200, 106751, 106752], dtype="int32"), se), " typemap:", ct.typemap(se))

print("5. INT96 beyond the datetime64[ns] range (3000-01-01 = Julian day 2816788)")
se = pt.SchemaElement(name="x", type=pt.Type.INT96)
a = np.zeros(2, dtype=[("ns", "i8"), ("day", "i4")]); a["day"] = [2816788, 2440588 + 106752]
print("   convert =", ct.convert(a.view("S12"), se))

print("6. converts_inplace(DATE / TIME_MILLIS) is True: the DELTA_BINARY_PACKED branch of read_data_page_v2 (core.py L413-419) decodes INT32 straight into the 8-byte output")
import fastparquet.cencoding as encoding          # as core.py imports it
from spec import pqwrite
for cvname, dt in (("DATE", "M8[ns]"), ("TIME_MILLIS", "m8[ms]")):
    se = pt.SchemaElement(name="x", type=pt.Type.INT32, converted_type=getattr(pt.ConvertedType, cvname))
    vals = [18262, 18263, 18264, 18270]
    raw = np.frombuffer(pqwrite.delta_encode(vals, bits=32), dtype="uint8")
    assign = np.zeros(len(vals), dtype=ct.typemap(se))
    print(f"   {cvname}: converts_inplace =", ct.converts_inplace(se), " typemap =", ct.typemap(se), end="  ")
    try:
        # the statements of the branch, verbatim
        encoding.delta_binary_unpack(encoding.NumpyIO(raw), encoding.NumpyIO(assign.view('uint8')))
        ct.convert(assign, se)
        print("output =", assign, " (values", vals, ")")
    except Exception as ex:
        print("raises", type(ex).__name__, str(ex)[:90], "| output array so far:", assign.view("i8").tolist())

print("7. append of a frame whose column dtype is wider than the dataset column: names are checked, dtypes are not; convert narrows silently")
import shutil
for base, app in ((np.array([1, 2], "int32"), np.array([2 ** 31 + 5, 7], "int64")), (np.array([1, 2], "int8"), np.array([300, 7], "int64")),
                  (np.array([1, 2], "uint32"), np.array([-1, 7], "int64")), (np.array([1, 2], "int64"), np.array([1.5, 7.0], "float64")),
                  (np.array([1.5, 2.0], "float32"), np.array([16777217, 7], "int64"))):
    dn = os.path.join(d, "ds"); shutil.rmtree(dn, ignore_errors=True)
    fp.write(dn, pd.DataFrame({"x": base}), file_scheme="hive")
    try:
        fp.write(dn, pd.DataFrame({"x": app}), file_scheme="hive", append=True)
        print(f"   dataset column {base.dtype}, appended {app.dtype} {app.tolist()} -> reads", fp.ParquetFile(dn).to_pandas()["x"].tolist())
    except Exception as ex:
        print(f"   dataset column {base.dtype}, appended {app.dtype} {app.tolist()} -> raises {type(ex).__name__}: {str(ex)[:80]}")
