"""native triage of the counter-models of contracts/c10_thriftobj.py on the unchanged tree (each case in a subprocess: some crash)"""
import subprocess, sys, textwrap, json
PRE = """
import sys
sys.path.insert(0, "/verif"); sys.path.insert(0, "/repo")
from fastparquet.cencoding import ThriftObject, from_buffer, dict_eq
from fastparquet import parquet_thrift
from spec import thrift_idl as T
idl = T.load()
def strict(name, b):
    try:
        return T.dec(idl, name, bytes(b))[0]
    except Exception as e:
        return "STRICT-DECODE-ERROR: %s" % e
"""
CASES = {
 "setattr.new_int_field_gets_idl_wire_type[i32 field, no marker] (foreign SchemaElement without integer fields, then .type = 2)": """
b = T.enc(idl, "SchemaElement", {"name": b"x"})
o = from_buffer(b, "SchemaElement"); print("parsed", o.contents)
o.type = 2
out = bytes(o.to_bytes()); print("re-serialised", out.hex(), "->", strict("SchemaElement", out))
""",
 "setattr.new_int_field_gets_idl_wire_type[i32 field, i32list without it] (foreign ColumnChunk with file_offset + offset_index_length, then .column_index_length = 7)": """
b = T.enc(idl, "ColumnChunk", {"file_offset": 4, "offset_index_length": 9})
o = from_buffer(b, "ColumnChunk"); print("parsed", o.contents)
o.column_index_length = 7
out = bytes(o.to_bytes()); print("re-serialised", out.hex(), "->", strict("ColumnChunk", out))
""",
 "setattr.new_int_field_gets_idl_wire_type[i64 field, 'i32' marker] (foreign ColumnChunk holding only i32 fields, then .file_offset = 2**40)": """
b = T.enc(idl, "ColumnChunk", {"offset_index_length": 9}) if False else bytes([0x65, 0x12, 0x00])   # field 6 (i32) = 9, stop
o = from_buffer(b, "ColumnChunk"); print("parsed", o.contents)
o.file_offset = 2**40
out = bytes(o.to_bytes()); print("re-serialised", out.hex(), "->", strict("ColumnChunk", out))
""",
 "setattr.unchecked_cast_is_ThriftObject (ColumnMetaData.path_in_schema = ['a', 'b'])": """
o = ThriftObject.from_fields('ColumnMetaData'); o.path_in_schema = ['a', 'b']; print(o.contents)
""",
 "setattr.unchecked_cast_is_ThriftObject (ColumnMetaData.encodings = [0, 3])": """
o = ThriftObject.from_fields('ColumnMetaData'); o.encodings = [0, 3]; print(o.contents)
""",
 "setattr.unchecked_cast_is_ThriftObject (RowGroup.columns = [plain dict])": """
o = ThriftObject.from_fields('RowGroup'); o.columns = [{1: 'x'}]; print(o.contents)
""",
 "from_fields accepts the same list (control)": """
o = ThriftObject.from_fields('ColumnMetaData', path_in_schema=['a', 'b'], encodings=[0, 3]); print(o.contents, bytes(o.to_bytes()).hex())
""",
 "from_fields.unknown_kwarg_rejected": """
o = parquet_thrift.RowGroup(num_rows=5, total_byte_sise=100); print(o.contents, "-> total_byte_size:", o.total_byte_size)
""",
 "dict_eq.symmetric_per_key / key_verdict_matches_spec (bytes on the left, the same text as str on the right)": """
print("dict_eq({1: b'k'}, {1: 'k'}) =", dict_eq({1: b'k'}, {1: 'k'}), "; dict_eq({1: 'k'}, {1: b'k'}) =", dict_eq({1: 'k'}, {1: b'k'}))
kv = ThriftObject.from_fields('KeyValue', key='k'); back = from_buffer(bytes(kv.to_bytes()), 'KeyValue')
print("given == parsed:", kv == back, "; parsed == given:", back == kv)
""",
 "thriftobj.mutation_through_wrapper_reaches_parent / copy (controls: proved obligations hold natively)": """
import copy
cc = parquet_thrift.ColumnChunk(file_offset=4, meta_data=parquet_thrift.ColumnMetaData(num_values=3))
rg = parquet_thrift.RowGroup(columns=[cc], num_rows=3)
rg.columns[0].meta_data.num_values = 99; rg.columns[0].file_path = 'p'
print("after mutation through wrappers:", rg.contents)
c = copy.copy(rg); c.num_rows = 7; print("copy changed:", c.num_rows, "original:", rg.num_rows, "markers kept:", parquet_thrift.RowGroup(num_rows=1, i32list=[7]).copy().contents)
l = rg.columns; l.append(cc); print("append to the list from getattr is lost:", len(rg.columns))
b = rg.to_bytes(); print("to_bytes length", len(b), "of a", 500000, "byte buffer; last byte", b[len(b)-1])
""",
}
def main():
    for name, code in CASES.items():
        r = subprocess.run([sys.executable, "-c", PRE + textwrap.dedent(code)], capture_output=True, text=True)
        print("###", name)
        print("    rc =", r.returncode, "(SIGSEGV)" if r.returncode == -11 else "(SIGABRT)" if r.returncode == -6 else "")
        for l in (r.stdout.strip().splitlines() + r.stderr.strip().splitlines()[-2:]):
            print("    " + l[:300])
if __name__ == "__main__":
    main()
