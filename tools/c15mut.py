"""quick mutant runner for the C15 P part only: tools/c15mut.py <file> <old> <new>  (scratch copy, VERIF_REPO)"""
import os, shutil, subprocess, sys, tempfile
rel, old, new = sys.argv[1:4]
d = tempfile.mkdtemp(prefix="verif-c15mut-")
try:
    shutil.copytree("/repo/fastparquet", os.path.join(d, "fastparquet"), ignore=shutil.ignore_patterns("__pycache__", "test", "benchmarks"))
    p = os.path.join(d, rel)
    s = open(p).read()
    assert s.count(old) == 1, s.count(old)
    open(p, "w").write(s.replace(old, new))
    r = subprocess.run(["/verif/.venv/bin/python", "/verif/tools/c15probe_all.py", "x"], env=dict(os.environ, VERIF_REPO=d), capture_output=True, text=True, cwd="/verif")
    print(r.stdout[-3000:]); print(r.stderr[-1500:])
finally:
    shutil.rmtree(d, ignore_errors=True)
