"""Standalone driver of contracts/c06_handles.py (until props/C06.py / C17.py wire props/_handles.py).

  .venv/bin/python tools/c06h_probe.py                 # run the contract on /repo (or $VERIF_REPO), print every obligation
  .venv/bin/python tools/c06h_probe.py --brief         # only non-proved obligations + totals
  .venv/bin/python tools/c06h_probe.py --props         # through props/_handles.p_handles(ctx) (what the wiring will do)
  .venv/bin/python tools/c06h_probe.py --canaries canaries/C06.json [--only substring]
        # apply each canary whose "caught_by"/"module" names this contract to a scratch copy and run THIS probe on it
Evidence / replays go to a temp dir, never to /verif/evidence.
"""
import json
import os
import shutil
import subprocess
import sys
import tempfile
import time

sys.path.insert(0, '/verif')
if "VERIF_EVIDENCE_DIR" not in os.environ:
    _t = tempfile.mkdtemp(prefix="verif-c06h-ev-")
    os.environ["VERIF_EVIDENCE_DIR"] = os.path.join(_t, "ev")
    os.environ["VERIF_REPLAY_DIR"] = os.path.join(_t, "rp")


def run_here(brief, via_props=False):
    from vlib.common import Ctx
    from contracts import c06_handles
    ctx = Ctx('C06')
    t = time.time()
    n = {"proved": 0, "refuted": 0, "unknown": 0, "refuted-known": 0}
    secs = 0.0
    refuted = []
    if via_props:
        from props._handles import p_handles
        p_handles(ctx)
        for ob in ctx.obligations:
            n[ob["status"]] = n.get(ob["status"], 0) + 1
            secs += ob["secs"]
            if ob["status"] == "refuted":
                refuted.append(ob["name"])
            if not (brief and ob["status"] == "proved"):
                print(f"{ob['status']:8s} {ob['name']}  [{ob['function']}]", ob.get("model") or "", (ob.get("detail") or "")[:160] if ob["status"] != "proved" else "")
    else:
        for res in c06_handles.check(ctx, 10000):
            for nm in res.order:
                st = res.status(nm)
                n[st] += 1
                secs += sum(e[2] for e in res.d[nm])
                if st == "refuted":
                    refuted.append(nm)
                if brief and st == "proved":
                    continue
                mdl = [str(e[1])[:300] for e in res.d[nm] if e[1]][:1]
                det = [e[4] for e in res.d[nm] if e[0] != 'proved' and e[4]][:1]
                print(f"{st:8s} {nm}  x{len(res.d[nm])}", mdl if st != "proved" else "", det if st != "proved" else "")
    if via_props:
        rc = ctx.finish("other", "probe run of props/_handles.p_handles (temp evidence dir)")
        print("finish rc", rc, "evidence", os.environ["VERIF_EVIDENCE_DIR"], "functions", len(ctx.functions), "violations", len(ctx.violations))
    print("TOTAL", n, "solver_s", round(secs, 2), "wall_s", round(time.time() - t, 2), "vacuity", ctx.vacuity,
          "engine_errors", ctx.engine_errors)
    print("REFUTED:", json.dumps(refuted))
    return refuted, n, ctx.engine_errors


def run_canaries(path, only=None):
    bad = 0
    for c in json.load(open(path)):
        if c.get("module") != "c06_handles":
            continue
        if only and only not in c["name"]:
            continue
        d = tempfile.mkdtemp(prefix="verif-c06h-")
        try:
            shutil.copytree("/repo/fastparquet", os.path.join(d, "fastparquet"), ignore=shutil.ignore_patterns("__pycache__", "test", "benchmarks"))
            err = None
            for rel, old, new in c["edits"]:
                f = os.path.join(d, rel)
                s = open(f).read()
                if s.count(old) != 1:
                    err = f"edit does not apply uniquely ({s.count(old)} matches): {old[:50]!r}"
                    break
                open(f, "w").write(s.replace(old, new))
            if err:
                print(f"[canary {c['name']}] NOT APPLICABLE: {err}")
                bad += 1
                continue
            env = dict(os.environ, VERIF_REPO=d, VERIF_EVIDENCE_DIR=os.path.join(d, "ev"), VERIF_REPLAY_DIR=os.path.join(d, "rp"),
                       PYTHONDONTWRITEBYTECODE="1", PYTHONHASHSEED="0")
            r = subprocess.run([sys.executable, os.path.abspath(__file__), "--brief"], capture_output=True, text=True, env=env, cwd="/verif")
            line = [l for l in r.stdout.splitlines() if l.startswith("REFUTED:")]
            tot = [l for l in r.stdout.splitlines() if l.startswith("TOTAL")]
            if not line:
                print(f"[canary {c['name']}] probe failed: {r.stderr[-600:]}")
                bad += 1
                continue
            refuted = json.loads(line[0][len("REFUTED:"):])
            got = "violation" if refuted else "clean"
            want = c.get("expect", "violation")
            ok = got == want
            named = c.get("caught_by")
            if ok and named and want == "violation" and not any(named in r_ for r_ in refuted):
                ok = False
            print(f"[canary {c['name']}] expect={want} got={got} {'OK' if ok else 'MISMATCH'}")
            for r_ in refuted[:6]:
                print("      refuted:", r_)
            for u in [l for l in r.stdout.splitlines() if l.startswith("unknown")][:3]:
                print("      ", u[:220])
            if tot:
                print("      ", tot[0][:200])
            bad += 0 if ok else 1
        finally:
            shutil.rmtree(d, ignore_errors=True)
    return bad


if __name__ == "__main__":
    if "--canaries" in sys.argv:
        only = sys.argv[sys.argv.index("--only") + 1] if "--only" in sys.argv else None
        sys.exit(1 if run_canaries(sys.argv[sys.argv.index("--canaries") + 1], only) else 0)
    run_here("--brief" in sys.argv, "--props" in sys.argv)
