import sys, time; sys.path.insert(0,'/verif')
from vc.front_py import parse_module
funcs,_,_=parse_module('fastparquet/writer.py')
from contracts import c16_update as C
from vlib.common import Ctx
import z3
ctx=Ctx('C16')
for case in C.CASES[:3]:
    t=time.time()
    res=C.run(ctx,funcs,5000,False,case)
    print(case[0], round(time.time()-t,1), flush=True)
    for nm in res.order: print('   ',nm, res.status(nm), [round(e[2],2) for e in res.d[nm]], flush=True)
