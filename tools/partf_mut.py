"""fast canary runner for contracts/c02_partfiles.py only (the official one is tools/mut.py --file canaries/C02parts.json, which runs the
whole C02 check per canary): scratch copy of fastparquet/ per canary, props._partfiles.p_partfiles on it, prints what is reported.
   partf_mut.py [name-substring]"""
import json, os, shutil, subprocess, sys, tempfile
from concurrent.futures import ThreadPoolExecutor
V = "/verif"
CHILD = r'''
import sys, json; sys.path.insert(0, "/verif")
from vlib.common import Ctx
from props._partfiles import p_partfiles
ctx = Ctx("C02")
p_partfiles(ctx)
bad = [(o["name"], o["status"]) for o in ctx.obligations if o["status"] not in ("proved", "refuted-known")]
print("RESULT " + json.dumps({"bad": bad, "n": len(ctx.obligations), "errors": ctx.engine_errors}))
'''


def run(c):
    d = tempfile.mkdtemp(prefix="partf-canary-")
    try:
        shutil.copytree("/repo/fastparquet", d + "/fastparquet", ignore=shutil.ignore_patterns("__pycache__", "test", "benchmarks"))
        for rel, old, new in c["edits"]:
            s = open(d + "/" + rel).read()
            assert s.count(old) == 1, (c["name"], rel)
            open(d + "/" + rel, "w").write(s.replace(old, new))
        env = dict(os.environ, VERIF_REPO=d, VERIF_EVIDENCE_DIR=d + "/ev", VERIF_REPLAY_DIR=d + "/rp")
        r = subprocess.run([V + "/.venv/bin/python", "-c", CHILD], capture_output=True, text=True, env=env, cwd=V)
        line = [l for l in r.stdout.splitlines() if l.startswith("RESULT ")]
        if not line:
            return c, None, r.stderr[-1500:]
        return c, json.loads(line[0][7:]), ""
    finally:
        shutil.rmtree(d, ignore_errors=True)


cans = [c for c in json.load(open(V + "/canaries/C02parts.json")) if len(sys.argv) < 2 or sys.argv[1] in c["name"]]
nbad = 0
with ThreadPoolExecutor(6) as ex:
    for c, res, err in ex.map(run, cans):
        if res is None:
            print(f"[{c['name']}] CRASH\n{err}")
            nbad += 1
            continue
        refuted = [n for n, s in res["bad"] if s == "refuted"]
        unknown = [n for n, s in res["bad"] if s == "unknown"]
        got = "violation" if refuted else "clean"
        ok = got == c.get("expect", "violation") and not (c.get("expect") == "clean" and unknown)
        nbad += 0 if ok else 1
        print(f"[{c['name']}] expect={c.get('expect', 'violation')} got={got} {'OK' if ok else 'MISMATCH'}  ({res['n']} obligations)")
        for n in refuted[:4]:
            print("      refuted", n)
        for n in unknown[:3]:
            print("      unknown", n)
        if res["errors"]:
            print("      engine errors:", res["errors"][:2])
sys.exit(1 if nbad else 0)
