import sys, time; sys.path.insert(0,'/verif')
from contracts import kernels as K
for w in [int(x) for x in sys.argv[1:]]:
  for lv in (0,1):
    t=time.time()
    res=K.delta_bitpacked_closure(w,lv,10000)
    bad=[(n,res.status(n)) for n in res.order if res.status(n)!='proved']
    print('w',w,'longval',lv,len(res.order),'obligations',round(time.time()-t,1),'s not proved',len(bad), flush=True)
    for n,st in bad[:6]:
        e=[x for x in res.d[n] if x[0]==st][0]; print('    ',n,st,str(e[1])[:120],'|',e[4])
