import sys, time
sys.path.insert(0, '/verif')
from contracts import c15_assembly as c
for label, fn in c.parts():
    if label not in sys.argv[1:]: continue
    t = time.time(); res = fn(20000)
    print("==", label, f"{time.time()-t:.1f}s", len(res.order), "obligations")
    for name in res.order:
        st = res.status(name); e = next(x for x in res.d[name] if x[0] == st)
        print(f"  {st:8s} {res.kind.get(name,'?'):10s} {name}  ({len(res.d[name])} paths, {sum(x[2] for x in res.d[name]):.2f}s)")
        if st != "proved": print("        ", str(e[1])[:300], "|", (e[4] or "")[:160])
