"""standalone canary / seed driver for contracts/c06_readoptions.py (until props/_readoptions.p_readoptions is wired into the properties):
   readopt_mut.py                      every entry of canaries/C06read.json, on a scratch copy, with Ctx(entry["prop"])
   readopt_mut.py --seed C14-m5 C14    /verif/seeded/<id>/patch.diff applied to a scratch copy, p_readoptions under that property"""
import json, os, shutil, subprocess, sys, tempfile
V = "/verif"
CHILD = r'''
import sys, json; sys.path.insert(0, "/verif")
from vlib.common import Ctx
from props._readoptions import p_readoptions
ctx = Ctx(sys.argv[1])
p_readoptions(ctx)
bad = [(o["name"], o["status"]) for o in ctx.obligations if o["status"] not in ("proved", "refuted-known")]
print("RESULT " + json.dumps({"bad": bad, "n": len(ctx.obligations), "errors": ctx.engine_errors}))
'''


def scratch():
    d = tempfile.mkdtemp(prefix="readopt-canary-")
    shutil.copytree("/repo/fastparquet", d + "/fastparquet", ignore=shutil.ignore_patterns("__pycache__", "test", "benchmarks"))
    return d


def run(d, prop):
    env = dict(os.environ, VERIF_REPO=d, VERIF_EVIDENCE_DIR=d + "/ev", VERIF_REPLAY_DIR=d + "/rp")
    r = subprocess.run([V + "/.venv/bin/python", "-c", CHILD, prop], capture_output=True, text=True, env=env, cwd=V)
    line = [l for l in r.stdout.splitlines() if l.startswith("RESULT ")]
    return json.loads(line[0][7:]) if line else {"crash": r.stderr[-1200:]}


def report(name, expect, res):
    if "crash" in res:
        print(f"[{name}] CRASH\n{res['crash']}")
        return False
    refuted = [n for n, s in res["bad"] if s == "refuted"]
    unknown = [n for n, s in res["bad"] if s == "unknown"]
    got = "violation" if refuted else "clean"
    ok = got == expect and not (expect == "clean" and unknown) and not res["errors"]
    print(f"[{name}] expect={expect} got={got} {'OK' if ok else 'MISMATCH'}  ({res['n']} obligations)")
    for n in refuted[:3] + ["unknown " + u for u in unknown[:2]]:
        print("      refuted", n)
    return ok


good = True
if len(sys.argv) > 1 and sys.argv[1] == "--seed":
    sid, prop = sys.argv[2], sys.argv[3]
    d = scratch()
    try:
        ap = subprocess.run(["patch", "-p1", "-s", "-d", d, "-i", f"{V}/seeded/{sid}/patch.diff"], capture_output=True, text=True)
        assert ap.returncode == 0, ap.stderr
        good = report(f"seed {sid} under {prop}", "violation", run(d, prop))
    finally:
        shutil.rmtree(d, ignore_errors=True)
else:
    for c in json.load(open(V + "/canaries/C06read.json")):
        d = scratch()
        try:
            for rel, old, new in c["edits"]:
                s = open(d + "/" + rel).read()
                assert s.count(old) == 1, (c["name"], rel)
                open(d + "/" + rel, "w").write(s.replace(old, new))
            good = report(c["name"] + " {" + c["prop"] + "}", c.get("expect", "violation"), run(d, c["prop"])) and good
        finally:
            shutil.rmtree(d, ignore_errors=True)
sys.exit(0 if good else 1)
