import sys; sys.path.insert(0,'/verif')
from vlib.common import Ctx
from contracts import c11_deflevels
ctx=Ctx('C11'); res=c11_deflevels.check(ctx, 10000)
for n in res.order: print(n, res.status(n), [str(e[1])[:140] for e in res.d[n] if e[1]][:1], [e[4] for e in res.d[n] if e[0]!='proved'][:1])
