import sys, time; sys.path.insert(0,'/verif')
from vlib.common import Ctx
from contracts import c08_paths
ctx=Ctx('C08')
t=time.time()
only = sys.argv[1:] 
n={'proved':0,'refuted':0,'unknown':0}
for res in c08_paths.check(ctx, 10000):
    for nm in res.order:
        st=res.status(nm); n[st]+=1
        if only and not any(o in nm for o in only): continue
        secs=sum(e[2] for e in res.d[nm])
        print(f"{st:8s} {secs:5.2f} {nm}", *( [str(e[1])[:300] for e in res.d[nm] if e[1]][:1] + [e[4][:200] for e in res.d[nm] if e[0]!='proved' and e[4]][:1] ))
print(n, round(time.time()-t,1),'s', ctx.engine_errors, ctx.vacuity)
