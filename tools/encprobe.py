"""standalone probe for contracts/c11_encoders.py:  encprobe.py bp 3 | bp all | varint | ..."""
import sys, time
sys.path.insert(0, '/verif')
from contracts import c11_encoders as E
from vlib.common import PROVED, REFUTED, UNKNOWN


def show(res, verbose=False):
    cnt = {PROVED: 0, REFUTED: 0, UNKNOWN: 0}
    for name in res.order:
        st = res.status(name)
        cnt[st] += 1
        secs = sum(e[2] for e in res.d[name])
        if st != PROVED or verbose:
            e = next(x for x in res.d[name] if x[0] == st)
            print(f"   {st:8s} {secs:6.2f}s {res.kind.get(name, '?'):10s} {name}   {str(e[1])[:200] if e[1] else ''} | {str(e[4])[:100]}")
    return cnt


if __name__ == "__main__":
    what = sys.argv[1]
    t0 = time.time()
    if what == "bp":
        ws = range(0, 33) if sys.argv[2] == "all" else [int(x) for x in sys.argv[2].split(",")]
        for w in ws:
            t = time.time()
            res = E.encode_bitpacked_closure(w, 10000)
            print("w =", w, show(res, "-v" in sys.argv), f"{time.time() - t:.1f}s")
    else:
        res = getattr(E, what)(10000) if len(sys.argv) < 3 or sys.argv[2].startswith("-") else getattr(E, what)(*[int(a) for a in sys.argv[2:] if not a.startswith("-")], 10000)
        print(what, show(res, "-v" in sys.argv), f"{time.time() - t0:.1f}s")
