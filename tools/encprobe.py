"""standalone probe for contracts/c11_encoders.py:  encprobe.py bp 3 | bp all | varint | ..."""
import sys, time
sys.path.insert(0, '/verif')
from contracts import c11_encoders as E
from vlib.common import PROVED, REFUTED, UNKNOWN


def show(res, verbose=False):
    cnt = {PROVED: 0, REFUTED: 0, UNKNOWN: 0}
    for name in res.order:
        st = res.status(name)
        cnt[st] += 1
        secs = sum(e[2] for e in res.d[name])
        if st != PROVED or verbose:
            e = next(x for x in res.d[name] if x[0] == st)
            print(f"   {st:8s} {secs:6.2f}s {res.kind.get(name, '?'):10s} {name}   {str(e[1])[:200] if e[1] else ''} | {str(e[4])[:100]}")
    return cnt


if __name__ == "__main__":
    what = sys.argv[1]
    t0 = time.time()
    if what == "mustfail":
        # vacuity guards: deliberately wrong specifications must be REFUTED by the same machinery
        import z3
        real = E.spec_bitpacked_value
        E.spec_bitpacked_value = lambda mem, in0, w, j, ob=32: z3.substitute(real(mem, in0, w, j, ob), (z3.BitVecVal((1 << w) - 1, 40), z3.BitVecVal((1 << (w - 1)) - 1, 40)))
        r = E.roundtrip_bitpacked(5, 10000)
        print("roundtrip with a decoder mask one bit short:", {k: r.status(k) for k in r.order}, "(must be refuted)")
        E.spec_bitpacked_value = real
        realsb = E.specbyte_of
        E.specbyte_of = lambda fn_bit, i: z3.Concat(*[fn_bit(8 * i + u) for u in range(8)])       # MSB-first bytes: wrong
        r = E.encode_bitpacked_closure(3, 10000)
        bad = [k for k in r.order if r.status(k) == REFUTED and ("output_prefix_is_spec_and_frame" in k or "payload_bits_are_spec" in k)]
        print("encode_bitpacked[w=3] against an MSB-first byte spec: refuted memory-invariant / whole-payload obligations:", len(bad), bad[:2], "(must be > 0)")
        E.specbyte_of = realsb
        sys.exit(0)
    if what == "bp":
        ws = range(0, 33) if sys.argv[2] == "all" else [int(x) for x in sys.argv[2].split(",")]
        for w in ws:
            t = time.time()
            res = E.encode_bitpacked_closure(w, 10000)
            print("w =", w, show(res, "-v" in sys.argv), f"{time.time() - t:.1f}s")
    else:
        res = getattr(E, what)(10000) if len(sys.argv) < 3 or sys.argv[2].startswith("-") else getattr(E, what)(*[int(a) for a in sys.argv[2:] if not a.startswith("-")], 10000)
        print(what, show(res, "-v" in sys.argv), f"{time.time() - t0:.1f}s")
