import sys, tempfile, os, shutil, warnings
warnings.filterwarnings("ignore")
sys.path.insert(0, "/repo")
import numpy as np, pandas as pd
from fastparquet import write, ParquetFile
d = tempfile.mkdtemp()
root = os.path.join(d, "ds")
df = pd.DataFrame({"k": pd.Series(["007", "12"], dtype="str"), "v": [1, 2]})
write(root, df, file_scheme="hive", partition_on=["k"])
pf = ParquetFile(root)
print("cats", dict(pf.cats))
for rg in pf.row_groups:
    try:
        out = pf.read_row_group_file(rg, ["v", "k"], None)
        print("read_row_group_file direct:", out.to_dict("list"))
    except Exception as e:
        print("read_row_group_file direct: EXC", type(e).__name__, e)
for i in range(len(pf.row_groups)):
    print("pf[i].to_pandas:", pf[i].to_pandas().to_dict("list"))
print("iter_row_groups:", [x.to_dict("list") for x in pf.iter_row_groups()])
shutil.rmtree(d)
