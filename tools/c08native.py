"""Native replay of the C08 P-layer refutations on the REAL functions of /repo (run: .venv/bin/python tools/c08native.py).
Each block prints what the counter-model of the named obligation does natively; it also validates the ASSUMED metadata table
(contracts/c08_paths.META) against util.get_column_metadata."""
import os, shutil, sys, tempfile, warnings
warnings.filterwarnings("ignore")
sys.path.insert(0, os.environ.get("VERIF_REPO", "/repo"))
import numpy as np, pandas as pd
from fastparquet import write, ParquetFile
from fastparquet.util import get_column_metadata, path_string, val_to_num, join_path, get_file_scheme
from fastparquet.api import paths_to_cats


def trial(title, df, scheme, on, after=None):
    print("==", title)
    d = tempfile.mkdtemp()
    try:
        root = os.path.join(d, "ds")
        write(root, df, file_scheme=scheme, partition_on=on)
        files = sorted(os.path.relpath(os.path.join(a, f), d) for a, _, fs in os.walk(d) for f in fs if f.endswith(".parquet"))
        print("   files:", files)
        pf = ParquetFile(root)
        print("   scheme:", pf.file_scheme, "cats:", dict(pf.cats))
        if after:
            after(pf, root)
        else:
            print("   read:", pf.to_pandas().to_dict("list"))
    except Exception as e:
        print("   EXC", type(e).__name__, e)
    finally:
        shutil.rmtree(d)


print("## ASSUMED metadata table (contracts/c08_paths.META) vs util.get_column_metadata")
for name, s, want in [("int", pd.Series([1, -5]), ("int64", "int64")), ("float", pd.Series([0.5, 1e22]), ("float64", "float64")),
                      ("bool", pd.Series([True, False]), ("bool", "bool")),
                      ("timestamp", pd.Series([pd.Timestamp("2021-06-01 12:00:00.123456789")]).astype("datetime64[ns]"), ("datetime", "datetime64[ns]")),
                      ("text", pd.Series(["007", "abc"], dtype="str"), ("unicode", "str")),
                      ("text(object)", pd.Series(["007", "abc"], dtype=object), ("unicode", "object")),
                      ("timestamp tz-aware", pd.Series(pd.to_datetime(["2020-01-01"]).tz_localize("UTC")), ("datetimetz", "datetime64[us, UTC]")),
                      ("categorical of ints", pd.Series(pd.Categorical([1, 2])), ("categorical", "int8"))]:
    m = get_column_metadata(s, "k")
    got = (m["pandas_type"], m["numpy_type"])
    print(f"   {name:22s} {got} {'OK' if got == want else 'MISMATCH, table says ' + str(want)}")
    if name in ("int", "float", "bool", "timestamp", "text", "text(object)"):
        for v in s:
            r = val_to_num(path_string(v), m)
            ok = (pd.Timestamp(r) == v) if name == "timestamp" else (r == v and isinstance(r, (str, np.str_)) == isinstance(v, str))
            print(f"        roundtrip {v!r} -> {path_string(v)!r} -> {r!r} {'OK' if ok else 'MISMATCH'}; no metadata -> {val_to_num(path_string(v))!r}")

print("## C08-P-equals-sign-in-partition-text  (paths_to_cats[hive dataset, metadata, any value text].scheme_detected_is_the_layout_written)")
trial("hive, text value 'a=b'", pd.DataFrame({"k": ["a=b", "c"], "v": [1, 2]}), "hive", ["k"])
trial("hive, column name 'k=x'", pd.DataFrame({"k=x": ["a", "c"], "v": [1, 2]}), "hive", ["k=x"])
print("   paths_to_cats(['k=a=b/part.0.parquet']) ->", paths_to_cats(["k=a=b/part.0.parquet"], None))

print("## C08-P-drill-levels-with-equals-read-as-hive  (paths_to_cats[drill dataset, no metadata, any value text].scheme_detected_is_the_layout_written)")
trial("drill, values 'a=b','c=d'", pd.DataFrame({"k": ["a=b", "c=d"], "v": [1, 2]}), "drill", ["k"])

print("## C08-P-drill-dot-segments-escape-root  (partition_on_columns[drill].level_is_not_a_dot_segment[any value text])")
trial("drill, value '..'", pd.DataFrame({"k": ["..", "c"], "v": [1, 2]}), "drill", ["k"])

print("## C08-P-partition-metadata-not-passed")
def direct(pf, root):
    for rg in pf.row_groups:
        try:
            print("   read_row_group_file(rg, ['v','k'], None) ->", pf.read_row_group_file(rg, ["v", "k"], None).to_dict("list"))
        except Exception as e:
            print("   read_row_group_file(rg, ['v','k'], None) -> EXC", type(e).__name__, e)
    print("   to_pandas ->", pf.to_pandas().to_dict("list"))
    f = os.path.join(root, "k=007", "part.0.parquet")
    one = ParquetFile(f, root=root)
    print("   ParquetFile(<one part file>, root=...).cats ->", dict(one.cats), "(file metadata has partition_columns:", bool(one.partition_meta), ")")
trial("hive, text values '007','12'", pd.DataFrame({"k": pd.Series(["007", "12"], dtype="str"), "v": [1, 2]}), "hive", ["k"], direct)

print("## C08-P-get-file-scheme-does-not-compare-keys  (get_file_scheme.hive_only_if_all_paths_have_the_same_keys_in_the_same_order)")
print("   get_file_scheme(['A=F=/p', 'B=H/p']) ->", get_file_scheme(["A=F=/p", "B=H/p"]), "; (['a=1/b=2/p', 'b=2/a=1/p']) ->", get_file_scheme(["a=1/b=2/p", "b=2/a=1/p"]))

print("## P-layer derivations of bounded findings")
print("   join_path('k=a\\\\b', 'part.0.parquet') ->", repr(join_path("k=a\\b", "part.0.parquet")), " (C08-backslash-in-partition-value)")
print("   paths_to_cats(['abc/p', '007/p'], None) ->", paths_to_cats(["abc/p", "007/p"], None), "; val_to_num('007') ->", repr(val_to_num("007")),
      " (C08-drill-level-mixing-retypable-and-plain-text: set order decides)")
print("## join_path facts:", repr(join_path("/", "x")), repr(join_path("/abs/dir/", "x", None, "", "y")), repr(join_path("a", "/b")), repr(join_path("", "x")))
