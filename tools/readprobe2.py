import sys
sys.path.insert(0, '/verif')
import z3
from contracts import c10_read as R
from contracts import util
orig = R.post
def post(res, name, cs, goal, timeout, detail, mf=None, kind="functional"):
    if name.startswith("read_list.size"):
        for i, g in enumerate(goal.children()):
            print(i, util.solve(list(cs) + [z3.Not(g)], 10000)[0], z3.simplify(g))
    return orig(res, name, cs, goal, timeout, detail, mf, kind)
R.post = post
R.read_list_kind("struct", "long", 10000)
