"""fast mutation probe for the encoder contracts: apply the edits of canaries/C11enc.json to a scratch copy of /repo/fastparquet, run only
contracts/c11_encoders.py on it (VERIF_REPO), and print the obligations that are not proved AND not in a known-finding region."""
import json, os, re, shutil, subprocess, sys, tempfile
V = "/verif"
sys.path.insert(0, V)
canaries = json.load(open(sys.argv[1] if len(sys.argv) > 1 else V + "/canaries/C11enc.json"))
sel = sys.argv[2:] 
for c in canaries:
    if sel and not any(s in c["name"] for s in sel):
        continue
    d = tempfile.mkdtemp(prefix="verif-encmut-")
    try:
        shutil.copytree("/repo/fastparquet", d + "/fastparquet", ignore=shutil.ignore_patterns("__pycache__", "test", "benchmarks"))
        ok = True
        for rel, old, new in c["edits"]:
            s = open(d + "/" + rel).read()
            if s.count(old) != 1:
                print(c["name"], "EDIT DOES NOT APPLY", s.count(old)); ok = False; break
            open(d + "/" + rel, "w").write(s.replace(old, new))
        if not ok:
            continue
        prog = r'''
import sys, re, json
sys.path.insert(0, "/verif")
from contracts import c11_encoders as E
from props._encoders import KNOWN
rx = [re.compile(r) for _, _, r in KNOWN]
out = []
for label, order, d, kinds, err, secs in E.run_all("quick"):
    if err: out.append(("TASKERR", label, err[:200])); continue
    for name in order:
        sts = [e[0] for e in d[name]]
        st = "refuted" if "refuted" in sts else "unknown" if "unknown" in sts else "proved"
        if st != "proved" and not any(r.search(name) for r in rx):
            out.append((st, kinds.get(name), name))
print(json.dumps(out))
'''
        r = subprocess.run([V + "/.venv/bin/python", "-c", prog], capture_output=True, text=True, env=dict(os.environ, VERIF_REPO=d), cwd=V)
        try:
            out = json.loads(r.stdout.strip().splitlines()[-1])
        except Exception:
            print(c["name"], "CRASH", r.stderr[-500:]); continue
        print(f"[{c['name']}] prop={c['prop']} expect={c.get('expect', 'violation')}: {len(out)} non-proved outside known regions")
        for o in ([x for x in out if x[1] == "safety"][:3] + out[:3]):
            print("     ", o)
    finally:
        shutil.rmtree(d, ignore_errors=True)
