import sys, time; sys.path.insert(0, '/verif')
from vlib.common import Ctx
from contracts import c02_bookkeeping as m
ctx = Ctx('C02')
t = time.time()
tot = {}
for res in m.check(ctx, 10000):
    for n in res.order:
        st = res.status(n)
        tot[st] = tot.get(st, 0) + 1
        extra = ""
        if st != 'proved':
            e = next(x for x in res.d[n] if x[0] == st)
            extra = f"  {str(e[1])[:400]} | {e[4]}"
        print(f"{st:8s} x{len(res.d[n]):<4d} {n}{extra}")
    print("   stats:", getattr(res, "stats", None))
print(tot, f"{time.time()-t:.1f}s", ctx.engine_errors, ctx.vacuity)
