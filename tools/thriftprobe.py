import sys, time; sys.path.insert(0,'/verif')
from contracts import c10_thrift as T
kinds = sys.argv[1:] or T.KINDS
for k in kinds:
    t=time.time(); res=T.write_thrift_kind(k, 10000)
    bad=[(n,res.status(n)) for n in res.order if res.status(n)!='proved']
    print(k, len(res.order), 'obligations', round(time.time()-t,1),'s not proved', len(bad), flush=True)
    for n,st in bad[:8]:
        e=[x for x in res.d[n] if x[0]==st][0]; print('    ',n,st,str(e[1])[:160],'|',e[4])
res=T.to_bytes_capacity(5000)
for n in res.order: print(n, res.status(n), res.d[n][0][1])
