"""Standalone probe for contracts/c13_rowfilter.py.
   python tools/c13rowfilter_probe.py            obligations of every run, with models of the refuted ones
   python tools/c13rowfilter_probe.py --check    what `./check C13` does with the P part (p_rowfilter + finish), VERIF_REPO honoured
   python tools/c13rowfilter_probe.py --canaries [file]   canaries/C13.json on scratch copies through --check (for use while
                                                  props/C13.py does not yet list p_rowfilter; afterwards tools/mut.py does the same)"""
import json
import os
import shutil
import subprocess
import sys
import tempfile
import time

sys.path.insert(0, '/verif')
os.chdir('/verif')
# never touch /verif/evidence or /verif/out from a probe run
_scratch = tempfile.mkdtemp(prefix="c13probe-")
os.environ.setdefault("VERIF_EVIDENCE_DIR", os.path.join(_scratch, "evidence"))
os.environ.setdefault("VERIF_REPLAY_DIR", os.path.join(_scratch, "replays"))


def plain():
    from vlib.common import Ctx
    from contracts import c13_rowfilter as C
    ctx = Ctx('C13')
    t = time.time()
    n = {}
    for res in C.check(ctx, 10000):
        for nm in res.order:
            st = res.status(nm)
            n[st] = n.get(st, 0) + 1
            print(f"{st:8s} {nm}  x{len(res.d[nm])}  {sum(e[2] for e in res.d[nm]):.2f}s")
            if st != 'proved':
                for e in res.d[nm]:
                    if e[0] != 'proved':
                        print("         ", e[0], json.dumps(e[1], default=str)[:400], '|', (e[4] or '')[:120])
                        break
    print(n, f"{time.time() - t:.1f}s", "vacuity", ctx.vacuity, "engine errors", ctx.engine_errors)


def as_check():
    from vlib.common import Ctx
    from props._rowfilter import p_rowfilter
    from props._generic import run_property
    ctx = Ctx('C13')
    os.environ["VERIF_SKIP_BOUNDED"] = "1"
    rc = run_property(ctx, 'other', 'probe: P part of C13 only', p_parts=[p_rowfilter])
    n = {}
    for o in ctx.obligations:
        n[o["status"]] = n.get(o["status"], 0) + 1
    print("obligations", n, "rc", rc)
    sys.exit(rc)


def canaries(path):
    bad = 0
    for c in json.load(open(path)):
        d = tempfile.mkdtemp(prefix="verif-canary-")
        try:
            shutil.copytree("/repo/fastparquet", os.path.join(d, "fastparquet"), ignore=shutil.ignore_patterns("__pycache__", "test", "benchmarks"))
            err = None
            for rel, old, new in c["edits"]:
                fp = os.path.join(d, rel)
                s = open(fp).read()
                if s.count(old) != 1:
                    err = f"edit does not apply uniquely ({s.count(old)} matches): {old[:50]!r}"
                    break
                open(fp, "w").write(s.replace(old, new))
            if err:
                print(f"[canary {c['name']}] NOT APPLICABLE: {err}")
                bad += 1
                continue
            env = dict(os.environ, VERIF_REPO=d, VERIF_EVIDENCE_DIR=os.path.join(d, "evidence"), VERIF_REPLAY_DIR=os.path.join(d, "replays"),
                       PYTHONDONTWRITEBYTECODE="1", PYTHONHASHSEED="0")
            r = subprocess.run(["/verif/.venv/bin/python", "/verif/tools/c13rowfilter_probe.py", "--check"], capture_output=True, text=True, env=env)
            viol = [l for l in r.stdout.splitlines() if l.startswith("VIOLATION")]
            detail = [l for l in r.stdout.splitlines() if l.startswith("  obligation")]
            got = "violation" if r.returncode == 1 and viol else "clean" if r.returncode == 0 else f"rc={r.returncode}"
            ok = got == c.get("expect", "violation")
            bad += 0 if ok else 1
            print(f"[canary {c['name']}] expect={c.get('expect', 'violation')} got={got} {'OK' if ok else 'MISMATCH'}")
            for l in detail[:4]:
                print("     ", l.strip()[:230])
            if r.returncode not in (0, 1):
                print("      stderr:", r.stderr.strip()[-600:])
        finally:
            shutil.rmtree(d, ignore_errors=True)
    sys.exit(1 if bad else 0)


if __name__ == "__main__":
    if "--check" in sys.argv:
        as_check()
    elif "--canaries" in sys.argv:
        i = sys.argv.index("--canaries")
        canaries(sys.argv[i + 1] if len(sys.argv) > i + 1 else "/verif/canaries/C13.json")
    else:
        plain()
