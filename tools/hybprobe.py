import sys, time
sys.path.insert(0, '/verif')
from contracts import c11_hybrid as H
def show(res):
    for n in res.order:
        st = res.status(n); es = res.d[n]
        print("  ", st, n, len(es), round(sum(e[2] for e in es), 2), "" if st == "proved" else [(e[1], e[4]) for e in es if e[0] != "proved"][:2])
for a in sys.argv[1:] or ["h"]:
    t = time.time()
    if a == "h":
        for lz, rk in H.HYBRID_TASKS:
            print("== hybrid", lz, rk); show(H.hybrid(lz, rk, 20000))
    else:
        k = a.split(":")
        print("==", a); show(getattr(H, k[0])(*[int(x) if x.isdigit() else x for x in k[1:]], 20000))
    print(round(time.time() - t, 1), "s")
