"""probe: every part of contracts/c15_assembly.py; prints the non-proved obligations (all with -v) and the totals"""
import sys, time
sys.path.insert(0, '/verif')
from contracts import c15_assembly as c
verbose = "-v" in sys.argv
t0 = time.time()
tot = {}
for label, fn in c.parts():
    t = time.time()
    try:
        res = fn(20000)
    except Exception as ex:
        import traceback; traceback.print_exc()
        print("==", label, "FAILED", ex); continue
    print("==", label, f"{time.time()-t:.1f}s", len(res.order), "obligations")
    for name in res.order:
        st = res.status(name)
        tot[st] = tot.get(st, 0) + 1
        e = next(x for x in res.d[name] if x[0] == st)
        if st == "proved" and not verbose:
            continue
        print(f"  {st:8s} {getattr(res,'kind',{}).get(name,'?'):10s} {name}  ({len(res.d[name])} paths, {sum(x[2] for x in res.d[name]):.2f}s)")
        if st != "proved":
            print("        ", str(e[1])[:400], "|", (e[4] or "")[:120])
print(tot, f"{time.time()-t0:.1f}s")
