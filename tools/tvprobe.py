import sys, time; sys.path.insert(0,'/verif')
from contracts import kernel_tv as T
t=time.time(); f,n,m = T.validate(0, int(sys.argv[1]) if len(sys.argv)>1 else 8)
print(f, n, 'inputs', len(m), 'mismatches', round(time.time()-t,1),'s')
for x in m[:6]: print(x)
