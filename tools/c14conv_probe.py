import sys, time; sys.path.insert(0,'/verif')
from vlib.common import Ctx
from contracts import c14_paths
ctx=Ctx('C14'); t=time.time()
out=c14_paths.check_conventions(ctx, {"hive","part_id","read_partitions"})
out2=c14_paths.check(ctx, 10000)
for o in ctx.obligations:
    if o['status']!='proved' or (len(sys.argv)>1 and sys.argv[1] in o['name']): print(o['status'], o['backend'], o['name'], str(o.get('model',''))[:260])
print(len(ctx.obligations), round(time.time()-t,1), ctx.engine_errors)
