"""native probe: per dtype D, what make_metadata writes and what the reader predicts / allocates from the footer alone"""
import sys, warnings
sys.path.insert(0, '/verif')
warnings.simplefilter("ignore")
import os
REPO = os.environ.get("VERIF_REPO", "/repo")
sys.path.insert(0, REPO)
import numpy as np, pandas as pd, json
from fastparquet import writer, api, schema as fschema, parquet_thrift
from fastparquet.cencoding import from_buffer
from fastparquet.util import get_column_metadata

def rows():
    out = []
    for d in ["int8","int16","int32","int64","uint8","uint16","uint32","uint64","float16","float32","float64","bool"]:
        out.append((d, pd.Series(np.array([1,0,1], dtype=d))))
    for d in ["Int8","Int16","Int32","Int64","UInt8","UInt16","UInt32","UInt64","boolean","Float32","Float64"]:
        out.append((d, pd.Series(pd.array([1,0,None], dtype=d))))
    for u in ["s","ms","us","ns"]:
        out.append((f"datetime64[{u}]", pd.Series(np.array([1,2,3],dtype="int64").view(f"M8[{u}]"))))
        for tz in ["UTC","Europe/Paris","+02:00"]:
            out.append((f"datetime64[{u}, {tz}]", pd.Series(np.array([1,2,3],dtype="int64").view(f"M8[{u}]")).dt.tz_localize("UTC").dt.tz_convert(tz)))
        out.append((f"timedelta64[{u}]", pd.Series(np.array([1,2,3],dtype="int64").view(f"m8[{u}]"))))
    out.append(("object[str]", pd.Series(["a","b",None], dtype=object)))
    out.append(("object[bytes]", pd.Series([b"a",b"b",None], dtype=object)))
    out.append(("object[json]", pd.Series([{"a":1},[1],None], dtype=object)))
    out.append(("str", pd.Series(["a","b",None], dtype="str")))
    out.append(("string", pd.Series(["a","b",None], dtype="string")))
    out.append(("S3", pd.Series(np.array([b"abc",b"de",b""],dtype="S3"))))
    out.append(("category[str]", pd.Series(pd.Categorical(["a","b","a"]))))
    out.append(("category[str,ordered]", pd.Series(pd.Categorical(["a","b","a"], ordered=True))))
    out.append(("category[int64]", pd.Series(pd.Categorical([1,2,1]))))
    out.append(("category[300 labels]", pd.Series(pd.Categorical.from_codes([0,1,299], categories=list(range(300))))))
    return out

def stub(fmd, **kw):
    pf = object.__new__(api.ParquetFile)
    pf.pandas_nulls = kw.get("pandas_nulls", True); pf._base_dtype = kw.get("dtypes"); pf.tz = None; pf._columns_dtype = None
    pf.fn = None; pf.fmd = fmd; pf.open = None; pf._statistics = None
    pf._set_attrs()
    return pf

if __name__ == "__main__":
    for name, ser in rows():
        df = pd.DataFrame({"x": ser})
        oe = "json" if "json" in name else "infer"
        try:
            fmd = writer.make_metadata(df, has_nulls=True, object_encoding=oe, index_cols=df.index)
        except Exception as ex:
            print(f"{name:28s} make_metadata raises {type(ex).__name__}: {ex}"); continue
        fmd2 = from_buffer(fmd.to_bytes(), "FileMetaData")
        md = json.loads(fmd.key_value_metadata[0].value)["columns"][0]
        try:
            pf = stub(fmd2)
            dt = pf.dtypes["x"]
            df0, views = pf.pre_allocate(3, pf.columns, None, None)
            real = df0["x"].dtype
            extra = ""
            if isinstance(real, pd.CategoricalDtype):
                extra = f" ordered={real.ordered} ncat={len(real.categories)}"
        except Exception as ex:
            dt, real, extra = "ERR", f"{type(ex).__name__}: {ex}", ""
        se = fmd.schema[1]
        print(f"{name:28s} md=({md['pandas_type']},{md['numpy_type']},{md['metadata']}) se=({se.type},{se.converted_type},{se.type_length}) dtypes={dt!s:22s} empty={real!s}{extra}  orig={ser.dtype}")
