#!/bin/bash
# tools/seed3_batch.sh C06 C08 ...   evaluates m5 and m6 of each id (wave 3), 3 ids in parallel; appends to seeded/${SEED_OUT:-RESULTS3.jsonl}
cd /verif
for id in "$@"; do echo $id; done | xargs -P 3 -I{} bash -c 'for m in ${SEED_MS:-m5 m6}; do SEED_WT=${SEED_WT:-/tmp/seed3} SEED_WAVE=${SEED_WAVE:-3} python3 tools/seed2_eval.py {} $m 2>/dev/null | grep "^{" >> /verif/seeded/${SEED_OUT:-RESULTS3.jsonl}; done'
