"""probe for contracts/c12_thriftvals.py:  tools/tvals_probe.py [-v]"""
import sys, collections
sys.path.insert(0, '/verif')
from contracts import c12_thriftvals as T
res = T.check(None)
c = collections.Counter()
for n in res.order:
    st = res.status(n); c[st] += 1
    e = res.d[n][0]
    if st != "proved" or "-v" in sys.argv:
        print(st, n, "\n     ", (e[1] if e[1] else e[4]))
print(c)
