#!/bin/bash
# run every registered quick check (4 at a time), summarise
cd /verif
ids=$(python3 -c "import json; print(' '.join(c['property_id'] for c in json.load(open('MANIFEST.json'))['checks']))")
run() { p=$1; /usr/bin/time -f "%e" -o /tmp/va_$p.time ./check $p --tier ${TIER:-quick} > /tmp/va_$p.log 2>&1; echo "$p rc=$? viol=$(grep -c ^VIOLATION /tmp/va_$p.log) known=$(grep -c ^KNOWN /tmp/va_$p.log) $(cat /tmp/va_$p.time)s"; }
export -f run
echo $ids | tr ' ' '\n' | xargs -P 4 -I{} bash -c 'run {}'
