#!/bin/bash
# tools/seed_tree.sh <seed id>  -> prints the path of a scratch copy of /repo/fastparquet with the seed's patch applied (caller removes it)
set -e
T=$(mktemp -d /tmp/verif-seedtree-XXXXXX)
cp -r /repo/fastparquet $T/fastparquet
find $T -name __pycache__ -prune -exec rm -rf {} + 2>/dev/null || true
ln -s /repo/test-data $T/test-data
patch -p1 -s -d $T -i /verif/seeded/$1/patch.diff
echo $T
