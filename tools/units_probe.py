#!/usr/bin/env python3
"""probe of contracts/c01_units.py pieces (symbolic runs of writer.convert / converted_types.convert / the kernel)"""
import sys, time
sys.path.insert(0, '/verif')
import numpy as np, z3
from contracts import c01_units as U
from contracts.util import Results

M = U.Mods(None)
pd = M.pd
which = sys.argv[1] if len(sys.argv) > 1 else "writer"
if which == "writer":
    for row in U.writer_rows(pd):
        if not row.get("sym"):
            continue
        ser0 = row["make"]([0, 1])
        try:
            se, _ = M.writer.find_type(ser0, **row.get("find_kw", {}))
            f = U.se_facts(M.pt, se)
            t0 = time.time()
            v, vdt, outs, eng = U.run_writer_convert(M, row, se, ser0)
            for q in outs:
                if q.ctl[0] == "ret":
                    ph, prob = U.written_physical(q, f)
                    print(row["name"], U.annotation_name(f), "->", prob or (z3.simplify(ph) if z3.is_expr(ph) else {k: z3.simplify(x) for k, x in ph.items()}),
                          "| events", [(l, z3.simplify(ok)) for l, ok, _ in q.ghost.get("events", [])], f"{time.time()-t0:.2f}s")
                else:
                    print(row["name"], "RAISE", q.ctl, q.ghost.get("raised_detail"))
        except Exception as ex:
            import traceback; traceback.print_exc()
            print(row["name"], "ERR", type(ex).__name__, ex)
elif which == "reader":
    for row in U.reader_rows():
        se = U.make_se(M.pt, row)
        f = U.se_facts(M.pt, se)
        q = U.Path()
        try:
            if row["type"] == "INT96":
                ph = {"ns": U.sym_elem(q, np.dtype("i8"), "x_ns"), "day": U.sym_elem(q, np.dtype("i4"), "x_day")}
            elif row["type"] in U.PHYS_DT:
                ph = U.sym_elem(q, np.dtype(U.PHYS_DT[row["type"]]), "x")
            else:
                ph = z3.Int("x_obj")
            t0 = time.time()
            arr, outs, eng = U.run_reader_convert(M, q, f, se, ph)
            for r in outs:
                if r.ctl[0] == "ret":
                    v = r.ctl[1]
                    if U.is_narr(v):
                        e = v.h.load(r)
                        print(U.reader_row_name(row), "->", v.h.dt, z3.simplify(e) if z3.is_expr(e) else e, "same buffer" if v.h.buf == arr.buf else "",
                              "| events", [(l, z3.simplify(ok)) for l, ok, _ in r.ghost.get("events", [])], f"{time.time()-t0:.2f}s")
                    else:
                        print(U.reader_row_name(row), "-> non-array", v)
                else:
                    print(U.reader_row_name(row), "RAISE", r.ctl, r.ghost.get("raised_detail"))
        except U.Unsupported as ex:
            print(U.reader_row_name(row), "UNSUPPORTED", ex)
elif which == "kernel":
    class C:
        def function(self, *a, **k): pass
    res = Results()
    t0 = time.time()
    ok = U.k_time_shift(C(), res, 20000)
    for nm in res.order:
        print(nm, res.status(nm), [(e[0], round(e[2], 2), e[3]) for e in res.d[nm]])
    print("ok", ok, f"{time.time()-t0:.1f}s")
elif which == "check":
    class C:
        tv = {"functions": 0, "inputs": 0, "mismatches": 0}
        vacuity = {"requires_sat": 0, "must_fail_sat": 0, "covers": 0}
        notes = []
        def function(self, *a, **k): pass
        def note(self, s): self.notes.append(s)
    side = sys.argv[2] if len(sys.argv) > 2 else "both"
    flt = (lambda n: sys.argv[3] in n) if len(sys.argv) > 3 and sys.argv[3] != "-v" else None
    t0 = time.time()
    c = C()
    res = U.check(c, 10000, side, flt)
    cnt = {}
    for nm in res.order:
        st = res.status(nm)
        cnt[st] = cnt.get(st, 0) + 1
        e = next(x for x in res.d[nm] if x[0] == st)
        if st != "proved" or "-v" in sys.argv:
            print(f"{st:8} {nm}  [{e[3]}] {str(e[1])[:400] if e[1] else ''}\n           {str(e[4])[:260]}")
    print(cnt, f"{time.time()-t0:.1f}s", c.tv)
    be = {}
    for nm in res.order:
        for e in res.d[nm]:
            be[e[3]] = be.get(e[3], 0) + 1
    print("entries by backend", be)
    for n in c.notes: print("NOTE", n)
elif which == "replay":
    class C:
        tv = {"functions": 0, "inputs": 0, "mismatches": 0}
        vacuity = {"requires_sat": 0, "must_fail_sat": 0, "covers": 0}
        def function(self, *a, **k): pass
        def note(self, s): pass
    res = U.check(C(), 10000, "both")
    for nm in res.order:
        if res.status(nm) == "refuted":
            e = next(x for x in res.d[nm] if x[0] == "refuted")
            print(nm, "|", U.known_for("C01", nm) or U.known_for("C02", nm) or U.known_for("C03", nm), "|", U.replay(nm, e[1], M))
