"""debug: bounded counter-model search for read_row_group[hive] on the tree given by VERIF_REPO"""
import sys, time; sys.path.insert(0,'/verif')
import z3
from vlib.common import Ctx
import contracts.c08_paths as m
from vc.front_py import parse_module
ctx=Ctx('C08')
c,_,_=parse_module("fastparquet/core.py")
orig=m.bounded_counter_model
def dbg(cs, inst, neg, names, timeout, subst=()):
    full=list(cs)+list(inst)+[neg]
    weak=full
    for pair in subst: weak=[z3.substitute(f,pair) for f in weak]
    weak,pairs=m.abstract_string_ufs([z3.simplify(f) for f in weak])
    print("n constraints", len(full), "abstracted apps", len(pairs))
    for to in (10000,):
        t=time.time(); s=z3.Solver(); s.set('timeout',to); s.add(*weak); r=s.check(); print("weak:", r, round(time.time()-t,2))
    # minimal: drop constraints not mentioning strings?
    import itertools
    if r!=z3.sat:
        # try dropping chunks to find what makes it hard
        keep=[f for f in weak if 'number_of_' not in str(f)]
        t=time.time(); s=z3.Solver(); s.set('timeout',10000); s.add(*keep); r2=s.check(); print("weak-keep:", r2, len(keep), round(time.time()-t,2))
        if r2==z3.sat: print(s.model())
        keep2=[f for f in keep if 'If(' not in str(f) or 'Not(val_to_num' in str(f)]
        t=time.time(); s=z3.Solver(); s.set('timeout',10000); s.add(*keep2); r3=s.check(); print("weak-keep2:", r3, len(keep2), round(time.time()-t,2))
    return orig(cs, inst, neg, names, timeout, subst)
m.bounded_counter_model=dbg
res=m.run_read_row_group(ctx, c, 3000, "hive", True, True)
