#!/usr/bin/env python3
"""Print the seeded-change table of DESIGN.md section 0.5 from seeded/RESULTS.jsonl (+ meta.json of each seed, + HISTORY notes)."""
import json, os, re
V = os.path.dirname(os.path.dirname(os.path.abspath(__file__)))
HIST = json.load(open(os.path.join(V, "seeded", "HISTORY.json"))) if os.path.exists(os.path.join(V, "seeded", "HISTORY.json")) else {}
rows = [json.loads(l) for l in open(os.path.join(V, "seeded", "RESULTS.jsonl")) if l.strip()]
print("| seed | needs to manifest (abridged) | reported by | first obligation / case reported | history |")
print("|---|---|---|---|---|")
n_rep = n_sup = 0
for r in sorted(rows, key=lambda r: r["seed"]):
    sid = r["seed"]
    meta = json.load(open(os.path.join(V, "seeded", sid, "meta.json")))
    need = re.sub(r"\s+", " ", meta.get("needs_to_manifest", ""))[:110].replace("|", "/")
    rep = [k for k, v in r.get("checks", {}).items() if v["rc"] == 1 and v["violations"]]
    if r.get("demo_patched") == 0 and not rep:
        # a later "fix:" commit in /repo made this change harmless (its own demonstration passes with the patch applied): not a
        # property-breaking change any more, kept for the record
        n_sup += 1
        print(f"| {sid} | {need} | (superseded: harmless on the repaired tree) | - | {HIST.get(sid, '')} |")
        continue
    n_rep += bool(rep)
    first = next((v["first"] for k, v in r.get("checks", {}).items() if v["rc"] == 1 and v.get("first")), "")
    first = re.sub(r"^obligation ", "", first).split(": ")[0][:95].replace("|", " ")
    print(f"| {sid} | {need} | {', '.join(rep) or '**none**'} | `{first}` | {HIST.get(sid, 'reported at first evaluation')} |")
print(f"\n{n_rep} of {len(rows) - n_sup} reported" + (f"; {n_sup} superseded by later repairs of /repo (their demonstrations pass with the patch applied)." if n_sup else "."))
