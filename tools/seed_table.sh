#!/bin/bash
# re-evaluate every kept seeded change against the current machinery (scratch copies; SEED_PAR at a time, default 4) -> seeded/RESULTS.jsonl
cd /verif
declare -A EXTRA=( [C10-m2]="C16" [C11-m1]="C02" [C11-m2]="C03 C12" [C12-m1]="C01 C03" [C12-m2]="C03" [C17-m1]="C06" [C05-m1]="" [C10-m6]="C14" [C05-m6]="C04" )
run() { s=$1; p=${s%-*}; src=/verif/seeded/$s; SEED_SCRATCH=1 python3 tools/seed_eval.py $src $s $p ${EXTRA[$s]} 2>&1 | python3 -c "
import sys,json
t=sys.stdin.read()
try:
    j=json.loads(t[t.index('{'):]); print(json.dumps({'seed':j['seed'],'demo_clean':j['demo_clean_rc'],'demo_patched':j.get('demo_patched_rc'),'checks':{k:{'rc':v['rc'],'violations':v['violations'],'first':(v['first'][:1] or [''])[0][:200]} for k,v in j['checks'].items()}}))
except Exception as e: print(json.dumps({'seed':'$s','error':t[-300:]}))"; }
for s in $(ls seeded | grep -E "^C[0-9]+-m[0-9]+$" | sort); do
  while [ $(jobs -r | wc -l) -ge ${SEED_PAR:-4} ]; do sleep 1; done
  run $s >> /tmp/seed_results.jsonl &
done; wait
sort /tmp/seed_results.jsonl > seeded/RESULTS.jsonl; rm -f /tmp/seed_results.jsonl; wc -l seeded/RESULTS.jsonl
