"""native replay of the refuted speedups obligations (what is recorded as evidence in contracts/findings.jsonl)"""
import sys
sys.path.insert(0, "/verif")
from contracts import c12_speedups as c    # noqa: E402

for name, model in [("unpack_byte_array[unchecked input].loop.load_in_region", {"bytecount": 1}),
                    ("unpack_byte_array[unchecked input].loop.load_in_region", {"bytecount": 3}),
                    ("unpack_byte_array[unchecked input].loop.value_bytes_inside_buffer[PyBytes_FromStringAndSize]", {"utf": 0}),
                    ("unpack_byte_array[unchecked input].loop.value_bytes_inside_buffer[PyUnicode_DecodeUTF8]", {"utf": -1}),
                    ("unpack_byte_array.bytecount_is_buffer_length", {}),
                    ("pack_byte_array.length_prefix_decodes_to_item_length[any item size]", {})]:
    ok, text, prog = c.replay(name, model)
    print(name, "->", "CONFIRMED" if ok else "not confirmed", text)
