"""probe for contracts/c15_assembly.py part 1: (1) every configuration, non-proved obligations printed; (2) MUST-FAIL guard: with a deliberately
wrong specification (the value appended is the NEXT one of the stream; the result is the number of rows) the step / exit obligations that
are proved against the real specification must be REFUTED - so they are not vacuously true"""
import sys, time
sys.path.insert(0, '/verif')
import z3
from contracts import c15_assembly as c

def show(res, only_bad=True):
    for name in res.order:
        st = res.status(name)
        e = next(x for x in res.d[name] if x[0] == st)
        if st == "proved" and only_bad:
            continue
        print(f"  {st:8s} {res.kind.get(name,'?'):10s} {name}  ({len(res.d[name])} paths, {sum(x[2] for x in res.d[name]):.2f}s)")
        if st != "proved":
            print("        ", e[1], "|", (e[4] or "")[:100])

for cfg in c.CFGS:
    t = time.time()
    res = c.check_assemble(cfg, 20000)
    print("==", cfg, f"{time.time()-t:.1f}s", len(res.order), "obligations")
    show(res, "-v" not in sys.argv)

print("== must-fail guard (wrong specification)")
real_step, real_rows = c.spec_step, c.ROWS
def wrong_step(s, S, k):
    good = real_step(s, S, k)
    return c.Rows(good.none, good.ln, lambda r, j: z3.If(good.elt(r, j) >= 0, good.elt(r, j) + 2, good.elt(r, j)))
c.spec_step = wrong_step
res = c.check_assemble(c.CFGS[0], 20000)
must = [n for n in res.order if ".rows_match_spec" in n and "step[" in n and "nulls_only" not in n]
bad = [n for n in must if res.status(n) != "refuted"]
print("  step obligations refuted under the wrong specification:", len(must) - len(bad), "of", len(must), "| not refuted:", bad)
c.spec_step = real_step
sys.exit(1 if bad else 0)
