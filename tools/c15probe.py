"""probe for contracts/c15_assembly.py part 1: run the configurations, print every obligation"""
import sys, time
sys.path.insert(0, '/verif')
from contracts import c15_assembly as c
only = sys.argv[1:] 
for cfg in c.CFGS:
    t = time.time()
    res = c.check_assemble(cfg, 20000)
    print("==", cfg, f"{time.time()-t:.1f}s")
    for name in res.order:
        st = res.status(name)
        e = next(x for x in res.d[name] if x[0] == st)
        if only and st == "proved" and "-v" not in only:
            continue
        print(f"  {st:8s} {res.kind.get(name,'?'):10s} {name}  ({len(res.d[name])} paths, {sum(x[2] for x in res.d[name]):.2f}s)")
        if st != "proved":
            print("        ", e[1], "|", (e[4] or "")[:100])
    if "-1" in only: break
