import sys, time; sys.path.insert(0,'/verif')
from vlib.common import Ctx
from contracts import c14_paths
ctx=Ctx('C14'); t=time.time()
out=c14_paths.check(ctx, 10000)
for o in ctx.obligations:
    if o['name'].startswith('ParquetFile') or o['status']!='proved': print(o['status'], o['backend'], o['name'], str(o.get('model',''))[:200])
print(len(ctx.obligations), round(time.time()-t,1), ctx.engine_errors, [x[0] for x in out])
