import sys, time; sys.path.insert(0,'/verif')
import z3
from contracts import cy
from vc.symexec import *
from vc import backends
def show(eng, only_bad=False):
    for ob in eng.oblig:
        t=time.time(); st,be,secs,m = backends.discharge(ob, 10000)
        if not only_bad or st!='proved': print('  ', ob.name, ob.kind, st, round(secs,3), (str(m)[:300] if m is not None else ''))
    n=len(eng.oblig); eng.oblig=[]; return n
def inv_loop(which, item):
    def inv(eng, p):
        k = p.env[f'__k{which}_read_rle'].z
        out0 = p.ghost['out0']; mem0 = p.ghost['omem0']
        count = eng.ci_int(p.env['count'])
        outptr = p.env['outptr']
        data = p.env['data'].bv
        j = z3.Int('jq'); idx=z3.Int('idxq')
        m = p.mem['o']
        if item==4:
            filled = z3.ForAll([j], z3.Implies(z3.And(0<=j, j<k), z3.And(*[z3.Select(m, out0+4*j+b) == z3.Extract(8*b+7,8*b,data) for b in range(4)])))
        else:
            filled = z3.ForAll([j], z3.Implies(z3.And(0<=j, j<k), z3.Select(m, out0+j) == z3.Extract(7,0,data)))
        frame = z3.ForAll([idx], z3.Implies(z3.Or(idx<out0, idx>=out0+item*k), z3.Select(m, idx)==z3.Select(mem0, idx)))
        return z3.And(0<=k, k<=count, outptr.off == out0 + item*k, filled, frame)
    return LoopSpec('invariant', inv=inv, modifies=['outptr','i'], havoc_mem=['o'], variant=lambda eng,p: eng.ci_int(p.env['count']) - p.env[f'__k{which}_read_rle'].z)
for item in (4,1):
    loops={('read_rle',0):LoopSpec('unroll',4), ('read_rle',1):inv_loop(1,4), ('read_rle',2):inv_loop(2,1)}
    eng = cy.engine(loops=loops); p=Path(); f=cy.new_io(p,'f'); o=cy.new_io(p,'o')
    header=cy.arg('header','int32_t',p); bw=cy.arg('bit_width','int32_t',p)
    p.pc += [header.iv>=0, bw.iv>=0, bw.iv<=32, cy.nbytes(p,'f') - cy.loc(p,'f') >= (bw.iv+7)/8]
    p.ghost['out0']=cy.loc(p,'o'); p.ghost['omem0']=p.mem['o']
    t=time.time(); outs=eng.run('read_rle', p, [f, header, bw, o, PyI(item, lit=True)])
    print('item',item,'paths', len(outs), round(time.time()-t,2), 'obligs', len(eng.oblig))
    t=time.time(); n=show(eng, only_bad=True); print('discharged', n, round(time.time()-t,1))
    for q in outs[:2]: print(q.ctl, q.heap['o']['loc'].iv, q.heap['f']['loc'].iv)
