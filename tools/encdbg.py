import sys, time; sys.path.insert(0,'/verif')
import z3
from contracts import c11_encoders as E
from contracts.util import solve
orig = E.solve
def dbg_solve(cs, timeout):
    r = orig(cs, timeout)
    if r[2] > 2.0:
        print("SLOW %.1fs %s ; n constraints %d" % (r[2], r[0], len(cs)))
        if "-dump" in sys.argv:
            s = z3.Solver(); s.add(*cs)
            open("/tmp/enc_slow_%d.smt2" % dbg_solve.k, "w").write(s.to_smt2()); dbg_solve.k += 1
    return r
dbg_solve.k = 0
E.solve = dbg_solve
w = int(sys.argv[1])
res = E.encode_bitpacked_closure(w, 10000)
