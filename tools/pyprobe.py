import sys; sys.path.insert(0,'/verif')
from vlib.common import Ctx
from contracts import py_arith
ctx=Ctx('C01'); res=py_arith.check(ctx, 10000)
for n in res.order: print(n, res.status(n), [e[1] for e in res.d[n] if e[1]])
