import sys, time; sys.path.insert(0,'/verif')
from contracts import kernels as K
which = sys.argv[1:] or ['k_zigzag','k_mask','k_width_from_max_int','k_read_varint','k_encode_varint','k_numpyio']
for w in which:
    t=time.time()
    res = getattr(K,w)(10000)
    bad=[(n,res.status(n)) for n in res.order if res.status(n)!='proved']
    print(w, len(res.order), 'obligations', round(time.time()-t,1),'s; not proved:', len(bad))
    for n,s in bad[:12]:
        e=[x for x in res.d[n] if x[0]==s][0]
        print('    ', n, s, res.kind.get(n), (str(e[1])[:160] if e[1] else ''), '|', e[4])
