import sys, time; sys.path.insert(0,'/verif')
from vlib.common import Ctx
from contracts import c16_merge
ctx=Ctx('C16')
t=time.time()
for res in c16_merge.check(ctx, 10000):
    for n in res.order: print(n, res.status(n), len(res.d[n]), round(sum(e[2] for e in res.d[n]),3), [str(e[1])[:200] for e in res.d[n] if e[1]][:1], [e[4] for e in res.d[n] if e[0]!='proved'][:1])
print(ctx.engine_errors, ctx.vacuity, round(time.time()-t,2))
