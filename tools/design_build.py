#!/usr/bin/env python3
"""Rebuild section 0 of DESIGN.md from tools/design_section0.md.tmpl + evidence/*.json + seeded/RESULTS.jsonl."""
import os, subprocess, sys
V = os.path.dirname(os.path.dirname(os.path.abspath(__file__)))
tmpl = open(os.path.join(V, "tools", "design_section0.md.tmpl")).read()
t1 = subprocess.run([sys.executable, os.path.join(V, "tools", "design_table.py")], capture_output=True, text=True).stdout
t2 = subprocess.run([sys.executable, os.path.join(V, "tools", "design_seeds.py")], capture_output=True, text=True).stdout
body = tmpl.replace("@@TABLE01@@", t1.strip()).replace("@@SEEDS@@", t2.strip())
p = os.path.join(V, "DESIGN.md")
s = open(p).read()
a = s.index("## 0. As built")
b = s.index("Contents (original plan)")
open(p, "w").write(s[:a] + body.rstrip() + "\n\n\n" + s[b:])
print("section 0 rebuilt:", len(body.splitlines()), "lines")
