import sys, time
sys.path.insert(0, '/verif')
from contracts import c10_read as R
kinds = sys.argv[1:] or R.RKINDS
for k in kinds:
    t = time.time()
    if k == "lemma":
        res = R.varint_lemma(20000)
    elif k.startswith("w:"):
        _, a, b = k.split(":")
        res = R.write_list_kind(a, b, 20000)
    elif ":" in k:
        a, b = k.split(":")
        res = R.read_list_kind(a, b, 20000)
    else:
        res = R.read_thrift_kind(k, 20000)
    print("==", k, round(time.time() - t, 1))
    for n in res.order:
        st = res.status(n)
        es = res.d[n]
        print("  ", st, n, len(es), round(sum(e[2] for e in es), 2), "" if st == "proved" else [(e[1], e[4]) for e in es if e[0] != "proved"][:2])
