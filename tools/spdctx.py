"""run props/_speedups.p_speedups on a scratch Ctx (evidence / replays in a temp dir):  spdctx.py C12|C11|C03 [known-file]"""
import os
import shutil
import sys
import tempfile

d = tempfile.mkdtemp(prefix="spdctx-")
os.environ["VERIF_EVIDENCE_DIR"] = os.path.join(d, "ev")
os.environ["VERIF_REPLAY_DIR"] = os.path.join(d, "rp")
if len(sys.argv) > 2:
    os.environ["VERIF_KNOWN_FILE"] = sys.argv[2]
sys.path.insert(0, "/verif")
from vlib.common import Ctx    # noqa: E402
from props._speedups import p_speedups    # noqa: E402

try:
    ctx = Ctx(sys.argv[1])
    p_speedups(ctx)
    by = {}
    for o in ctx.obligations:
        by[o["status"]] = by.get(o["status"], 0) + 1
        if o["status"] != "proved":
            print(" ", o["status"], o["name"], o.get("model"))
    print(sys.argv[1], by, "violations:", len(ctx.violations), "known:", [k[0] for k in ctx.known_hits], "vacuity:", ctx.vacuity)
    print("functions:", {k: v["obligations"] for k, v in ctx.functions.items()})
    for n in ctx.notes:
        print("note:", n)
finally:
    shutil.rmtree(d, ignore_errors=True)
