"""fast canary loop for contracts/c03_pages.py only (the official run is tools/mut.py --file canaries/C03.json): every canary of
canaries/C03.json is applied to a scratch copy of /repo/fastparquet, the contract runs on the copy (VERIF_REPO) in a subprocess and the
obligations that are REFUTED / UNKNOWN and not covered by a recorded finding (props/_pages.KNOWN) are listed."""
import json, os, shutil, subprocess, sys, tempfile
from concurrent.futures import ThreadPoolExecutor

V = os.path.dirname(os.path.dirname(os.path.abspath(__file__)))
CHILD = r'''
import sys, collections, json
sys.path.insert(0, %r)
from contracts import c03_pages
from props import _pages
from vlib.common import PROVED, REFUTED, UNKNOWN
class Ctx:
    vacuity = collections.Counter()
    def function(self, *a): pass
    def engine_error(self, s): print("ENGINE-ERROR", s)
import os
out = []
if os.environ.get("C03PAGES_MASK"):
    from props import _pagemask
    KN, parts = _pagemask.KNOWN, ("read_col_mask",)
else:
    KN, parts = _pages.KNOWN, ("dictionary_page", "data_page_v1", "data_page_v2", "read_col")
for res in c03_pages.check(Ctx(), 10000, parts=parts):
    for name in res.order:
        st = res.status(name)
        if st == PROVED: continue
        known = any(rx.search(name) for f, rx in KN)
        if st == REFUTED and known: continue
        out.append((st, name))
print("RESULT " + json.dumps(out))
''' % V


def run(c):
    d = tempfile.mkdtemp(prefix="verif-canary-")
    try:
        shutil.copytree("/repo/fastparquet", os.path.join(d, "fastparquet"), ignore=shutil.ignore_patterns("__pycache__", "test", "benchmarks"))
        for rel, old, new in c["edits"]:
            p = os.path.join(d, rel)
            s = open(p).read()
            if s.count(old) != 1:
                return c, None, "edit does not apply uniquely"
            open(p, "w").write(s.replace(old, new))
        r = subprocess.run([os.path.join(V, ".venv/bin/python"), "-c", CHILD], capture_output=True, text=True, env=dict(os.environ, VERIF_REPO=d), cwd=V)
        line = next((l for l in r.stdout.splitlines() if l.startswith("RESULT ")), None)
        if line is None:
            return c, None, (r.stderr or r.stdout)[-600:]
        return c, json.loads(line[7:]), None
    finally:
        shutil.rmtree(d, ignore_errors=True)


if __name__ == "__main__":
    sel = sys.argv[1:]
    if sel[:1] == ["--c13"]:          # the row-mask run (C13): canaries/C13.json entries named C13-pagemask-*
        os.environ["C03PAGES_MASK"] = "1"
        cans = [c for c in json.load(open(os.path.join(V, "canaries", "C13.json"))) if c["name"].startswith("C13-pagemask-")]
        sel = sel[1:]
    else:
        cans = json.load(open(os.path.join(V, "canaries", "C03.json")))
    cans = [c for c in cans if not sel or any(s in c["name"] for s in sel)]
    bad = 0
    with ThreadPoolExecutor(6) as ex:
        for c, out, err in ex.map(run, cans):
            exp = c.get("expect", "violation")
            if err:
                print(f"[{c['name']}] ERROR {err}")
                bad += 1
                continue
            ref = [n for st, n in out if st == "refuted"]
            unk = [n for st, n in out if st == "unknown"]
            got = "violation" if ref else "clean"
            named = c.get("reported_by")
            ok = got == exp and (exp == "clean" or named is None or named in ref) and not (exp == "clean" and unk)
            bad += 0 if ok else 1
            print(f"[{c['name']}] expect={exp} got={got} {'OK' if ok else 'MISMATCH'}  refuted={len(ref)} unknown={len(unk)}")
            if exp == "violation" and named and named not in ref:
                print("     expected obligation not among the refuted ones:", named)
            for n in (ref + ["?" + u for u in unk])[:6]:
                print("      ", n[:200])
    sys.exit(1 if bad else 0)
