import sys; sys.path.insert(0, '/verif')
from vlib.common import Ctx
from contracts import c17_typemap
ctx = Ctx('C17')
res = c17_typemap.check(ctx, 10000)
n = {}
for nm in res.order:
    st = res.status(nm)
    n[st] = n.get(st, 0) + 1
    if st != 'proved' or '-v' in sys.argv:
        print(nm, st, [e[4] for e in res.d[nm]][:1])
print(n, ctx.notes, ctx.engine_errors)
