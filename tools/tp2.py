import sys; sys.path.insert(0,'/verif')
from contracts import c10_thrift as T
import z3
res=T.write_thrift_kind('true', 10000)
for n in res.order:
    for e in res.d[n]: print(n, e[0], e[1])
