"""stand-alone probe of contracts/c03_schematree.py: tools/schematree_probe.py [tree|init|flatten|element|meta|native|codec|all]"""
import sys, time
sys.path.insert(0, '/verif')
from vlib.common import Ctx
from contracts import c03_schematree as M
from vc.front_py import parse_module

what = sys.argv[1] if len(sys.argv) > 1 else "all"
verbose = "-v" in sys.argv
t0 = time.time()
tot = {}
for fam, res in M.run_families(what, 10000):
    for n in res.order:
        st = res.status(n)
        tot[st] = tot.get(st, 0) + 1
        if st != "proved" or verbose:
            e = next(x for x in res.d[n] if x[0] == st)
            print(f"{fam:8s} {st:8s} {n}  [{e[3]}]  {str(e[1])[:260] if e[1] else ''}  {'' if st == 'proved' else (e[4] or '')[:160]}")
print(tot, round(time.time() - t0, 2), "s")
