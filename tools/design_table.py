#!/usr/bin/env python3
"""Print the 'what decides each property' table of DESIGN.md section 0.1 from the evidence files and MANIFEST.json."""
import json, os
V = os.path.dirname(os.path.dirname(os.path.abspath(__file__)))
man = json.load(open(os.path.join(V, "MANIFEST.json")))
known = {}
for l in open(os.path.join(V, "KNOWN_FINDINGS.jsonl")):
    d = json.loads(l)
    if d.get("status") != "fixed":
        known[d["property"]] = known.get(d["property"], 0) + 1
print("| id | level | functions under contract (P) | P obligations: total / discharged / refuted = known finding / undecided | solver s | B evaluations (bounded) | open known findings |")
print("|----|-------|------------------------------|------------------|----------|-------------------------|---------------------|")
for c in man["checks"]:
    p = c["property_id"]
    f = os.path.join(V, "evidence", p + ".json")
    if not os.path.exists(f):
        continue
    e = json.load(open(f)); cv = e["coverage"]
    fn = cv.get("functions_under_contract", {})
    names = sorted(fn, key=lambda k: -fn[k].get("obligations", 0))
    short = ", ".join(f"`{n}`" for n in names[:6]) + (f" +{len(names) - 6} more" if len(names) > 6 else "")
    rk = cv.get("refuted_matching_known_findings", 0)
    rk = rk if isinstance(rk, int) else len(rk)
    und = cv.get("undecided", [])
    und = und if isinstance(und, int) else len(und)
    print(f"| {p} | {e['level']} | {len(names)}: {short or '-'} | {cv.get('obligations', 0)} / {cv.get('discharged', 0)} / {rk} / {und} | {cv.get('solver_seconds', 0)} | {cv.get('evaluations', 0)} | {known.get(p, 0)} |")
for na in man.get("not_applicable", []):
    print(f"| {na['property_id']} | not applicable | - | - | - | - | - |")
