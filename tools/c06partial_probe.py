"""Standalone probe of contracts/c06_partial.py.

  .venv/bin/python tools/c06partial_probe.py                 # run the contract on /repo (or $VERIF_REPO), print every obligation
  .venv/bin/python tools/c06partial_probe.py --brief         # only non-proved obligations + totals
  .venv/bin/python tools/c06partial_probe.py --canaries canaries/C06.json
        # apply each canary to a scratch copy of /repo/fastparquet and run THIS probe on it (does not need props/C06.py wiring)
"""
import json
import os
import shutil
import subprocess
import sys
import tempfile
import time

sys.path.insert(0, '/verif')


def run_here(brief):
    from vlib.common import Ctx
    from contracts import c06_partial
    ctx = Ctx('C06')
    t = time.time()
    n = {"proved": 0, "refuted": 0, "unknown": 0}
    secs = 0.0
    refuted = []
    for res in c06_partial.check(ctx, 10000):
        for nm in res.order:
            st = res.status(nm)
            n[st] += 1
            secs += sum(e[2] for e in res.d[nm])
            if st == "refuted":
                refuted.append(nm)
            if brief and st == "proved":
                continue
            mdl = [str(e[1])[:260] for e in res.d[nm] if e[1]][:1]
            det = [e[4] for e in res.d[nm] if e[0] != 'proved' and e[4]][:1]
            print(f"{st:8s} {nm}  x{len(res.d[nm])}", mdl if st != "proved" else "", det if st != "proved" else "")
    print("TOTAL", n, "solver_s", round(secs, 2), "wall_s", round(time.time() - t, 2), "vacuity", ctx.vacuity,
          "engine_errors", ctx.engine_errors)
    print("REFUTED:", json.dumps(refuted))
    return refuted, n, ctx.engine_errors


def run_canaries(path):
    bad = 0
    for c in json.load(open(path)):
        d = tempfile.mkdtemp(prefix="verif-c06-")
        try:
            shutil.copytree("/repo/fastparquet", os.path.join(d, "fastparquet"), ignore=shutil.ignore_patterns("__pycache__", "test", "benchmarks"))
            err = None
            for rel, old, new in c["edits"]:
                f = os.path.join(d, rel)
                s = open(f).read()
                if s.count(old) != 1:
                    err = f"edit does not apply uniquely ({s.count(old)} matches): {old[:50]!r}"
                    break
                open(f, "w").write(s.replace(old, new))
            if err:
                print(f"[canary {c['name']}] NOT APPLICABLE: {err}")
                bad += 1
                continue
            env = dict(os.environ, VERIF_REPO=d, VERIF_EVIDENCE_DIR=os.path.join(d, "ev"), VERIF_REPLAY_DIR=os.path.join(d, "rp"),
                       PYTHONDONTWRITEBYTECODE="1", PYTHONHASHSEED="0")
            r = subprocess.run([sys.executable, os.path.abspath(__file__), "--brief"], capture_output=True, text=True, env=env, cwd="/verif")
            line = [l for l in r.stdout.splitlines() if l.startswith("REFUTED:")]
            tot = [l for l in r.stdout.splitlines() if l.startswith("TOTAL")]
            if not line:
                print(f"[canary {c['name']}] probe failed: {r.stderr[-400:]}")
                bad += 1
                continue
            refuted = json.loads(line[0][len("REFUTED:"):])
            got = "violation" if refuted else "clean"
            want = c.get("expect", "violation")
            ok = got == want
            named = c.get("caught_by")
            if ok and named and want == "violation" and not any(named in r_ for r_ in refuted):
                ok = False
            print(f"[canary {c['name']}] expect={want} got={got} {'OK' if ok else 'MISMATCH'}")
            for r_ in refuted[:6]:
                print("      refuted:", r_)
            unk = [l for l in r.stdout.splitlines() if l.startswith("unknown")]
            for u in unk[:3]:
                print("      ", u[:200])
            if tot:
                print("      ", tot[0][:160])
            bad += 0 if ok else 1
        finally:
            shutil.rmtree(d, ignore_errors=True)
    return bad


if __name__ == "__main__":
    if "--canaries" in sys.argv:
        sys.exit(1 if run_canaries(sys.argv[sys.argv.index("--canaries") + 1]) else 0)
    run_here("--brief" in sys.argv)
