"""Native triage for contracts/c09_edits.py: the solver's counter-models are rebuilt as real datasets (writer.merge over
fastparquet-written files) and the real functions are run on them.
  - C09-P-sort-part-names-number-collision (open known finding): must still reproduce (CONFIRMED);
  - the defects repaired in /repo (7ff1610 partial removal refused for every dataset, 75dfd7f every row group of a renamed file
    is relabelled, 1c32364 overwrite on Timestamp / float32 partitions replaces the partition): the repaired behaviour is asserted (REPAIRED), the old failure would print STILL BROKEN and exit 1.
   tools/c09edits_native.py      (touches only a temp directory)"""
import os, shutil, sys, tempfile
import pandas as pd
from fastparquet import write, ParquetFile
from fastparquet.writer import merge

def files(d):
    return sorted(os.path.join(r, f)[len(d) + 1:] for r, _, fs in os.walk(d) for f in fs if f.startswith("part."))

def build(d, spec):
    paths = []
    for rel, frames in spec:
        os.makedirs(os.path.dirname(os.path.join(d, rel)), exist_ok=True)
        df = pd.concat([pd.DataFrame({"v": f}) for f in frames], ignore_index=True)
        offs = [0]
        for f in frames[:-1]:
            offs.append(offs[-1] + len(f))
        write(os.path.join(d, rel), df, file_scheme="simple", row_group_offsets=offs)
        paths.append(os.path.join(d, rel))
    merge(paths)
    return ParquetFile(d)

def readback(d):
    try:
        return sorted(ParquetFile(d).to_pandas().v.tolist())
    except Exception as e:
        return f"{type(e).__name__}: {e}"

root = tempfile.mkdtemp(prefix="c09native-")
bad = 0
try:
    # rename.pass2_targets_free[any numbering]: model = row group 0 d1/part.1, row group 1 d2/part.0, row group 2 d1/part.0
    d = os.path.join(root, "collide")
    pf = build(d, [("a=1/part.1.parquet", [[10, 11]]), ("a=2/part.0.parquet", [[20, 21]]), ("a=1/part.0.parquet", [[30, 31]])])
    pf._sort_part_names()
    got = readback(d)
    print("C09-P-sort-part-names-number-collision:", "CONFIRMED" if got != [10, 11, 20, 21, 30, 31] else "not confirmed", "| files", files(d), "| read-back", got)
    # rename.metadata_follows[any files] (fixed 75dfd7f): a renamed file holds two row groups -> both are relabelled
    d = os.path.join(root, "multirg")
    pf = build(d, [("part.5.parquet", [[1, 2], [3, 4]])])
    pf._sort_part_names()
    got = readback(d)
    paths = [rg.columns[0].file_path for rg in ParquetFile(d).row_groups]
    ok = got == [1, 2, 3, 4] and paths == ["part.0.parquet", "part.0.parquet"] and files(d) == ["part.0.parquet"]
    bad += 0 if ok else 1
    print("fixed-C09-sort-part-names-multi-rg:", "REPAIRED" if ok else "STILL BROKEN", "| files", files(d), "| paths", paths, "| read-back", got)
    # remove.no_kept_file_deleted[any layout] (fixed 7ff1610): created_by fastparquet, hive, one file holds a chosen and a kept row group -> raises, nothing removed
    d = os.path.join(root, "partial")
    pf = build(d, [("a=1/part.0.parquet", [[1, 2], [3, 4]]), ("a=2/part.1.parquet", [[5, 6]])])
    assert pf.file_scheme == "hive" and b"fastparquet" in pf.created_by
    before = files(d)
    try:
        pf.remove_row_groups(pf.row_groups[0])
        raised = False
    except ValueError:
        raised = True
    got = readback(d)
    ok = raised and files(d) == before and got == [1, 2, 3, 4, 5, 6]
    bad += 0 if ok else 1
    print("fixed-C09-remove-partial-file:", "REPAIRED" if ok else "STILL BROKEN", "| raised", raised, "| files", files(d), "| read-back", got)
    # removing ALL row groups of the file is still possible
    pf = ParquetFile(d)
    pf.remove_row_groups(pf.row_groups[:2])
    got = readback(d)
    ok = got == [5, 6] and files(d) == ["a=2/part.1.parquet"]
    bad += 0 if ok else 1
    print("remove whole file:", "ok" if ok else "BROKEN", "| files", files(d), "| read-back", got)
    # overwrite.partition_text_conventions_agree[datetime64 ...] / [float32 (inexact decimals)] (repaired 1c32364): real write +
    # write(append='overwrite') must replace exactly the overwritten partition
    import numpy as np, warnings
    warnings.filterwarnings("ignore")
    def ow(name, fid, col1, col2, expect_defect):
        d = os.path.join(root, "ow-" + name)
        write(d, pd.DataFrame({"x": [1, 2, 3, 4], "p": col1}), file_scheme="hive", partition_on=["p"])
        write(d, pd.DataFrame({"x": [10, 20], "p": col2}), file_scheme="hive", partition_on=["p"], append="overwrite")
        got = sorted(ParquetFile(d).to_pandas().x.tolist())
        defect = got != [3, 4, 10, 20]
        print(f"{fid}:", ("CONFIRMED" if defect else "not confirmed") if expect_defect else ("ok" if not defect else "BROKEN"),
              "| dirs", sorted(x for x in os.listdir(d) if not x.startswith("_")), "| read-back x", got)
        return defect == expect_defect
    ts = pd.to_datetime(["2020-01-01", "2020-01-01", "2021-06-01", "2021-06-01"])
    bad += 0 if ow("ts", "fixed-C09-overwrite-timestamp-partition-text (repaired 1c32364)", ts, ts[:2], False) else 1
    ts2 = pd.to_datetime(["2020-01-01 12:00:00", "2020-01-01 12:00:00", "2021-06-01 01:02:03.000123", "2021-06-01 01:02:03.000123"], format="mixed")
    bad += 0 if ow("ts2", "fixed-C09-overwrite-timestamp-partition-text, values with time (repaired 1c32364)", ts2, ts2[:2], False) else 1
    bad += 0 if ow("f32", "fixed-C09-overwrite-float32-partition-text (repaired 1c32364)", np.array([0.1, 0.1, 2.5, 2.5], dtype="float32"), np.array([0.1, 0.1], dtype="float32"), False) else 1
    bad += 0 if ow("bool", "overwrite on a bool partition (agrees)", [True, True, False, False], [True, True], False) else 1
    bad += 0 if ow("f64", "overwrite on a float64 partition (agrees)", [0.1, 0.1, 2.5, 2.5], [0.1, 0.1], False) else 1
finally:
    shutil.rmtree(root, ignore_errors=True)
sys.exit(1 if bad else 0)
