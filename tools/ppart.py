#!/usr/bin/env python3
"""Probe driver for a single P part that is not (yet) wired into props/<Cxx>.py.

  tools/ppart.py run C16 props._merge:p_merge              run the part on VERIF_REPO (default /repo) like a check: prints the
                                                           obligation table, VIOLATION lines; exit 0 / 1 (violation) / 3
  tools/ppart.py canaries canaries/C16b.json props._merge:p_merge
                                                           every canary of the file on a scratch copy (as tools/mut.py does),
                                                           with contracts/findings.jsonl as the known-findings file
"""
import json
import os
import subprocess
import sys
import tempfile

VERIF = os.path.dirname(os.path.dirname(os.path.abspath(__file__)))
sys.path.insert(0, VERIF)


def run(prop, spec):
    import importlib
    from vlib.common import Ctx
    mod, fn = spec.split(":")
    ctx = Ctx(prop, os.environ.get("VERIF_TIER", "quick"))
    try:
        getattr(importlib.import_module(mod), fn)(ctx)
    except Exception:
        import traceback
        traceback.print_exc()
        return 3
    for o in ctx.obligations:
        if o["status"] != "proved" or os.environ.get("PPART_VERBOSE"):
            print(f"  [{o['status']}] {o['name']} {o.get('model') or ''} {(o.get('detail') or '')[:140]}")
    n = len(ctx.obligations)
    print(f"{prop} {spec}: {n} obligations, {sum(o['status'] == 'proved' for o in ctx.obligations)} proved, "
          f"{sum(o['status'] == 'refuted-known' for o in ctx.obligations)} refuted-known, "
          f"{sum(o['status'] == 'refuted' for o in ctx.obligations)} refuted, {len(ctx.undecided)} unknown, "
          f"solver {sum(o['secs'] for o in ctx.obligations):.2f}s, vacuity {ctx.vacuity}")
    if ctx.violations:
        return 1
    if ctx.engine_errors or n == 0:
        return 3
    return 0


def canaries(path, spec):
    import shutil
    bad = 0
    known = tempfile.NamedTemporaryFile("w", suffix=".jsonl", delete=False)
    known.write(open(os.path.join(VERIF, "contracts", "findings.jsonl")).read())
    known.close()
    for c in json.load(open(path)):
        d = tempfile.mkdtemp(prefix="verif-canary-")
        try:
            shutil.copytree("/repo/fastparquet", os.path.join(d, "fastparquet"), ignore=shutil.ignore_patterns("__pycache__", "test", "benchmarks"))
            err = None
            for rel, old, new in c["edits"]:
                p = os.path.join(d, rel)
                s = open(p).read()
                if s.count(old) != 1:
                    err = f"edit does not apply uniquely ({s.count(old)} matches) in {rel}: {old[:50]!r}"
                    break
                open(p, "w").write(s.replace(old, new))
            if err:
                print(f"[canary {c['name']}] NOT APPLICABLE: {err}")
                bad += 1
                continue
            env = dict(os.environ, VERIF_REPO=d, VERIF_EVIDENCE_DIR=os.path.join(d, "evidence"), VERIF_REPLAY_DIR=os.path.join(d, "replays"),
                       VERIF_KNOWN_FILE=known.name, PYTHONDONTWRITEBYTECODE="1", PYTHONHASHSEED="0", **(c.get("env") or {}))
            r = subprocess.run([os.path.join(VERIF, ".venv/bin/python"), os.path.abspath(__file__), "run", c["prop"], spec],
                               capture_output=True, text=True, env=env, cwd=VERIF)
            viol = [l for l in r.stdout.splitlines() if l.startswith("VIOLATION")]
            detail = [l for l in r.stdout.splitlines() if l.startswith("  obligation") or l.startswith("  [")]
            got = "violation" if r.returncode == 1 and viol else "clean" if r.returncode == 0 else f"rc={r.returncode}"
            ok = got == c.get("expect", "violation")
            print(f"[canary {c['name']}] expect={c.get('expect', 'violation')} got={got} {'OK' if ok else 'MISMATCH'}")
            for l in detail[:6]:
                print("     ", l.strip()[:230])
            if r.returncode == 3:
                print("     stderr:", r.stderr.strip()[-600:])
            bad += 0 if ok else 1
        finally:
            shutil.rmtree(d, ignore_errors=True)
    os.unlink(known.name)
    return 1 if bad else 0


if __name__ == "__main__":
    a = sys.argv[1:]
    sys.exit(run(a[1], a[2]) if a[0] == "run" else canaries(a[1], a[2]))
