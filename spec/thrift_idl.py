"""Thrift IDL table + Thrift *compact protocol* encoder/decoder, driven by the IDL file shipped with
the library (/repo/fastparquet/parquet.thrift is parsed on every run, never re-typed).

Independent of fastparquet's code: written from the Thrift compact-protocol description
(field header = delta<<4 | type, long form with zigzag-i16 id when delta not in 1..15; types:
1 TRUE, 2 FALSE, 3 BYTE, 4 I16, 5 I32, 6 I64, 7 DOUBLE, 8 BINARY, 9 LIST, 10 SET, 11 MAP,
12 STRUCT; list header = size<<4 | elemtype, long form 0xF0|elemtype + varint size; ints are
zigzag ULEB128 varints; double is 8 bytes little-endian; binary is varint length + bytes).
"""
import os
import re
import struct as _struct

from vlib.common import REPO

CT = {"bool": 1, "byte": 3, "i8": 3, "i16": 4, "i32": 5, "i64": 6, "double": 7, "string": 8, "binary": 8}
T_LIST, T_STRUCT = 9, 12


class Field:
    __slots__ = ("id", "req", "type", "name")

    def __init__(self, id, req, type, name):
        self.id, self.req, self.type, self.name = id, req, type, name

    def __repr__(self):
        return f"{self.id}:{self.req} {self.type} {self.name}"


class IDL:
    def __init__(self, text):
        self.enums, self.structs, self.unions = {}, {}, set()
        text = re.sub(r"/\*.*?\*/", "", text, flags=re.S)
        text = re.sub(r"//[^\n]*", "", text)
        text = re.sub(r"#[^\n]*", "", text)
        for m in re.finditer(r"\benum\s+(\w+)\s*\{(.*?)\}", text, flags=re.S):
            vals = {}
            for n, v in re.findall(r"(\w+)\s*=\s*(\d+)", m.group(2)):
                vals[n] = int(v)
            self.enums[m.group(1)] = vals
        for m in re.finditer(r"\b(struct|union)\s+(\w+)\s*\{(.*?)\}", text, flags=re.S):
            fields = []
            for fm in re.finditer(r"(\d+)\s*:\s*(?:(required|optional)\s+)?((?:list\s*<\s*[\w.]+\s*>)|[\w.]+)\s+(\w+)",
                                  m.group(3)):
                fields.append(Field(int(fm.group(1)), fm.group(2) or "default",
                                    re.sub(r"\s+", "", fm.group(3)), fm.group(4)))
            self.structs[m.group(2)] = fields
            if m.group(1) == "union":
                self.unions.add(m.group(2))

    # ---- type helpers ----
    def kind(self, t):
        """-> ('prim', compact type) | ('enum', name) | ('struct', name) | ('list', elem type text)"""
        if t.startswith("list<"):
            return ("list", t[5:-1])
        if t in CT:
            return ("prim", t)
        if t in self.enums:
            return ("enum", t)
        if t in self.structs:
            return ("struct", t)
        raise KeyError(t)

    def ctype(self, t):
        k, x = self.kind(t)
        if k == "prim":
            return CT[x]
        if k == "enum":
            return 5
        if k == "struct":
            return T_STRUCT
        return T_LIST

    def is_i32(self, t):
        k, x = self.kind(t)
        return (k == "prim" and x == "i32") or k == "enum"

    def fields_by_name(self, s):
        return {f.name: f for f in self.structs[s]}

    def fields_by_id(self, s):
        return {f.id: f for f in self.structs[s]}

    def reachable(self, roots):
        seen, todo = [], list(roots)
        while todo:
            s = todo.pop()
            if s in seen or s not in self.structs:
                continue
            seen.append(s)
            for f in self.structs[s]:
                k, x = self.kind(f.type)
                if k == "list":
                    k, x = self.kind(x)
                if k == "struct":
                    todo.append(x)
        return seen


_cache = {}


def load(path=None):
    path = path or os.path.join(REPO, "fastparquet", "parquet.thrift")
    text = open(path).read()
    key = hash(text)
    if key not in _cache:
        _cache[key] = IDL(text)
    return _cache[key]


# ---- compact protocol primitives -------------------------------------------------------------
def uleb(n):
    assert n >= 0
    out = bytearray()
    while n > 0x7F:
        out.append((n & 0x7F) | 0x80)
        n >>= 7
    out.append(n)
    return bytes(out)


def zz(n, bits=64):
    return ((n << 1) ^ (n >> (bits - 1))) & ((1 << bits) - 1)


def unzz(u):
    return (u >> 1) ^ -(u & 1)


def read_uleb(b, p):
    r = s = 0
    while True:
        c = b[p]
        p += 1
        r |= (c & 0x7F) << s
        if not c & 0x80:
            return r, p
        s += 7
        if s > 70:
            raise ValueError("varint too long")


class ThriftError(ValueError):
    pass


def enc(idl, sname, val):
    """val: dict field-name -> python value (nested dicts / lists); absent or None = not set."""
    out = bytearray()
    prev = 0
    for f in sorted(idl.structs[sname], key=lambda f: f.id):
        v = val.get(f.name)
        if v is None:
            if f.req == "required":
                raise ThriftError(f"{sname}.{f.name} required")
            continue
        k, x = idl.kind(f.type)
        ct = idl.ctype(f.type)
        if ct == 1:
            ct = 1 if v else 2
        d = f.id - prev
        if 1 <= d <= 15:
            out.append((d << 4) | ct)
        else:
            out.append(ct)
            out += uleb(zz(f.id, 16))
        prev = f.id
        if ct not in (1, 2):
            out += enc_value(idl, f.type, v)
    out.append(0)
    return bytes(out)


def enc_value(idl, t, v):
    k, x = idl.kind(t)
    if k == "struct":
        return enc(idl, x, v)
    if k == "enum":
        return uleb(zz(int(v), 32))
    if k == "list":
        ek, ex = idl.kind(x)
        et = idl.ctype(x)
        out = bytearray()
        n = len(v)
        if n < 15:
            out.append((n << 4) | et)
        else:
            out.append(0xF0 | et)
            out += uleb(n)
        for e in v:
            if et == 1:
                out.append(1 if e else 2)
            else:
                out += enc_value(idl, x, e)
        return bytes(out)
    if x == "bool":
        return bytes([1 if v else 2])
    if x in ("byte", "i8"):
        return _struct.pack("b", v)
    if x == "i16":
        return uleb(zz(v, 16))
    if x == "i32":
        return uleb(zz(v, 32))
    if x == "i64":
        return uleb(zz(v, 64))
    if x == "double":
        return _struct.pack("<d", v)
    if x in ("string", "binary"):
        if isinstance(v, str):
            v = v.encode("utf8")
        return uleb(len(v)) + bytes(v)
    raise ThriftError(t)


def dec(idl, sname, b, p=0, strict=True):
    """Strict IDL-driven decode: every field id must be declared in the IDL with the wire type the
    IDL declares (strict=True raises ThriftError otherwise).  Returns (dict name->value, new pos)."""
    out = {}
    byid = idl.fields_by_id(sname)
    prev = 0
    while True:
        h = b[p]
        p += 1
        if h == 0:
            break
        ct = h & 0x0F
        d = h >> 4
        if d == 0:
            u, p = read_uleb(b, p)
            fid = unzz(u)
        else:
            fid = prev + d
        prev = fid
        f = byid.get(fid)
        if f is None:
            if strict:
                raise ThriftError(f"{sname}: field id {fid} (wire type {ct}) not in IDL")
            p = skip(b, p, ct)
            continue
        want = idl.ctype(f.type)
        if want == 1:
            if ct not in (1, 2):
                raise ThriftError(f"{sname}.{f.name}: wire type {ct}, IDL says bool")
            out[f.name] = ct == 1
            continue
        if ct != want:
            if strict:
                raise ThriftError(f"{sname}.{f.name}: wire type {ct}, IDL says {want} ({f.type})")
            p = skip(b, p, ct)
            continue
        out[f.name], p = dec_value(idl, f.type, b, p, strict)
    if strict:
        for f in idl.structs[sname]:
            if f.req == "required" and f.name not in out:
                raise ThriftError(f"{sname}.{f.name}: required field missing")
    return out, p


def dec_value(idl, t, b, p, strict=True):
    k, x = idl.kind(t)
    if k == "struct":
        return dec(idl, x, b, p, strict)
    if k == "enum":
        u, p = read_uleb(b, p)
        return unzz(u), p
    if k == "list":
        h = b[p]
        p += 1
        et = h & 0x0F
        n = h >> 4
        if n == 15:
            n, p = read_uleb(b, p)
        want = idl.ctype(x)
        if n and et != want and not (want == 1 and et in (1, 2)):
            raise ThriftError(f"list<{x}>: element wire type {et}, IDL says {want}")
        out = []
        for _ in range(n):
            if want == 1:
                out.append(b[p] == 1)
                p += 1
            else:
                v, p = dec_value(idl, x, b, p, strict)
                out.append(v)
        return out, p
    if x == "bool":
        return b[p] == 1, p + 1
    if x in ("byte", "i8"):
        return _struct.unpack_from("b", b, p)[0], p + 1
    if x in ("i16", "i32", "i64"):
        u, p = read_uleb(b, p)
        v = unzz(u)
        bits = int(x[1:])
        if strict and not -(1 << (bits - 1)) <= v < (1 << (bits - 1)):
            raise ThriftError(f"{x} value {v} out of range")
        return v, p
    if x == "double":
        return _struct.unpack_from("<d", b, p)[0], p + 8
    if x in ("string", "binary"):
        n, p = read_uleb(b, p)
        if p + n > len(b):
            raise ThriftError("binary runs past end")
        return bytes(b[p:p + n]), p + n
    raise ThriftError(t)


def skip(b, p, ct):
    if ct in (1, 2):
        return p
    if ct == 3:
        return p + 1
    if ct in (4, 5, 6):
        return read_uleb(b, p)[1]
    if ct == 7:
        return p + 8
    if ct == 8:
        n, p = read_uleb(b, p)
        return p + n
    if ct in (9, 10):
        h = b[p]
        p += 1
        n = h >> 4
        if n == 15:
            n, p = read_uleb(b, p)
        for _ in range(n):
            p = skip(b, p, h & 0x0F) if (h & 0x0F) not in (1, 2) else p + 1
        return p
    if ct == 12:
        while True:
            h = b[p]
            p += 1
            if h == 0:
                return p
            if h >> 4 == 0:
                p = read_uleb(b, p)[1]
            p = skip(b, p, h & 0x0F)
    raise ThriftError(f"cannot skip wire type {ct}")
