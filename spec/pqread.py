"""Independent Parquet reader, written from the Parquet format specification only.

It never imports fastparquet.  All metadata (footer, page headers) is decoded with the strict
IDL-driven Thrift compact codec of `spec.thrift_idl` (field ids / wire types come from the
parquet.thrift file shipped with the library, enum numbers too).  Block codecs come from `cramjam`.

Format facts implemented here (Parquet "File format", "Data pages", "Encodings", "Compression",
"Nested encoding", "Logical types"):

  file    = "PAR1" column-chunks... footer(FileMetaData, Thrift compact) le32(len(footer)) "PAR1"
  chunk   = [dictionary page] data page...   (pages are adjacent: PageHeader ++ compressed_page_size bytes)
  page v1 = compress( [rep levels][def levels] values )        levels: le32 length + RLE/bit-packed hybrid,
                                                                present only when the max level > 0
  page v2 = rep levels ++ def levels ++ (compress(values) iff is_compressed (default true))
            level byte lengths are in the header, no le32 prefix, levels never compressed
  hybrid  = runs; header uleb128: LSB 1 -> bit-packed run of (h>>1)*8 values, LSB-first bit stream
                                   LSB 0 -> RLE run of (h>>1) copies of a ceil(w/8)-byte LE value
  PLAIN   = BOOLEAN bit-packed LSB first; INT32/INT64/FLOAT/DOUBLE little endian; INT96 12 bytes;
            BYTE_ARRAY le32 length + bytes; FIXED_LEN_BYTE_ARRAY type_length bytes
  dictionary indices (PLAIN_DICTIONARY / RLE_DICTIONARY) = 1 byte bit width ++ hybrid
  RLE for BOOLEAN values = le32 length ++ hybrid(width 1)
  DELTA_BINARY_PACKED, DELTA_LENGTH_BYTE_ARRAY, DELTA_BYTE_ARRAY, BYTE_STREAM_SPLIT as published.

Leniencies (each is recorded in ParsedFile.notes, none is a structural violation):
  * trailing bytes after the last value of a page are ignored (writers pad);
  * a *final* bit-packed run may be shorter than its header announces as long as the values the page
    needs are there (the reference implementation parquet-mr reads such runs: "there might not be
    that many bytes left");
  * codec LZ4 (deprecated; its Hadoop framing is called "undocumented" by Compression.md): Hadoop
    framing is tried first, then a raw LZ4 block.

API:  read_file(bytes_or_path) -> ParsedFile ; structural_check(parsed, raw) -> [violations] ;
      logical_column(chunk) / to_logical(values, leaf) ; self_test() -> [oracle failures].
"""
import csv
import decimal
import os
import struct

import cramjam
import numpy as np

from spec import thrift_idl
from spec.thrift_idl import ThriftError, read_uleb, unzz

MAGIC = b"PAR1"


class FormatError(ValueError):
    """The bytes are not what the format specification prescribes."""


# ---------------------------------------------------------------------------------------------
# enums from the IDL
# ---------------------------------------------------------------------------------------------
class _Enums:
    def __init__(self, idl):
        for en, vals in idl.enums.items():
            setattr(self, en, dict(vals))
            setattr(self, en + "_name", {v: k for k, v in vals.items()})


_E = None


def enums():
    global _E
    if _E is None:
        _E = _Enums(thrift_idl.load())
    return _E


def ename(enum, v):
    return getattr(enums(), enum + "_name").get(v, f"?{v}")


# ---------------------------------------------------------------------------------------------
# bit level primitives
# ---------------------------------------------------------------------------------------------
def unpack_bits(data, width, count=None):
    """Values of the little-endian bit stream `data`: value k = bits [w*k, w*k+w), LSB first."""
    if width == 0:
        return [0] * (count or 0)
    nb = len(data)
    n = (nb * 8) // width
    if count is not None:
        n = min(n, count)
    if n == 0:
        return []
    if width <= 56:
        bits = np.unpackbits(np.frombuffer(data, dtype=np.uint8), bitorder="little")[: n * width]
        bits = bits.reshape(n, width).astype(np.uint64)
        weights = (np.uint64(1) << np.arange(width, dtype=np.uint64))
        return (bits * weights).sum(axis=1, dtype=np.uint64).tolist()
    big = int.from_bytes(bytes(data), "little")
    mask = (1 << width) - 1
    return [(big >> (width * k)) & mask for k in range(n)]


def hybrid_decode(buf, pos, end, width, count, notes=None, what="hybrid"):
    """Decode `count` values of an RLE/bit-packed hybrid stream occupying buf[pos:end].
    Returns (list of ints, position after the last run that was needed)."""
    out = []
    bw = (width + 7) // 8
    if width > 32:
        raise FormatError(f"{what}: bit width {width} > 32")
    while len(out) < count:
        if pos >= end:
            if width == 0:
                # zero-width stream with nothing written: every value is 0
                out.extend([0] * (count - len(out)))
                break
            raise FormatError(f"{what}: stream exhausted after {len(out)} of {count} values")
        h, pos = read_uleb(buf, pos)
        if h & 1:
            groups = h >> 1
            nvals = groups * 8
            nbytes = groups * width
            avail = end - pos
            take = nbytes
            if nbytes > avail:
                need = min(nvals, count - len(out))
                if (need * width + 7) // 8 > avail:
                    raise FormatError(f"{what}: bit-packed run of {groups} groups needs {nbytes} bytes, "
                                      f"{avail} present, {need} values still required")
                if notes is not None:
                    notes.append(f"{what}: final bit-packed run truncated ({avail} of {nbytes} bytes)")
                take = avail
            vals = unpack_bits(buf[pos:pos + take], width, min(nvals, count - len(out)))
            out.extend(vals)
            pos += take
            if groups == 0 and pos >= end:
                raise FormatError(f"{what}: empty bit-packed run at end of stream")
        else:
            run = h >> 1
            if pos + bw > end:
                raise FormatError(f"{what}: RLE run value runs past the stream")
            v = int.from_bytes(bytes(buf[pos:pos + bw]), "little")
            pos += bw
            if width < 8 * bw and v >> width:
                raise FormatError(f"{what}: RLE value {v} does not fit bit width {width}")
            out.extend([v] * min(run, count - len(out)))
    return out, pos


def bitpacked_msb_decode(buf, pos, width, count):
    """Deprecated BIT_PACKED level encoding: values packed back to back, most significant bit first."""
    nbytes = (width * count + 7) // 8
    bits = np.unpackbits(np.frombuffer(bytes(buf[pos:pos + nbytes]), dtype=np.uint8), bitorder="big")
    out = []
    for k in range(count):
        v = 0
        for b in bits[k * width:(k + 1) * width]:
            v = (v << 1) | int(b)
        out.append(v)
    return out, pos + nbytes


def _wrap(v, bits):
    v &= (1 << bits) - 1
    return v - (1 << bits) if v >> (bits - 1) else v


def delta_binary_packed_decode(buf, pos, end, bits=64):
    """DELTA_BINARY_PACKED: header <block size> <miniblocks per block> <total count> <first value zigzag>;
    block = <min delta zigzag> <bit widths, one byte per miniblock> <miniblocks>.  Returns (values, pos)."""
    block_size, pos = read_uleb(buf, pos)
    n_mini, pos = read_uleb(buf, pos)
    total, pos = read_uleb(buf, pos)
    u, pos = read_uleb(buf, pos)
    first = unzz(u)
    if n_mini == 0 or block_size % 128 or block_size % n_mini or (block_size // n_mini) % 32:
        raise FormatError(f"delta: bad block geometry block={block_size} miniblocks={n_mini}")
    per = block_size // n_mini
    out = [_wrap(first, bits)] if total else []
    while len(out) < total:
        u, pos = read_uleb(buf, pos)
        min_delta = unzz(u)
        widths = bytes(buf[pos:pos + n_mini])
        if len(widths) < n_mini:
            raise FormatError("delta: bit-width bytes run past the page")
        pos += n_mini
        for w in widths:
            if len(out) >= total:
                break
            if w > 64:
                raise FormatError(f"delta: miniblock width {w}")
            nbytes = per * w // 8
            if pos + nbytes > end:
                raise FormatError("delta: miniblock runs past the page")
            vals = unpack_bits(buf[pos:pos + nbytes], w, per) if w else [0] * per
            pos += nbytes
            for d in vals:
                if len(out) >= total:
                    break
                out.append(_wrap(out[-1] + min_delta + d, bits))
    return out, pos


# ---------------------------------------------------------------------------------------------
# codecs
# ---------------------------------------------------------------------------------------------
def decompress(codec_name, data, uncompressed_size, notes=None):
    data = bytes(data)
    if codec_name == "UNCOMPRESSED":
        out = data
    elif codec_name == "SNAPPY":
        out = bytes(cramjam.snappy.decompress_raw(data))
    elif codec_name == "GZIP":
        out = bytes(cramjam.gzip.decompress(data))
    elif codec_name == "ZSTD":
        out = bytes(cramjam.zstd.decompress(data))
    elif codec_name == "BROTLI":
        out = bytes(cramjam.brotli.decompress(data))
    elif codec_name == "LZ4_RAW":
        out = bytes(cramjam.lz4.decompress_block(data, output_len=uncompressed_size))
    elif codec_name == "LZ4":
        out = _lz4_hadoop(data, uncompressed_size)
        if out is None:
            out = bytes(cramjam.lz4.decompress_block(data, output_len=uncompressed_size))
            if notes is not None:
                notes.append("codec LZ4 (deprecated, Hadoop-framed) holds a raw LZ4 block")
    else:
        raise FormatError(f"codec {codec_name} not supported by the independent reader")
    if len(out) != uncompressed_size:
        raise FormatError(f"{codec_name}: decompressed to {len(out)} bytes, header says {uncompressed_size}")
    return out


def _lz4_hadoop(data, size):
    out = bytearray()
    p = 0
    try:
        while p < len(data):
            if p + 8 > len(data):
                return None
            usz, csz = struct.unpack_from(">II", data, p)
            p += 8
            if csz > len(data) - p or usz > size - len(out):
                return None
            out += bytes(cramjam.lz4.decompress_block(data[p:p + csz], output_len=usz))
            p += csz
    except Exception:
        return None
    return bytes(out) if len(out) == size else None


# ---------------------------------------------------------------------------------------------
# value decoders
# ---------------------------------------------------------------------------------------------
_FIXED = {"INT32": ("<i4", 4), "INT64": ("<i8", 8), "FLOAT": ("<f4", 4), "DOUBLE": ("<f8", 8)}


def plain_decode(buf, pos, end, ptype, n, type_length=None):
    """n PLAIN values of physical type `ptype` from buf[pos:end] -> (python list, new pos)."""
    if n == 0:
        return [], pos
    if ptype == "BOOLEAN":
        nb = (n + 7) // 8
        if pos + nb > end:
            raise FormatError(f"PLAIN BOOLEAN: {n} values need {nb} bytes, {end - pos} present")
        bits = np.unpackbits(np.frombuffer(bytes(buf[pos:pos + nb]), dtype=np.uint8), bitorder="little")[:n]
        return bits.astype(bool).tolist(), pos + nb
    if ptype in _FIXED:
        dt, sz = _FIXED[ptype]
        if pos + n * sz > end:
            raise FormatError(f"PLAIN {ptype}: {n} values need {n * sz} bytes, {end - pos} present")
        return np.frombuffer(bytes(buf[pos:pos + n * sz]), dtype=dt).tolist(), pos + n * sz
    if ptype == "INT96":
        if pos + 12 * n > end:
            raise FormatError(f"PLAIN INT96: {n} values need {12 * n} bytes, {end - pos} present")
        return [bytes(buf[pos + 12 * k:pos + 12 * k + 12]) for k in range(n)], pos + 12 * n
    if ptype == "BYTE_ARRAY":
        out = []
        for _ in range(n):
            if pos + 4 > end:
                raise FormatError("PLAIN BYTE_ARRAY: length prefix runs past the page")
            ln = struct.unpack_from("<I", buf, pos)[0]
            pos += 4
            if pos + ln > end:
                raise FormatError(f"PLAIN BYTE_ARRAY: value of {ln} bytes runs past the page")
            out.append(bytes(buf[pos:pos + ln]))
            pos += ln
        return out, pos
    if ptype == "FIXED_LEN_BYTE_ARRAY":
        tl = type_length
        if tl is None or tl < 0:
            raise FormatError("FIXED_LEN_BYTE_ARRAY without type_length")
        if pos + tl * n > end:
            raise FormatError(f"PLAIN FLBA({tl}): {n} values need {tl * n} bytes, {end - pos} present")
        return [bytes(buf[pos + tl * k:pos + tl * k + tl]) for k in range(n)], pos + tl * n
    raise FormatError(f"unknown physical type {ptype}")


def _delta_length_byte_array(buf, pos, end, n):
    lens, pos = delta_binary_packed_decode(buf, pos, end, 32)
    if len(lens) < n:
        raise FormatError("DELTA_LENGTH_BYTE_ARRAY: fewer lengths than values")
    out = []
    for ln in lens[:n]:
        if ln < 0 or pos + ln > end:
            raise FormatError("DELTA_LENGTH_BYTE_ARRAY: value runs past the page")
        out.append(bytes(buf[pos:pos + ln]))
        pos += ln
    return out, pos


def values_decode(buf, pos, end, encoding, ptype, n, type_length, dictionary, notes):
    """Decode n non-null values with the given value encoding."""
    if encoding == "PLAIN":
        return plain_decode(buf, pos, end, ptype, n, type_length)
    if encoding in ("PLAIN_DICTIONARY", "RLE_DICTIONARY"):
        if dictionary is None:
            raise FormatError(f"{encoding} data page without a dictionary page")
        if n == 0:
            return [], end          # nothing to decode; a width byte / empty run may still be there
        if pos >= end:
            raise FormatError("dictionary indices: missing bit-width byte")
        width = buf[pos]
        pos += 1
        idx, pos = hybrid_decode(buf, pos, end, width, n, notes, "dictionary indices")
        nd = len(dictionary)
        for i in idx:
            if i >= nd:
                raise FormatError(f"dictionary index {i} >= dictionary size {nd}")
        return [dictionary[i] for i in idx], pos
    if encoding == "RLE":
        if ptype != "BOOLEAN":
            raise FormatError(f"RLE value encoding for {ptype}")
        if n == 0:
            return [], pos
        ln = struct.unpack_from("<I", buf, pos)[0]
        pos += 4
        if pos + ln > end:
            raise FormatError("RLE booleans: length prefix runs past the page")
        v, _ = hybrid_decode(buf, pos, pos + ln, 1, n, notes, "RLE booleans")
        return [bool(x) for x in v], pos + ln
    if encoding == "DELTA_BINARY_PACKED":
        if ptype not in ("INT32", "INT64"):
            raise FormatError(f"DELTA_BINARY_PACKED for {ptype}")
        v, pos = delta_binary_packed_decode(buf, pos, end, 32 if ptype == "INT32" else 64)
        if len(v) < n:
            raise FormatError(f"DELTA_BINARY_PACKED: {len(v)} values, page needs {n}")
        return v[:n], pos
    if encoding == "DELTA_LENGTH_BYTE_ARRAY":
        return _delta_length_byte_array(buf, pos, end, n)
    if encoding == "DELTA_BYTE_ARRAY":
        prefix, pos = delta_binary_packed_decode(buf, pos, end, 32)
        suffix, pos = _delta_length_byte_array(buf, pos, end, n)
        out, prev = [], b""
        for p, s in zip(prefix[:n], suffix):
            prev = prev[:p] + s
            out.append(prev)
        if len(out) < n:
            raise FormatError("DELTA_BYTE_ARRAY: fewer values than the page needs")
        return out, pos
    if encoding == "BYTE_STREAM_SPLIT":
        dt, sz = _FIXED.get(ptype, (None, type_length))
        if pos + n * sz > end:
            raise FormatError("BYTE_STREAM_SPLIT: page too short")
        a = np.frombuffer(bytes(buf[pos:pos + n * sz]), dtype=np.uint8).reshape(sz, n).T.copy()
        if dt:
            return a.view(dt).ravel().tolist(), pos + n * sz
        return [bytes(r) for r in a], pos + n * sz
    raise FormatError(f"value encoding {encoding} not supported")


# ---------------------------------------------------------------------------------------------
# schema
# ---------------------------------------------------------------------------------------------
class Leaf:
    """A leaf of the schema tree with the maximum definition / repetition level of its path."""

    def __init__(self, se, path, max_def, max_rep, ancestors):
        self.se, self.path, self.max_def, self.max_rep = se, tuple(path), max_def, max_rep
        self.ancestors = ancestors
        self.name = path[-1]
        self.type = ename("Type", se["type"])
        self.type_length = se.get("type_length")
        ct = se.get("converted_type")
        self.converted_type = None if ct is None else ename("ConvertedType", ct)
        self.logical_type = se.get("logicalType")
        self.repetition = ename("FieldRepetitionType", se.get("repetition_type", 0))
        self.flat = len(path) == 1 and max_rep == 0

    def __repr__(self):
        return f"Leaf({'.'.join(self.path)} {self.type} {self.converted_type} def={self.max_def} rep={self.max_rep})"


def _text(b):
    return b.decode("utf8", "replace") if isinstance(b, (bytes, bytearray)) else b


def resolve_schema(elements):
    """Flattened depth-first schema list -> (leaves, problems)."""
    problems, leaves = [], []
    if not elements:
        return [], ["schema is empty"]
    pos = [1]

    def walk(n_children, path, d, r, anc):
        for _ in range(n_children):
            if pos[0] >= len(elements):
                problems.append("schema: num_children runs past the element list")
                return
            se = elements[pos[0]]
            pos[0] += 1
            rep = se.get("repetition_type")
            if rep is None:
                problems.append(f"schema element {_text(se.get('name'))!r}: repetition_type missing on a non-root element")
                rep = 0
            rn = ename("FieldRepetitionType", rep)
            d2 = d + (rn != "REQUIRED")
            r2 = r + (rn == "REPEATED")
            p2 = path + [_text(se["name"])]
            nc = se.get("num_children")
            if se.get("type") is None:
                walk(nc or 0, p2, d2, r2, anc + [se])
            else:
                if nc:
                    problems.append(f"schema element {p2}: both type and num_children set")
                leaves.append(Leaf(se, p2, d2, r2, anc))

    root = elements[0]
    walk(root.get("num_children") or 0, [], 0, 0, [])
    if pos[0] != len(elements):
        problems.append(f"schema: {len(elements) - pos[0]} elements not reachable from the root")
    return leaves, problems


# ---------------------------------------------------------------------------------------------
# parsed objects
# ---------------------------------------------------------------------------------------------
class Page:
    """One page: header dict, where it lies, what it holds."""
    __slots__ = ("header", "offset", "header_len", "payload_offset", "compressed_size", "uncompressed_size",
                 "kind", "encoding", "num_values", "num_nulls", "num_rows", "def_levels", "rep_levels",
                 "values", "error", "def_encoding", "rep_encoding")

    def __init__(self):
        for s in self.__slots__:
            setattr(self, s, None)

    @property
    def end(self):
        return self.payload_offset + self.compressed_size


class Chunk:
    """One column chunk: metadata, pages, decoded levels and values."""

    def __init__(self, cc, leaf):
        self.cc, self.meta, self.leaf = cc, cc.get("meta_data"), leaf
        self.file_path = None if cc.get("file_path") is None else _text(cc["file_path"])
        self.pages, self.dictionary = [], None
        self.def_levels, self.rep_levels, self.values = [], [], []
        self.errors, self.notes = [], []
        self.start = self.end = None
        self.missing_file = False
        self.column = None          # flat / non-repeated columns: python values, None for NULL
        self.codec = None

    @property
    def data_pages(self):
        return [p for p in self.pages if p.kind in ("DATA_PAGE", "DATA_PAGE_V2")]

    @property
    def num_nulls(self):
        return sum(p.num_nulls or 0 for p in self.data_pages)


class RowGroup:
    def __init__(self, rg):
        self.meta, self.columns = rg, []
        self.num_rows = rg.get("num_rows")


class ParsedFile:
    def __init__(self):
        self.fmd = None
        self.schema = []          # list of Leaf
        self.schema_elements = []
        self.row_groups = []
        self.errors, self.notes = [], []
        self.footer_start = self.footer_len = self.size = None
        self.external = {}        # file_path -> bytes (or None when missing) for _metadata style footers
        self.path = None

    # convenience ----------------------------------------------------------------------------
    def column(self, name):
        """Concatenated logical column (flat) over all row groups: raw physical values, None = NULL."""
        out = []
        for rg in self.row_groups:
            for c in rg.columns:
                if c.leaf is not None and ".".join(c.leaf.path) == name:
                    if c.errors:
                        raise FormatError("; ".join(c.errors))
                    out.extend(c.column if c.column is not None else c.values)
        return out

    def logical(self, name):
        leaf = [l for l in self.schema if ".".join(l.path) == name][0]
        return to_logical(self.column(name), leaf)

    def all_errors(self):
        out = list(self.errors)
        for i, rg in enumerate(self.row_groups):
            for c in rg.columns:
                out += [f"rg{i}/{'.'.join(c.leaf.path) if c.leaf else '?'}: {e}" for e in c.errors]
        return out

    def all_notes(self):
        out = list(self.notes)
        for rg in self.row_groups:
            for c in rg.columns:
                out += c.notes
        return out


# ---------------------------------------------------------------------------------------------
# reading
# ---------------------------------------------------------------------------------------------
def _bit_width(max_level):
    return int(max_level).bit_length()


def _read_levels_v1(buf, pos, end, enc, max_level, n, notes, what):
    if max_level == 0:
        return [0] * n, pos
    w = _bit_width(max_level)
    if enc == "RLE":
        if pos + 4 > end:
            raise FormatError(f"{what}: length prefix runs past the page")
        ln = struct.unpack_from("<I", buf, pos)[0]
        pos += 4
        if pos + ln > end:
            raise FormatError(f"{what}: level block of {ln} bytes runs past the page")
        lv, _ = hybrid_decode(buf, pos, pos + ln, w, n, notes, what)
        pos += ln
    elif enc == "BIT_PACKED":
        lv, pos = bitpacked_msb_decode(buf, pos, w, n)
    else:
        raise FormatError(f"{what}: level encoding {enc}")
    for v in lv:
        if v > max_level:
            raise FormatError(f"{what}: level {v} > max level {max_level}")
    return lv, pos


def parse_page_at(raw, pos, limit):
    """Parse one page header at `pos`; returns a Page with geometry only (no payload decode)."""
    idl = thrift_idl.load()
    try:
        hdr, p2 = thrift_idl.dec(idl, "PageHeader", raw, pos)
    except ThriftError as e:
        raise FormatError(f"page header at {pos}: {e}")
    except (IndexError, ValueError, struct.error) as e:
        raise FormatError(f"page header at {pos}: cannot be parsed ({type(e).__name__}: {e})")
    pg = Page()
    pg.header, pg.offset, pg.header_len, pg.payload_offset = hdr, pos, p2 - pos, p2
    pg.compressed_size, pg.uncompressed_size = hdr["compressed_page_size"], hdr["uncompressed_page_size"]
    pg.kind = ename("PageType", hdr["type"])
    if pg.compressed_size < 0 or pg.uncompressed_size < 0:
        raise FormatError(f"page at {pos}: negative size")
    if pg.end > limit:
        raise FormatError(f"page at {pos}: payload of {pg.compressed_size} bytes runs past {limit}")
    sub = {"DATA_PAGE": "data_page_header", "DATA_PAGE_V2": "data_page_header_v2",
           "DICTIONARY_PAGE": "dictionary_page_header", "INDEX_PAGE": "index_page_header"}.get(pg.kind)
    if sub is None:
        raise FormatError(f"page at {pos}: unknown page type {hdr['type']}")
    if hdr.get(sub) is None:
        raise FormatError(f"page at {pos}: type {pg.kind} without {sub}")
    return pg


def _decode_page(raw, pg, chunk, codec):
    leaf, notes = chunk.leaf, chunk.notes
    hdr = pg.header
    payload = raw[pg.payload_offset:pg.end]
    if pg.kind == "DICTIONARY_PAGE":
        dh = hdr["dictionary_page_header"]
        pg.encoding = ename("Encoding", dh["encoding"])
        pg.num_values = dh["num_values"]
        data = decompress(codec, payload, pg.uncompressed_size, notes)
        if pg.encoding not in ("PLAIN", "PLAIN_DICTIONARY"):
            raise FormatError(f"dictionary page encoding {pg.encoding}")
        vals, _ = plain_decode(data, 0, len(data), leaf.type, pg.num_values, leaf.type_length)
        pg.values = vals
        return
    if pg.kind == "DATA_PAGE":
        dh = hdr["data_page_header"]
        n = pg.num_values = dh["num_values"]
        pg.encoding = ename("Encoding", dh["encoding"])
        pg.def_encoding = ename("Encoding", dh["definition_level_encoding"])
        pg.rep_encoding = ename("Encoding", dh["repetition_level_encoding"])
        data = decompress(codec, payload, pg.uncompressed_size, notes)
        end = len(data)
        pos = 0
        rep, pos = _read_levels_v1(data, pos, end, pg.rep_encoding, leaf.max_rep, n, notes, "repetition levels")
        dfl, pos = _read_levels_v1(data, pos, end, pg.def_encoding, leaf.max_def, n, notes, "definition levels")
    elif pg.kind == "DATA_PAGE_V2":
        dh = hdr["data_page_header_v2"]
        n = pg.num_values = dh["num_values"]
        pg.encoding = ename("Encoding", dh["encoding"])
        rl, dl = dh["repetition_levels_byte_length"], dh["definition_levels_byte_length"]
        if rl < 0 or dl < 0 or rl + dl > len(payload):
            raise FormatError("v2 level byte lengths exceed the page")
        if leaf.max_rep == 0 and rl:
            raise FormatError("v2 page of a non-repeated column has repetition level bytes")
        if leaf.max_def == 0 and dl:
            raise FormatError("v2 page of a required column has definition level bytes")
        rep = [0] * n
        dfl = [0] * n
        if leaf.max_rep:
            rep, _ = hybrid_decode(payload, 0, rl, _bit_width(leaf.max_rep), n, notes, "repetition levels")
        if leaf.max_def:
            dfl, _ = hybrid_decode(payload, rl, rl + dl, _bit_width(leaf.max_def), n, notes, "definition levels")
        for v in dfl:
            if v > leaf.max_def:
                raise FormatError(f"definition level {v} > max {leaf.max_def}")
        for v in rep:
            if v > leaf.max_rep:
                raise FormatError(f"repetition level {v} > max {leaf.max_rep}")
        body = payload[rl + dl:]
        usz = pg.uncompressed_size - rl - dl
        if usz < 0:
            raise FormatError("v2 uncompressed_page_size smaller than the level bytes")
        is_c = dh.get("is_compressed")
        if is_c is None:
            is_c = True
        if is_c:
            data = decompress(codec, body, usz, notes)
        else:
            if len(body) != usz:
                raise FormatError(f"v2 uncompressed page: body {len(body)} bytes, header implies {usz}")
            data = bytes(body)
        pos, end = 0, len(data)
        pg.num_rows = dh["num_rows"]
    else:
        return  # index pages carry nothing we decode
    nn = sum(1 for v in dfl if v == leaf.max_def) if leaf.max_def else n
    vals, pos = values_decode(data, pos, end, pg.encoding, leaf.type, nn, leaf.type_length,
                              chunk.dictionary, notes)
    pg.def_levels, pg.rep_levels, pg.values = dfl, rep, vals
    pg.num_nulls = n - nn
    if pos < end:
        trailing = bytes(data[pos:end])
        if any(trailing):
            notes.append(f"page at {pg.offset}: {end - pos} non-zero trailing bytes after the values")


def _read_chunk(raw, limit, chunk):
    """Walk and decode the pages of one chunk inside `raw` (bytes of the file holding it)."""
    m, leaf = chunk.meta, chunk.leaf
    codec = chunk.codec = ename("CompressionCodec", m["codec"])
    dpo, dio = m["data_page_offset"], m.get("dictionary_page_offset")
    start = dpo
    if dio is not None and 4 <= dio < dpo:
        start = dio
    chunk.start = start
    stop = start + m["total_compressed_size"]
    chunk.end = stop
    if start < 4 or stop > limit:
        chunk.errors.append(f"chunk range [{start},{stop}) outside the data area [4,{limit})")
        return
    pos = start
    seen_values = 0
    while pos < stop:
        try:
            pg = parse_page_at(raw, pos, limit)
        except FormatError as e:
            chunk.errors.append(str(e))
            return
        chunk.pages.append(pg)
        try:
            _decode_page(raw, pg, chunk, codec)
        except (FormatError, ThriftError) as e:
            pg.error = str(e)
            chunk.errors.append(f"page at {pg.offset} ({pg.kind}): {e}")
        except Exception as e:      # codec library errors, struct errors: the bytes are not decodable
            pg.error = f"{type(e).__name__}: {e}"
            chunk.errors.append(f"page at {pg.offset} ({pg.kind}): {type(e).__name__}: {e}")
        if pg.kind == "DICTIONARY_PAGE" and pg.values is not None:
            if chunk.dictionary is not None:
                chunk.errors.append(f"second dictionary page at {pg.offset}")
            chunk.dictionary = pg.values
        if pg.kind in ("DATA_PAGE", "DATA_PAGE_V2"):
            seen_values += pg.num_values or 0
            if pg.values is not None:
                chunk.def_levels += pg.def_levels
                chunk.rep_levels += pg.rep_levels
                chunk.values += pg.values
        pos = pg.end
    if not chunk.errors and leaf.max_rep == 0:
        if leaf.max_def == 0:
            chunk.column = list(chunk.values)
        else:
            it = iter(chunk.values)
            md = leaf.max_def
            chunk.column = [next(it) if d == md else None for d in chunk.def_levels]


def read_file(src, base_dir=None, decode=True):
    """Parse a Parquet file given as bytes or as a path.  Never raises for malformed content: problems
    are collected in .errors (file level) and chunk.errors; structural_check reports them."""
    pf = ParsedFile()
    if isinstance(src, (bytes, bytearray, memoryview)):
        raw = bytes(src)
    else:
        pf.path = os.fspath(src)
        with open(pf.path, "rb") as f:
            raw = f.read()
        if base_dir is None:
            base_dir = os.path.dirname(pf.path)
    pf.size = len(raw)
    if len(raw) < 12:
        pf.errors.append(f"file of {len(raw)} bytes is too short for magic + footer length + magic")
        return pf
    if raw[:4] != MAGIC:
        pf.errors.append(f"leading magic is {raw[:4]!r}")
    if raw[-4:] != MAGIC:
        pf.errors.append(f"trailing magic is {raw[-4:]!r}")
    flen = struct.unpack("<I", raw[-8:-4])[0]
    pf.footer_len = flen
    fstart = len(raw) - 8 - flen
    pf.footer_start = fstart
    if fstart < 4:
        pf.errors.append(f"footer length {flen} does not fit in a file of {len(raw)} bytes")
        return pf
    idl = thrift_idl.load()
    try:
        fmd, p2 = thrift_idl.dec(idl, "FileMetaData", raw[:len(raw) - 8], fstart)
    except ThriftError as e:
        pf.errors.append(f"footer: {e}")
        return pf
    except (IndexError, ValueError, struct.error) as e:
        pf.errors.append(f"footer cannot be parsed: {type(e).__name__}: {e}")
        return pf
    if p2 != len(raw) - 8:
        pf.errors.append(f"footer: FileMetaData occupies {p2 - fstart} bytes, footer length field says {flen}")
    pf.fmd = fmd
    pf.schema_elements = fmd["schema"]
    pf.schema, problems = resolve_schema(fmd["schema"])
    pf.errors += problems
    for rg in fmd.get("row_groups") or []:
        R = RowGroup(rg)
        pf.row_groups.append(R)
        cols = rg.get("columns") or []
        for i, cc in enumerate(cols):
            leaf = None
            md = cc.get("meta_data")
            if md is not None:
                path = tuple(_text(x) for x in md["path_in_schema"])
                cands = [l for l in pf.schema if l.path == path]
                leaf = cands[0] if cands else (pf.schema[i] if i < len(pf.schema) and len(cols) == len(pf.schema) else None)
            ch = Chunk(cc, leaf)
            R.columns.append(ch)
            if md is None:
                ch.errors.append("column chunk without meta_data")
                continue
            if leaf is None:
                ch.errors.append(f"path_in_schema {md['path_in_schema']} names no schema leaf")
                continue
            if not decode:
                continue
            if ch.file_path is not None:
                if ch.file_path not in pf.external:
                    data = None
                    if base_dir is not None:
                        fn = os.path.join(base_dir, *ch.file_path.split("/"))
                        if os.path.isfile(fn):
                            with open(fn, "rb") as f:
                                data = f.read()
                    pf.external[ch.file_path] = data
                data = pf.external[ch.file_path]
                if data is None:
                    ch.missing_file = True
                    ch.errors.append(f"file_path {ch.file_path!r} does not exist")
                    continue
                elen = struct.unpack("<I", data[-8:-4])[0] if len(data) >= 12 else 0
                _read_chunk(data, max(len(data) - 8 - elen, 4), ch)
            else:
                _read_chunk(raw, fstart, ch)
    return pf


# ---------------------------------------------------------------------------------------------
# logical types
# ---------------------------------------------------------------------------------------------
_JULIAN_EPOCH = 2440588


def _logical_kind(leaf):
    """Normalise converted_type / logicalType to one tag."""
    ct, lt = leaf.converted_type, leaf.logical_type
    if lt:
        if lt.get("TIMESTAMP") is not None:
            unit = lt["TIMESTAMP"].get("unit") or {}
            for k, tag in (("MILLIS", "ms"), ("MICROS", "us"), ("NANOS", "ns")):
                if unit.get(k) is not None:
                    return ("timestamp", tag)
        if lt.get("TIME") is not None:
            unit = lt["TIME"].get("unit") or {}
            for k, tag in (("MILLIS", "ms"), ("MICROS", "us"), ("NANOS", "ns")):
                if unit.get(k) is not None:
                    return ("time", tag)
        if lt.get("STRING") is not None or lt.get("ENUM") is not None:
            return ("text",)
        if lt.get("JSON") is not None:
            return ("text",)
        if lt.get("DATE") is not None:
            return ("date",)
        if lt.get("INTEGER") is not None:
            it = lt["INTEGER"]
            return ("int", it.get("bitWidth"), bool(it.get("isSigned")))
        if lt.get("DECIMAL") is not None:
            return ("decimal", lt["DECIMAL"].get("scale", 0))
    if ct in ("UTF8", "ENUM", "JSON"):
        return ("text",)
    if ct == "DATE":
        return ("date",)
    if ct == "TIMESTAMP_MILLIS":
        return ("timestamp", "ms")
    if ct == "TIMESTAMP_MICROS":
        return ("timestamp", "us")
    if ct == "TIME_MILLIS":
        return ("time", "ms")
    if ct == "TIME_MICROS":
        return ("time", "us")
    if ct and ct.startswith("UINT_"):
        return ("int", int(ct[5:]), False)
    if ct and ct.startswith("INT_"):
        return ("int", int(ct[4:]), True)
    if ct == "DECIMAL":
        return ("decimal", leaf.se.get("scale") or 0)
    if leaf.type == "INT96":
        return ("int96",)
    return ("raw",)


def int96_to_ns(b):
    nanos, jd = struct.unpack("<qI", b)
    return (jd - _JULIAN_EPOCH) * 86400 * 10 ** 9 + nanos


def to_logical(values, leaf):
    """Apply the converted/logical type of `leaf` to raw physical values (None stays None)."""
    k = _logical_kind(leaf)
    tag = k[0]
    if tag == "raw":
        return list(values)
    if tag == "text":
        f = lambda v: v.decode("utf8")
    elif tag == "date":
        f = lambda v: np.datetime64(v, "D")
    elif tag == "timestamp":
        f = lambda v, u=k[1]: np.datetime64(v, u)
    elif tag == "time":
        f = lambda v, u=k[1]: np.timedelta64(v, u)
    elif tag == "int96":
        f = lambda v: np.datetime64(int96_to_ns(v), "ns")
    elif tag == "int":
        bits, signed = k[1], k[2]
        if signed:
            f = lambda v: v
        else:
            phys = 32 if leaf.type == "INT32" else 64
            f = lambda v, m=(1 << phys) - 1: v & m
    elif tag == "decimal":
        scale = k[1]
        if leaf.type in ("INT32", "INT64"):
            f = lambda v: decimal.Decimal(v).scaleb(-scale)
        else:
            f = lambda v: decimal.Decimal(int.from_bytes(v, "big", signed=True)).scaleb(-scale)
    else:
        f = lambda v: v
    return [None if v is None else f(v) for v in values]


def logical_column(chunk):
    if chunk.column is None:
        raise FormatError("no flat column decoded: " + "; ".join(chunk.errors))
    return to_logical(chunk.column, chunk.leaf)


# ---------------------------------------------------------------------------------------------
# structural half of property C02
# ---------------------------------------------------------------------------------------------
_LEVEL_ENCODINGS = {"RLE", "BIT_PACKED"}


def structural_check(parsed, raw=None, strict_file_offset=False, summary_file=False):
    """Violations of the structural half of C02 (empty list = structurally valid).

    summary_file=True: the file is a schema-only summary (`_common_metadata`): it must not have row
    groups, and FileMetaData.num_rows is not compared with them.

    Tags at the start of a message group related checks:
      [encoding_stats.page_type]  encoding_stats differs from the pages only in DATA_PAGE vs DATA_PAGE_V2
      [encoding_stats]            any other encoding_stats mismatch
    """
    v = []
    pf = parsed
    v += [f"file: {e}" for e in pf.errors]
    if pf.fmd is None:
        return v
    if raw is not None and len(raw) != pf.size:
        v.append("file: raw bytes given are not the bytes that were parsed")
    fmd = pf.fmd
    root = fmd["schema"][0] if fmd["schema"] else {}
    if root.get("type") is not None:
        v.append("schema: root element has a physical type")
    total_rows = 0
    ranges = []
    for gi, R in enumerate(pf.row_groups):
        rg = R.meta
        total_rows += rg["num_rows"]
        tag = f"rg{gi}"
        if rg["num_rows"] < 0:
            v.append(f"{tag}: negative num_rows")
        if len(R.columns) != len(pf.schema):
            v.append(f"{tag}: {len(R.columns)} column chunks, schema has {len(pf.schema)} leaves")
        sum_unc = sum_comp = 0
        metas_ok = True
        for ci, ch in enumerate(R.columns):
            name = ".".join(ch.leaf.path) if ch.leaf else f"#{ci}"
            ct = f"{tag}/{name}"
            m = ch.meta
            if m is None or ch.leaf is None:
                v += [f"{ct}: {e}" for e in ch.errors]
                metas_ok = False
                continue
            sum_unc += m["total_uncompressed_size"]
            sum_comp += m["total_compressed_size"]
            if ci < len(pf.schema) and pf.schema[ci] is not ch.leaf:
                v.append(f"{ct}: chunk {ci} is not in schema order (expected {'.'.join(pf.schema[ci].path)})")
            if ename("Type", m["type"]) != ch.leaf.type:
                v.append(f"{ct}: meta type {ename('Type', m['type'])} but schema says {ch.leaf.type}")
            if ch.missing_file:
                v.append(f"{ct}: file_path {ch.file_path!r} does not exist")
                continue
            # where the chunk lives
            if ch.file_path is None:
                limit, size = pf.footer_start, pf.size
            else:
                data = pf.external.get(ch.file_path)
                size = len(data)
                limit = size - 8 - struct.unpack("<I", data[-8:-4])[0]
                if data[:4] != MAGIC or data[-4:] != MAGIC:
                    v.append(f"{ct}: referenced file {ch.file_path!r} lacks the magic")
            fo = ch.cc["file_offset"]
            if not (fo == 0 or 4 <= fo <= limit):
                v.append(f"{ct}: file_offset {fo} outside the file's data area [4,{limit}]")
            if strict_file_offset and ch.start is not None and fo not in (0, ch.start, ch.end):
                v.append(f"{ct}: file_offset {fo} is neither the chunk start {ch.start} nor its end {ch.end}")
            dpo, dio = m["data_page_offset"], m.get("dictionary_page_offset")
            if ch.start is None or (ch.errors and not ch.pages):
                v += [f"{ct}: {e}" for e in ch.errors]
                continue
            v += [f"{ct}: {e}" for e in ch.errors]
            if ch.file_path is None:
                ranges.append((ch.start, ch.end, ct))
            pages = ch.pages
            # offsets point at headers of the right type
            first = pages[0] if pages else None
            has_dict = bool(first is not None and first.kind == "DICTIONARY_PAGE")
            if dio is not None:
                if not (4 <= dio < dpo):
                    v.append(f"{ct}: dictionary_page_offset {dio} not in [4, data_page_offset {dpo})")
                elif not has_dict or first.offset != dio:
                    v.append(f"{ct}: dictionary_page_offset {dio} does not point at a DICTIONARY_PAGE header")
            elif has_dict:
                v.append(f"{ct}: chunk starts with a dictionary page but dictionary_page_offset is not set")
            for k, pg in enumerate(pages):
                if pg.kind == "DICTIONARY_PAGE" and k != 0:
                    v.append(f"{ct}: dictionary page at {pg.offset} is not the first page of the chunk")
            dps = ch.data_pages
            if not dps:
                v.append(f"{ct}: chunk has no data page")
            else:
                if dps[0].offset != dpo:
                    v.append(f"{ct}: data_page_offset {dpo} is not the offset of the first data page header "
                             f"({dps[0].offset})")
            # tiling
            if pages:
                if pages[0].offset != ch.start:
                    v.append(f"{ct}: first page at {pages[0].offset}, chunk starts at {ch.start}")
                for a, b in zip(pages, pages[1:]):
                    if b.offset != a.end:
                        v.append(f"{ct}: gap/overlap between pages at {a.offset} and {b.offset}")
                if pages[-1].end != ch.end and not any("page header at" in e for e in ch.errors):
                    v.append(f"{ct}: pages end at {pages[-1].end}, start+total_compressed_size is {ch.end}")
            tc = sum(p.header_len + p.compressed_size for p in pages)
            tu = sum(p.header_len + p.uncompressed_size for p in pages)
            if tc != m["total_compressed_size"]:
                v.append(f"{ct}: total_compressed_size {m['total_compressed_size']} != sum over pages {tc}")
            if tu != m["total_uncompressed_size"]:
                v.append(f"{ct}: total_uncompressed_size {m['total_uncompressed_size']} != sum over pages {tu}")
            # counts
            nv = sum(p.num_values or 0 for p in dps)
            if nv != m["num_values"]:
                v.append(f"{ct}: num_values {m['num_values']} != sum of data page num_values {nv}")
            if ch.leaf.max_rep == 0:
                if m["num_values"] != rg["num_rows"]:
                    v.append(f"{ct}: num_values {m['num_values']} != row group num_rows {rg['num_rows']}")
            elif not ch.errors:
                rows = sum(1 for r in ch.rep_levels if r == 0)
                if rows != rg["num_rows"]:
                    v.append(f"{ct}: {rows} records begin in the chunk, row group num_rows {rg['num_rows']}")
            # codec
            codec = ch.codec
            if codec == "UNCOMPRESSED":
                for p in pages:
                    if p.compressed_size != p.uncompressed_size:
                        v.append(f"{ct}: codec UNCOMPRESSED but page at {p.offset} has compressed_page_size "
                                 f"{p.compressed_size} != uncompressed_page_size {p.uncompressed_size}")
            # encodings
            used = set()
            lvl = set()
            for p in pages:
                if p.encoding:
                    used.add(p.encoding)
                if p.kind == "DATA_PAGE":
                    lvl.update({p.def_encoding, p.rep_encoding})
                elif p.kind == "DATA_PAGE_V2":
                    lvl.add("RLE")
                elif p.kind == "DICTIONARY_PAGE" and p.encoding == "PLAIN_DICTIONARY":
                    lvl.add("PLAIN")      # legacy name: the dictionary content is PLAIN
            listed = {ename("Encoding", e) for e in m["encodings"]}
            if len(listed) != len(m["encodings"]):
                v.append(f"{ct}: encodings lists an encoding twice: {[ename('Encoding', e) for e in m['encodings']]}")
            missing = used - listed
            extra = listed - used - lvl - _LEVEL_ENCODINGS
            if missing:
                v.append(f"{ct}: encodings {sorted(listed)} lacks {sorted(missing)} used by the pages")
            if extra:
                v.append(f"{ct}: encodings lists {sorted(extra)} which no page uses")
            es = m.get("encoding_stats")
            if es is not None:
                have = {}
                for p in pages:
                    if p.kind in ("DATA_PAGE", "DATA_PAGE_V2", "DICTIONARY_PAGE") and p.encoding:
                        key = (p.kind, p.encoding)
                        have[key] = have.get(key, 0) + 1
                said = {}
                for s in es:
                    key = (ename("PageType", s["page_type"]), ename("Encoding", s["encoding"]))
                    said[key] = said.get(key, 0) + s["count"]
                if said != have:
                    fold = lambda d: _fold_v2(d)
                    tagx = "[encoding_stats.page_type]" if fold(said) == fold(have) else "[encoding_stats]"
                    v.append(f"{tagx} {ct}: encoding_stats {_fmt_es(said)} but the pages are {_fmt_es(have)}")
            # v2 page counters, statistics
            if not ch.errors:
                for p in dps:
                    if p.kind == "DATA_PAGE_V2":
                        h2 = p.header["data_page_header_v2"]
                        rows = sum(1 for r in p.rep_levels if r == 0)
                        if h2["num_rows"] != rows:
                            v.append(f"{ct}: v2 page at {p.offset}: num_rows {h2['num_rows']} but {rows} records begin in it")
                        if h2["num_nulls"] != p.num_nulls:
                            v.append(f"{ct}: v2 page at {p.offset}: num_nulls {h2['num_nulls']} but levels hold {p.num_nulls} nulls")
                        st = h2.get("statistics")
                    else:
                        st = p.header["data_page_header"].get("statistics")
                    if st and st.get("null_count") is not None and st["null_count"] != p.num_nulls:
                        v.append(f"{ct}: page at {p.offset}: statistics.null_count {st['null_count']} but {p.num_nulls} nulls decoded")
                st = m.get("statistics")
                if st and st.get("null_count") is not None and st["null_count"] != ch.num_nulls:
                    v.append(f"{ct}: statistics.null_count {st['null_count']} but {ch.num_nulls} nulls decoded")
                if ch.leaf.repetition == "REQUIRED" and ch.leaf.max_def == 0 and ch.num_nulls:
                    v.append(f"{ct}: required column with nulls")
        if metas_ok:
            if rg["total_byte_size"] != sum_unc:
                v.append(f"{tag}: total_byte_size {rg['total_byte_size']} != sum of total_uncompressed_size {sum_unc}")
            if rg.get("total_compressed_size") is not None and rg["total_compressed_size"] != sum_comp:
                v.append(f"{tag}: total_compressed_size {rg['total_compressed_size']} != sum over chunks {sum_comp}")
        fo = rg.get("file_offset")
        if fo is not None and R.columns and all(c.file_path is None for c in R.columns):
            if not (4 <= fo <= pf.footer_start):
                v.append(f"{tag}: file_offset {fo} outside the data area")
    if summary_file and pf.row_groups:
        v.append(f"file: a schema-only summary file has {len(pf.row_groups)} row groups")
    if fmd["num_rows"] != total_rows and not (summary_file and not pf.row_groups):
        v.append(f"file: FileMetaData.num_rows {fmd['num_rows']} != sum of row group num_rows {total_rows}")
    ranges.sort()
    for (a0, a1, an), (b0, b1, bn) in zip(ranges, ranges[1:]):
        if b0 < a1:
            v.append(f"file: column chunks {an} [{a0},{a1}) and {bn} [{b0},{b1}) overlap")
    return v


def _fold_v2(d):
    out = {}
    for (pt, enc), n in d.items():
        key = ("DATA_PAGE" if pt == "DATA_PAGE_V2" else pt, enc)
        out[key] = out.get(key, 0) + n
    return out


def _fmt_es(d):
    return "{" + ", ".join(f"{pt}/{enc}x{n}" for (pt, enc), n in sorted(d.items())) + "}"


# ---------------------------------------------------------------------------------------------
# self test against third-party fixtures (files neither we nor the library under check wrote)
# ---------------------------------------------------------------------------------------------
def _fixture_dir():
    from vlib.common import REPO
    return os.path.join(REPO, "test-data")


def _nation_csv(td):
    rows = []
    with open(os.path.join(td, "nation.csv"), newline="") as f:
        for r in csv.reader(f, delimiter="|"):
            if r:
                rows.append((int(r[0]), r[1], int(r[2]), r[3]))
    return rows


def self_test(verbose=False):
    """Decode the third-party fixtures and compare with independently known content.
    Returns a list of oracle failures (empty = the reader can be trusted as an oracle)."""
    td = _fixture_dir()
    fails = []
    done = []

    def load(name):
        fn = os.path.join(td, name)
        if not os.path.isfile(fn) or os.path.getsize(fn) == 0:
            return None
        pf = read_file(fn)
        errs = pf.all_errors()
        if errs:
            fails.append(f"{name}: {errs[:3]}")
            return None
        done.append(name)
        return pf

    def expect(name, got, want, what):
        if got != want:
            fails.append(f"{name}: {what}: got {str(got)[:120]} want {str(want)[:120]}")

    # --- nation.* (impala / parquet-mr; plain, dictionary, gzip, snappy) against nation.csv
    try:
        nation = _nation_csv(td)
    except Exception as e:        # pragma: no cover
        nation = None
        fails.append(f"nation.csv unreadable: {e}")
    for name in ("nation.plain.parquet", "nation.dict.parquet", "nation.impala.parquet",
                 "gzip-nation.impala.parquet", "snappy-nation.impala.parquet"):
        pf = load(name)
        if pf is None or nation is None:
            continue
        cols = [".".join(l.path) for l in pf.schema]
        try:
            got = list(zip(pf.column(cols[0]), [x.decode() for x in pf.column(cols[1])],
                           pf.column(cols[2]), [x.decode() for x in pf.column(cols[3])]))
        except Exception as e:
            fails.append(f"{name}: {type(e).__name__}: {e}")
            continue
        expect(name, got, nation, "rows differ from nation.csv")
    # --- datapage_v2.snappy.parquet (parquet-mr, v2 pages: delta, dictionary, RLE booleans, a list column)
    # expected content: the values the fixture is documented to hold (a..e, 5 rows)
    pf = load("datapage_v2.snappy.parquet")
    if pf is not None:
        try:
            expect("datapage_v2", pf.logical("a"), ["abc", "abc", "abc", None, "abc"], "a")
            expect("datapage_v2", pf.column("b"), [1, 2, 3, 4, 5], "b")
            expect("datapage_v2", pf.column("c"), [2.0, 3.0, 4.0, 5.0, 2.0], "c")
            expect("datapage_v2", pf.column("d"), [True, True, True, False, True], "d")
            e = [c for c in pf.row_groups[0].columns if c.leaf.path[0] == "e"][0]
            expect("datapage_v2", e.values, [1, 2, 3, 1, 2, 3, 1, 2], "e leaf values ([1,2,3],None,None,[1,2,3],[1,2])")
            expect("datapage_v2", sum(1 for r in e.rep_levels if r == 0), 5, "e records")
            kinds = {p.kind for c in pf.row_groups[0].columns for p in c.data_pages}
            expect("datapage_v2", kinds, {"DATA_PAGE_V2"}, "page kinds")
            encs = {p.encoding for c in pf.row_groups[0].columns for p in c.data_pages}
            if not ({"DELTA_BINARY_PACKED", "RLE"} <= encs and any("DICTIONARY" in x for x in encs)):
                fails.append(f"datapage_v2: expected delta + dictionary + RLE pages, saw {encs}")
            # parquet-mr 1.8 leaves dictionary_page_offset unset (data_page_offset = dictionary page): known quirk
            sv = [x for x in structural_check(pf) if "dictionary_page_offset" not in x and "data_page_offset" not in x]
            if sv:
                fails.append(f"datapage_v2: structural_check on a parquet-mr file: {sv[:2]}")
        except Exception as e:
            fails.append(f"datapage_v2: {type(e).__name__}: {e}")
    # --- nulls (parquet-mr / drill)
    pf = load("test-null.parquet")
    if pf is not None:
        try:
            expect("test-null", pf.column("foo"), [1, 1], "foo")
            expect("test-null", pf.column("bar"), [2, None], "bar")
            expect("test-null", structural_check(pf), [], "structural_check")
        except Exception as e:
            fails.append(f"test-null: {type(e).__name__}: {e}")
    pf = load("test-null-dictionary.parquet")
    if pf is not None:
        try:
            expect("test-null-dictionary", pf.logical("foo"), [None] + ["bar", "baz"] * 3, "foo")
        except Exception as e:
            fails.append(f"test-null-dictionary: {type(e).__name__}: {e}")
    pf = load("test-converted-type-null.parquet")
    if pf is not None:
        try:
            expect("test-converted-type-null", pf.logical("foo"), ["bar", None], "foo")
        except Exception as e:
            fails.append(f"test-converted-type-null: {type(e).__name__}: {e}")
    # --- decimals (Parquet.Net): FIXED_LEN_BYTE_ARRAY decimal column, INT96 dates
    pf = load("decimals.parquet")
    if pf is not None:
        try:
            col = pf.logical("weight measure:WEIGHT(KG, 0)")
            expect("decimals", [float(x) for x in col], [93, 155, 102, 80, 85.5, 109, 105, 139, 91, 105], "weights")
            expect("decimals", str(pf.logical("EventDate")[0]), "2013-08-20T00:00:00.000000000", "INT96 date")
        except Exception as e:
            fails.append(f"decimals: {type(e).__name__}: {e}")
    # --- mr_times (parquet-mr INT96 timestamps, dictionary encoded)
    pf = load("mr_times.parq")
    if pf is not None:
        try:
            want = ["2016-08-01T23:08:01", "2016-08-02T23:08:02", "2016-08-03T23:08:03", "2016-08-04T23:08:04",
                    "2016-08-05T23:08:04", "2016-08-06T23:08:05", "2016-08-07T23:08:06", "2016-08-08T23:08:07",
                    "2016-08-09T23:08:08", "2016-08-10T23:08:09"]
            expect("mr_times", [str(x)[:19] for x in pf.logical("date_added")], want, "date_added")
            expect("mr_times", pf.logical("id"), [str(i) for i in range(1, 11)], "id")
        except Exception as e:
            fails.append(f"mr_times: {type(e).__name__}: {e}")
    # --- recent writers (parquet-mr 1.12, arrow 14, spark): the structural check must accept them as they are
    for name in ("foo.parquet", "test-timezone.parquet",
                 "baz.parquet/part-00000-f689190d-8470-4dba-80ca-b8674fa9f15d-c000.snappy.parquet",
                 "spark-date-empty-rg.parq/part-00005-b2b1875e-3f87-46b5-a3bc-31bca366bbcc-c000.snappy.parquet",
                 "split/_metadata", "split/_common_metadata"):
        pf = load(name)
        if pf is not None:
            sv = structural_check(pf)
            if sv:
                fails.append(f"{name}: structural_check rejects a third-party file: {sv[:2]}")
            if name == "split/_metadata":
                expect(name, (len(pf.row_groups), pf.fmd["num_rows"], len(pf.external)), (48, 2000, 48),
                       "row groups / rows / referenced files")
    # --- generic: everything else must at least decode, level counts must agree with the footer
    for name in ("test.parquet", "empty.parquet", "nested.parq", "nested1.parquet",
                 "map_array.parq", "metas.parq", "no_columns.parquet", "no_columns_new.parquet",
                 "repeated_no_annotation.parquet", "map-test.snappy.parquet", "test-map-last-row-split.parquet"):
        pf = load(name)
        if pf is None:
            continue
        for gi, R in enumerate(pf.row_groups):
            for c in R.columns:
                rows = sum(1 for r in c.rep_levels if r == 0)
                if rows != R.num_rows:
                    fails.append(f"{name}: rg{gi} {c.leaf.path}: {rows} records, row group says {R.num_rows}")
                if len(c.def_levels) != c.meta["num_values"]:
                    fails.append(f"{name}: rg{gi} {c.leaf.path}: {len(c.def_levels)} levels, num_values {c.meta['num_values']}")
                nn = sum(1 for d in c.def_levels if d == c.leaf.max_def)
                if nn != len(c.values):
                    fails.append(f"{name}: rg{gi} {c.leaf.path}: {len(c.values)} values for {nn} defined slots")
    # --- must-fail guard: seeded corruptions of a third-party file that passes must each be reported
    try:
        fn = os.path.join(td, "test-null.parquet")
        raw = open(fn, "rb").read()
        idl = thrift_idl.load()
        flen = struct.unpack("<I", raw[-8:-4])[0]
        body = raw[:len(raw) - 8 - flen]

        def rebuilt(mut):
            fmd, _ = thrift_idl.dec(idl, "FileMetaData", raw[:-8], len(raw) - 8 - flen)
            mut(fmd)
            foot = thrift_idl.enc(idl, "FileMetaData", fmd)
            return body + foot + struct.pack("<I", len(foot)) + MAGIC

        def col(fmd):
            return fmd["row_groups"][0]["columns"][0]["meta_data"]

        if structural_check(read_file(rebuilt(lambda fmd: None))):
            fails.append("must-fail guard: the re-encoded, unmodified fixture is not clean")
        seeds = {
            "num_rows": lambda fmd: fmd.__setitem__("num_rows", fmd["num_rows"] + 1),
            "rg num_rows": lambda fmd: fmd["row_groups"][0].__setitem__("num_rows", 3),
            "total_compressed_size": lambda fmd: col(fmd).__setitem__("total_compressed_size", col(fmd)["total_compressed_size"] + 1),
            "total_uncompressed_size": lambda fmd: col(fmd).__setitem__("total_uncompressed_size", col(fmd)["total_uncompressed_size"] - 1),
            "data_page_offset": lambda fmd: col(fmd).__setitem__("data_page_offset", col(fmd)["data_page_offset"] + 1),
            "num_values": lambda fmd: col(fmd).__setitem__("num_values", col(fmd)["num_values"] + 1),
            "codec": lambda fmd: col(fmd).__setitem__("codec", enums().CompressionCodec["GZIP"]),
            "encodings": lambda fmd: col(fmd).__setitem__("encodings", [enums().Encoding["DELTA_BINARY_PACKED"]]),
            "total_byte_size": lambda fmd: fmd["row_groups"][0].__setitem__("total_byte_size", 1),
            "null_count": lambda fmd: fmd["row_groups"][0]["columns"][1]["meta_data"].__setitem__(
                "statistics", {"null_count": 2}),
        }
        for name, mut in seeds.items():
            if not structural_check(read_file(rebuilt(mut))):
                fails.append(f"must-fail guard: corrupted {name} is not reported")
        for name, data in (("magic", b"PAR2" + raw[4:]), ("footer length", raw[:-8] + struct.pack("<I", flen + 1) + MAGIC),
                           ("truncated", raw[:-1])):
            if not structural_check(read_file(data)):
                fails.append(f"must-fail guard: corrupted {name} is not reported")
    except Exception as e:
        fails.append(f"must-fail guard crashed: {type(e).__name__}: {e}")
    # --- the decoders against hand-made streams from the published examples
    # hybrid: RLE run of 3 x value 5 (width 3), then bit-packed group 0..7 (spec example bytes 88 C6 FA)
    s = bytes([3 << 1, 5, (1 << 1) | 1, 0x88, 0xC6, 0xFA])
    got, _ = hybrid_decode(s, 0, len(s), 3, 11)
    expect("hybrid-example", got, [5, 5, 5, 0, 1, 2, 3, 4, 5, 6, 7], "values")
    # delta: spec example 1: 1,2,3,4,5 -> header block 128, 4 miniblocks, 5 values, first 1; min delta 1, widths 0
    s = bytes([128, 1, 4, 5, 2, 2, 0, 0, 0, 0])
    got, _ = delta_binary_packed_decode(s, 0, len(s), 64)
    expect("delta-example", got, [1, 2, 3, 4, 5], "values")
    expect("int96", int96_to_ns(struct.pack("<qI", 0, 2440588)), 0, "epoch")
    if len(done) < 8:
        fails.append(f"only {len(done)} third-party fixtures could be used: {done}")
    if verbose:
        print("fixtures decoded:", done)
    return fails


if __name__ == "__main__":
    import sys
    import time
    t = time.time()
    f = self_test(verbose=True)
    print("self_test failures:", f, "%.2fs" % (time.time() - t))
    sys.exit(1 if f else 0)
