"""Standard (Dremel) record assembly for the nested shapes fastparquet reads: LIST<primitive> in the
3-level layout and MAP<required key, optional/required value>.  Written from the Parquet format's
description of definition / repetition levels; independent of fastparquet and of spec.pqwrite's
shredder (the two are checked against each other in pqwrite.self_test and self_test() below).

Levels, for one leaf with exactly one REPEATED ancestor (max_rep == 1):
    rep_def   definition level reached when the REPEATED node itself is defined
              (= 1 for a required outer group, 2 for an optional one)
    def <  rep_def - 1   an ancestor above the repeated node is null  -> the row is None
    def == rep_def - 1   the collection exists but has no entry       -> empty collection
    rep_def <= def < max_def   an entry exists, the leaf (or a node below the repeated one) is null -> None element
    def == max_def       an entry with a value (next of `values`)
    rep == 0 starts a new row, rep == 1 continues the current row's collection.

    record_assemble(def_levels, rep_levels, values, max_def, max_rep, schema) -> list of rows
        schema = {'kind': 'list', 'outer_optional': bool, 'elem_optional': bool}
                 rows: None | list of (value | None)
        schema = {'kind': 'map', 'outer_optional': bool, 'value_optional': bool}; then def_levels, rep_levels,
                 values, max_def are PAIRS (key leaf, value leaf)
                 rows: None | dict key -> value|None   (insertion order = stored order; later duplicate keys win)
        schema = {'kind': 'flat', 'optional': bool}   rows: value | None
"""


def assemble_leaf(defs, reps, values, max_def, max_rep, rep_def):
    """Rows of one leaf column: None | list of (value | None). Order of entries is kept."""
    assert max_rep == 1, "only one repeated level is specified here"
    assert len(defs) == len(reps)
    rows = []
    vi = 0
    for k in range(len(defs)):
        d, r = defs[k], reps[k]
        assert 0 <= d <= max_def and r in (0, 1)
        if r == 0:
            if d < rep_def - 1:
                rows.append(None)
                continue
            rows.append([])
            if d == rep_def - 1:
                continue
        else:
            assert rows and rows[-1] is not None and d >= rep_def, "continuation entry without an open collection"
        if d == max_def:
            rows[-1].append(values[vi])
            vi += 1
        else:
            rows[-1].append(None)
    assert vi == len(values), "values left over after assembly"
    return rows


def record_assemble(def_levels, rep_levels, values, max_def, max_rep, schema):
    kind = schema['kind']
    if kind == 'flat':
        if not schema.get('optional'):
            return list(values)
        it = iter(values)
        return [next(it) if d == 1 else None for d in def_levels]
    o = 1 if schema.get('outer_optional') else 0
    rep_def = o + 1
    if kind == 'list':
        e = 1 if schema.get('elem_optional') else 0
        assert max_def == o + 1 + e, "schema info and max_def disagree"
        return assemble_leaf(def_levels, rep_levels, values, max_def, max_rep, rep_def)
    if kind == 'map':
        (kd, vd), (kr, vr), (kv, vv), (kmax, vmax) = def_levels, rep_levels, values, max_def
        assert kmax == o + 1 and vmax == o + 1 + (1 if schema.get('value_optional') else 0)
        assert list(kr) == list(vr), "key and value leaves of a map share their repetition levels"
        keys = assemble_leaf(kd, kr, kv, kmax, max_rep, rep_def)
        vals = assemble_leaf(vd, vr, vv, vmax, max_rep, rep_def)
        assert len(keys) == len(vals)
        out = []
        for k, v in zip(keys, vals):
            if k is None:
                assert v is None
                out.append(None)
            else:
                assert v is not None and len(k) == len(v)
                out.append(dict(zip(k, v)))
        return out
    raise ValueError(kind)


def self_test():
    """Hand-computed examples (from the format description) + inverse of an independent shredder."""
    # optional list of optional ints: [[1, None], None, [], [7]]
    assert record_assemble([3, 2, 0, 1, 3], [0, 1, 0, 0, 0], [1, 7], 3, 1,
                           {'kind': 'list', 'outer_optional': True, 'elem_optional': True}) == [[1, None], None, [], [7]]
    # required list of required ints: [[], [5, 6]]
    assert record_assemble([0, 1, 1], [0, 0, 1], [5, 6], 1, 1,
                           {'kind': 'list', 'outer_optional': False, 'elem_optional': False}) == [[], [5, 6]]
    # required list of optional: [[None]]  vs optional list of required: [[]] share levels def=1,max_def=2
    assert record_assemble([1], [0], [], 2, 1, {'kind': 'list', 'outer_optional': False, 'elem_optional': True}) == [[None]]
    assert record_assemble([1], [0], [], 2, 1, {'kind': 'list', 'outer_optional': True, 'elem_optional': False}) == [[]]
    m = record_assemble(([2, 2, 0, 1], [3, 2, 0, 1]), ([0, 1, 0, 0], [0, 1, 0, 0]), (['a', 'b'], [1]), (2, 3), 1,
                        {'kind': 'map', 'outer_optional': True, 'value_optional': True})
    assert m == [{'a': 1, 'b': None}, None, {}], m
    return True
