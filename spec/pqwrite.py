"""Specification-level Parquet ENCODER with a layout language (independent of fastparquet: this
module never imports it; Thrift structures are serialised by `spec.thrift_idl`, which is driven by
the IDL file shipped with the library; codecs come from cramjam).

Written from the normative comments of parquet.thrift and the published definitions of the
Parquet encodings (PLAIN, RLE/bit-packing hybrid "LSB first", deprecated BIT_PACKED levels "MSB
first", dictionary pages + 1-byte index width, DELTA_BINARY_PACKED, DELTA_LENGTH_BYTE_ARRAY,
BYTE_STREAM_SPLIT), data page v1 (levels inside the compressed body, 4-byte length prefix) and v2
(levels outside, never compressed, byte lengths in the header, `is_compressed` flag) and the
Dremel shredding of LIST (standard 3-level layout) and MAP (`key_value` group) columns.

Schema
------
    ColumnSpec(name, ptype, optional=False, converted=None, logical=None, type_length=None,
               scale=None, precision=None)
        ptype      'BOOLEAN' 'INT32' 'INT64' 'INT96' 'FLOAT' 'DOUBLE' 'BYTE_ARRAY' 'FIXED_LEN_BYTE_ARRAY'
        converted  name of a ConvertedType ('UTF8', 'INT_8', 'UINT_64', 'DATE', 'TIMESTAMP_MICROS', 'DECIMAL', ...)
        logical    dict in thrift_idl form for the LogicalType union, e.g.
                   {'TIMESTAMP': {'isAdjustedToUTC': True, 'unit': {'NANOS': {}}}}
    ListSpec(name, element: ColumnSpec, optional=True)      3-level LIST; element.optional = nullable elements
    MapSpec(name, key: ColumnSpec, value: ColumnSpec, optional=True)   key required, value.optional honoured

Data
----
    row_groups = [ {column name: [one python value per row]}, ... ]
Values are given in the *physical* domain: bool / int (UINT_* may be given as non-negative ints, stored
modulo 2**width) / float / bytes (str is utf-8 encoded) / 12 bytes for INT96; None = null (optional only).
LIST rows: None | list of (value | None);  MAP rows: None | list of (key, value|None) pairs (or a dict).

Layout
------
`layout` argument of encode_file: None | ChunkLayout | dict | callable(rg_index, column_name, leaf_path)->ChunkLayout.
A dict is looked up with (rg_index, name), then name, then '*'.

    ChunkLayout(codec='UNCOMPRESSED', pages=None, dictionary=None, stats='null_count',
                dict_page_encoding='PLAIN_DICTIONARY')
        codec       UNCOMPRESSED SNAPPY GZIP ZSTD LZ4 LZ4_RAW BROTLI  (LZ4 and LZ4_RAW are both the raw block
                    format, which is what fastparquet's reader expects under either id)
        pages       list of PageLayout; their `n` (number of level entries = rows for flat columns, value
                    slots for nested ones) must sum to the chunk's entry count, the last may be n=None (rest).
                    None = one default page.
        dictionary  None (no dictionary page) | 'auto' (distinct values of the dictionary-encoded pages in
                    first-occurrence order) | explicit list of values (may hold unused entries, any order)
        stats       'none' | 'null_count' | 'minmax' (min_value/max_value but no null_count) | 'full'

    PageLayout(n=None, version=1, encoding='PLAIN', index_width=None, index_runs='auto',
               def_runs='auto', rep_runs='auto', level_encoding='RLE', compressed=None, delta=None)
        encoding    PLAIN | PLAIN_DICTIONARY | RLE_DICTIONARY | RLE (booleans) | DELTA_BINARY_PACKED |
                    DELTA_LENGTH_BYTE_ARRAY | BYTE_STREAM_SPLIT
        index_width dictionary index bit width 0..32 (None = minimal); must be >= the minimal width
        *_runs      how a level / index sequence is cut into hybrid runs: an explicit plan
                    [('rle', n) | ('bp', n), ...] (every 'bp' run but the last covers a multiple of 8 values,
                    an 'rle' run covers equal values) or a style name understood by plan_runs():
                    'rle' maximal RLE runs, 'rle1' one RLE run per value, 'bp' one bit-packed run,
                    'bp8' one bit-packed run per group of 8, 'mixed' bit-packed 8 / RLE alternating,
                    'mixed_r' the same starting with RLE, 'auto' RLE for repeats >= 8 else bit-packed
        level_encoding  'RLE' | 'BIT_PACKED' (deprecated MSB-first encoding, v1 pages only)
        compressed  v2 only: None = field absent (means compressed) | True | False (values stored raw)
        delta       DeltaLayout(block_size=128, miniblocks=4, widths=None, unneeded_width=0)
                    widths: None minimal | int w: every miniblock uses max(minimal, w) | list per miniblock

    encode_file(columns, row_groups, layout=None, created_by=..., key_value=None) -> bytes

`created_by` never contains "fastparquet".  `self_test()` validates the encoder without fastparquet:
own mini decoder (separate code), third-party fixtures of /repo/test-data decoded by the mini decoder
(against nation.csv and the known content of datapage_v2.snappy.parquet) and every hybrid / delta stream
of those fixtures re-encoded from its decoded run plan and compared byte for byte.
"""
import io
import struct
from dataclasses import dataclass, field
from typing import Any, Optional

import cramjam

from spec import thrift_idl

CREATED_BY = "verif-spec-encoder version 1.0 (independent)"
PTYPES = ('BOOLEAN', 'INT32', 'INT64', 'INT96', 'FLOAT', 'DOUBLE', 'BYTE_ARRAY', 'FIXED_LEN_BYTE_ARRAY')


# ------------------------------------------------------------------------------------------------
# schema / layout objects
# ------------------------------------------------------------------------------------------------
@dataclass
class ColumnSpec:
    name: str
    ptype: str
    optional: bool = False
    converted: Optional[str] = None
    logical: Optional[dict] = None
    type_length: Optional[int] = None
    scale: Optional[int] = None
    precision: Optional[int] = None


@dataclass
class ListSpec:
    name: str
    element: ColumnSpec
    optional: bool = True


@dataclass
class MapSpec:
    name: str
    key: ColumnSpec
    value: ColumnSpec
    optional: bool = True


@dataclass
class DeltaLayout:
    block_size: int = 128
    miniblocks: int = 4
    widths: Any = None
    unneeded_width: int = 0


@dataclass
class PageLayout:
    n: Optional[int] = None
    version: int = 1
    encoding: str = 'PLAIN'
    index_width: Optional[int] = None
    index_runs: Any = 'auto'
    def_runs: Any = 'auto'
    rep_runs: Any = 'auto'
    level_encoding: str = 'RLE'
    compressed: Optional[bool] = None
    delta: Optional[DeltaLayout] = None


@dataclass
class ChunkLayout:
    codec: str = 'UNCOMPRESSED'
    pages: Optional[list] = None
    dictionary: Any = None
    stats: str = 'null_count'
    dict_page_encoding: str = 'PLAIN_DICTIONARY'


# ------------------------------------------------------------------------------------------------
# primitive encodings
# ------------------------------------------------------------------------------------------------
def uleb(n):
    assert n >= 0
    out = bytearray()
    while n > 0x7F:
        out.append((n & 0x7F) | 0x80)
        n >>= 7
    out.append(n)
    return bytes(out)


def zigzag(n, bits=64):
    return ((n << 1) ^ (n >> (bits - 1))) & ((1 << bits) - 1)


def bit_width_of(n):
    return int(n).bit_length()


def pack_lsb(values, w):
    """Parquet hybrid / delta bit packing: value k occupies bits [k*w, k*w+w) of the little-endian stream."""
    acc = 0
    for k, v in enumerate(values):
        assert 0 <= v < (1 << w) or (w == 0 and v == 0), (v, w)
        acc |= v << (k * w)
    return acc.to_bytes((len(values) * w + 7) // 8, 'little')


def pack_msb(values, w):
    """Deprecated BIT_PACKED level encoding: values packed back to back from the most significant bit."""
    acc = 0
    for v in values:
        assert 0 <= v < (1 << w) or (w == 0 and v == 0)
        acc = (acc << w) | v
    nbits = len(values) * w
    pad = (-nbits) % 8
    return (acc << pad).to_bytes((nbits + pad) // 8, 'big')


def plan_runs(values, style):
    """Cut `values` into hybrid runs. Returns an explicit plan [('rle'|'bp', n), ...] covering len(values)."""
    n = len(values)
    if isinstance(style, (list, tuple)):
        return [tuple(r) for r in style]
    plan = []

    def eq_run(i):
        j = i
        while j < n and values[j] == values[i]:
            j += 1
        return j - i

    if style == 'rle':
        i = 0
        while i < n:
            k = eq_run(i)
            plan.append(('rle', k))
            i += k
    elif style == 'rle1':
        plan = [('rle', 1)] * n
    elif style == 'bp':
        if n:
            plan = [('bp', n)]
    elif style == 'bp8':
        plan = [('bp', min(8, n - i)) for i in range(0, n, 8)]
    elif style in ('mixed', 'mixed_r'):
        i = 0
        use_bp = style == 'mixed'
        while i < n:
            if use_bp:
                k = min(8, n - i)
                plan.append(('bp', k))
            else:
                k = eq_run(i)
                plan.append(('rle', k))
            i += k
            use_bp = not use_bp
    elif style == 'auto':
        i = 0
        pend = 0   # values waiting in the current bit-packed run (start at i - pend)
        while i < n:
            k = eq_run(i)
            if k >= 8 and pend % 8 == 0:
                if pend:
                    plan.append(('bp', pend))
                    pend = 0
                plan.append(('rle', k))
                i += k
            elif k >= 8 + ((-pend) % 8):
                fill = (-pend) % 8
                plan.append(('bp', pend + fill))
                pend = 0
                plan.append(('rle', k - fill))
                i += k
            else:
                pend += k
                i += k
        if pend:
            plan.append(('bp', pend))
    else:
        raise ValueError("unknown run style %r" % (style,))
    assert sum(c for _, c in plan) == n, (plan, n)
    return plan


def hybrid_encode(values, w, runs='auto'):
    """RLE / bit-packing hybrid (no length prefix). `runs`: plan or style (see plan_runs)."""
    plan = plan_runs(values, runs)
    out = bytearray()
    i = 0
    nb = (w + 7) // 8
    for idx, (kind, c) in enumerate(plan):
        chunk = values[i:i + c]
        assert len(chunk) == c, "run plan longer than the values"
        if kind == 'rle':
            assert c >= 1 and all(v == chunk[0] for v in chunk), "RLE run over unequal values"
            assert 0 <= chunk[0] < (1 << w) or chunk[0] == 0
            out += uleb(c << 1)
            out += int(chunk[0]).to_bytes(nb, 'little')
        elif kind == 'bp':
            assert c >= 1
            if idx != len(plan) - 1:
                assert c % 8 == 0, "only the last bit-packed run may be padded"
            groups = (c + 7) // 8
            out += uleb((groups << 1) | 1)
            out += pack_lsb(list(chunk) + [0] * (groups * 8 - c), w)
        else:
            raise ValueError(kind)
        i += c
    assert i == len(values)
    return bytes(out)


def _wrap_signed(x, bits):
    x &= (1 << bits) - 1
    return x - (1 << bits) if x >> (bits - 1) else x


def delta_encode(values, bits=64, layout=None):
    """DELTA_BINARY_PACKED. Arithmetic wraps in `bits`-bit two's complement, as the format prescribes.
    Returns bytes. layout.widths forces miniblock bit widths (never below the minimal width)."""
    lay = layout or DeltaLayout()
    bs, mb = lay.block_size, lay.miniblocks
    assert bs % mb == 0
    vpm = bs // mb
    n = len(values)
    out = bytearray(uleb(bs) + uleb(mb) + uleb(n))
    first = _wrap_signed(values[0], bits) if n else 0
    out += uleb(zigzag(first, 64))
    deltas = [_wrap_signed(values[i] - values[i - 1], bits) for i in range(1, n)]
    mbi = 0   # global miniblock ordinal
    for b0 in range(0, len(deltas), bs):
        block = deltas[b0:b0 + bs]
        mind = min(block)
        out += uleb(zigzag(mind, 64))
        rel = [(d - mind) & ((1 << bits) - 1) for d in block]
        widths, payload = [], bytearray()
        for m in range(mb):
            part = rel[m * vpm:(m + 1) * vpm]
            if not part:
                widths.append(lay.unneeded_width)
                continue
            need = max(bit_width_of(v) for v in part)
            forced = lay.widths
            if isinstance(forced, (list, tuple)):
                forced = forced[mbi] if mbi < len(forced) else None
            wdt = need if forced is None else max(need, forced)
            assert wdt <= 64
            widths.append(wdt)
            payload += pack_lsb(part + [0] * (vpm - len(part)), wdt)
            mbi += 1
        out += bytes(widths) + payload
    return bytes(out)


def plain_encode(values, ptype, type_length=None):
    if ptype == 'BOOLEAN':
        return pack_lsb([1 if v else 0 for v in values], 1)
    if ptype == 'INT32':
        return b''.join(struct.pack('<I', v & 0xFFFFFFFF) for v in values)
    if ptype == 'INT64':
        return b''.join(struct.pack('<Q', v & 0xFFFFFFFFFFFFFFFF) for v in values)
    if ptype == 'INT96':
        for v in values:
            assert len(v) == 12
        return b''.join(bytes(v) for v in values)
    if ptype == 'FLOAT':
        return b''.join(struct.pack('<f', v) for v in values)
    if ptype == 'DOUBLE':
        return b''.join(struct.pack('<d', v) for v in values)
    if ptype == 'BYTE_ARRAY':
        return b''.join(struct.pack('<I', len(_b(v))) + _b(v) for v in values)
    if ptype == 'FIXED_LEN_BYTE_ARRAY':
        for v in values:
            assert len(_b(v)) == type_length, (v, type_length)
        return b''.join(_b(v) for v in values)
    raise ValueError(ptype)


def _b(v):
    return v.encode('utf8') if isinstance(v, str) else bytes(v)


def byte_stream_split_encode(values, ptype, type_length=None):
    raw = plain_encode(values, ptype, type_length)
    k = {'FLOAT': 4, 'DOUBLE': 8, 'INT32': 4, 'INT64': 8}.get(ptype, type_length)
    n = len(values)
    return b''.join(bytes(raw[i * k + s] for i in range(n)) for s in range(k))


def delta_length_byte_array_encode(values):
    bs = [_b(v) for v in values]
    return delta_encode([len(b) for b in bs], 32) + b''.join(bs)


def int96_from(nanos_of_day, julian_day):
    return struct.pack('<qi', nanos_of_day, julian_day)


COMPRESS = {
    'UNCOMPRESSED': lambda b: bytes(b),
    'SNAPPY': lambda b: bytes(cramjam.snappy.compress_raw(b)),
    'GZIP': lambda b: bytes(cramjam.gzip.compress(b)),
    'ZSTD': lambda b: bytes(cramjam.zstd.compress(b)),
    'BROTLI': lambda b: bytes(cramjam.brotli.compress(b)),
    'LZ4': lambda b: bytes(cramjam.lz4.compress_block(b, store_size=False)),
    'LZ4_RAW': lambda b: bytes(cramjam.lz4.compress_block(b, store_size=False)),
}


# ------------------------------------------------------------------------------------------------
# shredding (Dremel) of rows into (definition levels, repetition levels, values)
# ------------------------------------------------------------------------------------------------
def shred_flat(rows, optional):
    if not optional:
        assert all(v is not None for v in rows), "null in a required column"
        return [], [], list(rows), 0, 0
    return [0 if v is None else 1 for v in rows], [], [v for v in rows if v is not None], 1, 0


def shred_list(rows, list_optional, elem_optional):
    """-> defs, reps, values, max_def, max_rep for the 3-level LIST layout."""
    o = 1 if list_optional else 0
    d_empty, d_null_elem = o, o + 1
    max_def = o + 1 + (1 if elem_optional else 0)
    defs, reps, vals = [], [], []
    for row in rows:
        if row is None:
            assert list_optional, "null row in a required list"
            defs.append(0)
            reps.append(0)
        elif len(row) == 0:
            defs.append(d_empty)
            reps.append(0)
        else:
            for k, e in enumerate(row):
                reps.append(0 if k == 0 else 1)
                if e is None:
                    assert elem_optional, "null element in a list of required elements"
                    defs.append(d_null_elem)
                else:
                    defs.append(max_def)
                    vals.append(e)
    return defs, reps, vals, max_def, 1


def shred_map(rows, map_optional, value_optional):
    """-> (key: defs, reps, values, max_def, 1), (value: ...)."""
    o = 1 if map_optional else 0
    kmax = o + 1
    vmax = o + 1 + (1 if value_optional else 0)
    kd, kr, kv, vd, vr, vv = [], [], [], [], [], []
    for row in rows:
        if isinstance(row, dict):
            row = list(row.items())
        if row is None:
            assert map_optional
            kd.append(0); kr.append(0); vd.append(0); vr.append(0)
        elif len(row) == 0:
            kd.append(o); kr.append(0); vd.append(o); vr.append(0)
        else:
            for k, (key, val) in enumerate(row):
                r = 0 if k == 0 else 1
                assert key is not None
                kd.append(kmax); kr.append(r); kv.append(key)
                vr.append(r)
                if val is None:
                    assert value_optional
                    vd.append(o + 1)
                else:
                    vd.append(vmax); vv.append(val)
    return (kd, kr, kv, kmax, 1), (vd, vr, vv, vmax, 1)


# ------------------------------------------------------------------------------------------------
# file assembly
# ------------------------------------------------------------------------------------------------
def _schema_element(idl, spec, repetition):
    E = idl.enums
    se = {'type': E['Type'][spec.ptype], 'repetition_type': E['FieldRepetitionType'][repetition],
          'name': spec.name}
    if spec.type_length is not None:
        se['type_length'] = spec.type_length
    if spec.converted is not None:
        se['converted_type'] = E['ConvertedType'][spec.converted]
    if spec.scale is not None:
        se['scale'] = spec.scale
    if spec.precision is not None:
        se['precision'] = spec.precision
    if spec.logical is not None:
        se['logicalType'] = spec.logical
    return se


def _leaves(idl, columns):
    """-> (schema element dicts incl. root, list of leaf descriptors)."""
    E = idl.enums
    REQ, OPT, REP = 'REQUIRED', 'OPTIONAL', 'REPEATED'
    elems = [{'name': 'schema', 'num_children': len(columns)}]
    leaves = []
    for c in columns:
        if isinstance(c, ColumnSpec):
            elems.append(_schema_element(idl, c, OPT if c.optional else REQ))
            leaves.append({'col': c.name, 'path': [c.name], 'spec': c, 'kind': 'flat'})
        elif isinstance(c, ListSpec):
            elems.append({'name': c.name, 'num_children': 1,
                          'repetition_type': E['FieldRepetitionType'][OPT if c.optional else REQ],
                          'converted_type': E['ConvertedType']['LIST'], 'logicalType': {'LIST': {}}})
            elems.append({'name': 'list', 'num_children': 1, 'repetition_type': E['FieldRepetitionType'][REP]})
            es = ColumnSpec(**{**c.element.__dict__, 'name': 'element'})
            elems.append(_schema_element(idl, es, OPT if es.optional else REQ))
            leaves.append({'col': c.name, 'path': [c.name, 'list', 'element'], 'spec': es, 'kind': 'list', 'parent': c})
        elif isinstance(c, MapSpec):
            elems.append({'name': c.name, 'num_children': 1,
                          'repetition_type': E['FieldRepetitionType'][OPT if c.optional else REQ],
                          'converted_type': E['ConvertedType']['MAP'], 'logicalType': {'MAP': {}}})
            elems.append({'name': 'key_value', 'num_children': 2, 'repetition_type': E['FieldRepetitionType'][REP],
                          'converted_type': E['ConvertedType']['MAP_KEY_VALUE']})
            ks = ColumnSpec(**{**c.key.__dict__, 'name': 'key', 'optional': False})
            vs = ColumnSpec(**{**c.value.__dict__, 'name': 'value'})
            elems.append(_schema_element(idl, ks, REQ))
            elems.append(_schema_element(idl, vs, OPT if vs.optional else REQ))
            leaves.append({'col': c.name, 'path': [c.name, 'key_value', 'key'], 'spec': ks, 'kind': 'mapkey', 'parent': c})
            leaves.append({'col': c.name, 'path': [c.name, 'key_value', 'value'], 'spec': vs, 'kind': 'mapval', 'parent': c})
        else:
            raise TypeError(c)
    return elems, leaves


def _resolve_layout(layout, rg, name, path):
    if layout is None:
        return ChunkLayout()
    if isinstance(layout, ChunkLayout):
        return layout
    if callable(layout):
        return layout(rg, name, tuple(path)) or ChunkLayout()
    for k in ((rg, '.'.join(path)), '.'.join(path), (rg, name), name, '*'):
        if k in layout:
            return layout[k]
    return ChunkLayout()


def _key(v, spec):
    return plain_encode([v], spec.ptype, spec.type_length) if spec.ptype != 'BOOLEAN' else bytes([bool(v)])


def _stat_bytes(v, spec):
    if spec.ptype in ('BYTE_ARRAY', 'FIXED_LEN_BYTE_ARRAY'):
        return _b(v)
    if spec.ptype == 'BOOLEAN':
        return bytes([1 if v else 0])
    return plain_encode([v], spec.ptype, spec.type_length)


def _order_key(spec):
    unsigned = spec.converted in ('UINT_8', 'UINT_16', 'UINT_32', 'UINT_64')
    if spec.ptype in ('INT32', 'INT64'):
        bits = 32 if spec.ptype == 'INT32' else 64
        return (lambda v: v & ((1 << bits) - 1)) if unsigned else (lambda v: _wrap_signed(v, bits))
    if spec.ptype in ('BYTE_ARRAY', 'FIXED_LEN_BYTE_ARRAY'):
        return _b
    return lambda v: v


def encode_levels_v1(levels, max_level, runs, level_encoding='RLE'):
    if max_level == 0:
        return b''
    w = bit_width_of(max_level)
    if level_encoding == 'BIT_PACKED':
        return pack_msb(levels, w)
    body = hybrid_encode(levels, w, runs)
    return struct.pack('<I', len(body)) + body


def encode_levels_v2(levels, max_level, runs):
    if max_level == 0:
        return b''
    return hybrid_encode(levels, bit_width_of(max_level), runs)


def encode_values(vals, spec, page, dict_index):
    """Value section of a data page (uncompressed)."""
    enc = page.encoding
    if enc == 'PLAIN':
        return plain_encode(vals, spec.ptype, spec.type_length)
    if enc in ('PLAIN_DICTIONARY', 'RLE_DICTIONARY'):
        assert dict_index is not None, "dictionary-encoded page in a chunk without dictionary"
        idx = [dict_index[_key(v, spec)] for v in vals]
        need = bit_width_of(max(idx) if idx else 0)
        w = need if page.index_width is None else page.index_width
        assert need <= w <= 32, "index width %r below the minimal width %r" % (w, need)
        return bytes([w]) + hybrid_encode(idx, w, page.index_runs)
    if enc == 'RLE':
        assert spec.ptype == 'BOOLEAN'
        body = hybrid_encode([1 if v else 0 for v in vals], 1, page.index_runs)
        return struct.pack('<I', len(body)) + body
    if enc == 'DELTA_BINARY_PACKED':
        assert spec.ptype in ('INT32', 'INT64')
        return delta_encode(vals, 32 if spec.ptype == 'INT32' else 64, page.delta)
    if enc == 'DELTA_LENGTH_BYTE_ARRAY':
        return delta_length_byte_array_encode(vals)
    if enc == 'BYTE_STREAM_SPLIT':
        return byte_stream_split_encode(vals, spec.ptype, spec.type_length)
    raise ValueError(enc)


def encode_chunk(idl, leaf, defs, reps, vals, max_def, max_rep, n_entries, lay, base_offset):
    """-> (chunk bytes, ColumnMetaData dict)."""
    E = idl.enums
    spec = leaf['spec']
    comp = COMPRESS[lay.codec]
    out = bytearray()
    total_unc = 0
    pages = lay.pages
    if pages is None:
        pages = [PageLayout()] if n_entries else []
    # page boundaries in entries
    bounds, pos = [], 0
    for i, p in enumerate(pages):
        n = p.n if p.n is not None else n_entries - pos
        assert n >= 0
        bounds.append((pos, pos + n))
        pos += n
    assert pos == n_entries, "page sizes %r do not sum to %d entries" % ([p.n for p in pages], n_entries)
    # value index of every entry (for slicing values per page)
    if max_def:
        present = [1 if d == max_def else 0 for d in defs]
    else:
        present = [1] * n_entries
    cum = [0]
    for p_ in present:
        cum.append(cum[-1] + p_)
    assert cum[-1] == len(vals)
    # dictionary
    dict_index, dict_vals = None, None
    used_enc = set()
    dict_off = None
    if lay.dictionary is not None:
        if isinstance(lay.dictionary, str):
            assert lay.dictionary == 'auto'
            dict_vals, seen = [], set()
            for (a, b), p in zip(bounds, pages):
                if p.encoding in ('PLAIN_DICTIONARY', 'RLE_DICTIONARY'):
                    for v in vals[cum[a]:cum[b]]:
                        k = _key(v, spec)
                        if k not in seen:
                            seen.add(k)
                            dict_vals.append(v)
        else:
            dict_vals = list(lay.dictionary)
        dict_index = {}
        for i, v in enumerate(dict_vals):
            dict_index.setdefault(_key(v, spec), i)
        body = plain_encode(dict_vals, spec.ptype, spec.type_length)
        cbody = comp(body)
        hdr = thrift_idl.enc(idl, 'PageHeader', {
            'type': E['PageType']['DICTIONARY_PAGE'], 'uncompressed_page_size': len(body),
            'compressed_page_size': len(cbody),
            'dictionary_page_header': {'num_values': len(dict_vals), 'encoding': E['Encoding'][lay.dict_page_encoding]}})
        dict_off = base_offset + len(out)
        out += hdr + cbody
        total_unc += len(hdr) + len(body)
        used_enc.add(lay.dict_page_encoding)
    data_off = None
    for (a, b), p in zip(bounds, pages):
        pdefs = defs[a:b] if max_def else []
        preps = reps[a:b] if max_rep else []
        pvals = vals[cum[a]:cum[b]]
        vbytes = encode_values(pvals, spec, p, dict_index)
        used_enc.add(p.encoding)
        if max_def or max_rep:
            used_enc.add(p.level_encoding if p.version == 1 else 'RLE')
        if p.version == 1:
            body = (encode_levels_v1(preps, max_rep, p.rep_runs, p.level_encoding)
                    + encode_levels_v1(pdefs, max_def, p.def_runs, p.level_encoding) + vbytes)
            cbody = comp(body)
            hdr = thrift_idl.enc(idl, 'PageHeader', {
                'type': E['PageType']['DATA_PAGE'], 'uncompressed_page_size': len(body),
                'compressed_page_size': len(cbody),
                'data_page_header': {'num_values': b - a, 'encoding': E['Encoding'][p.encoding],
                                     'definition_level_encoding': E['Encoding'][p.level_encoding],
                                     'repetition_level_encoding': E['Encoding'][p.level_encoding]}})
            unc = len(body)
        else:
            assert p.level_encoding == 'RLE'
            rb = encode_levels_v2(preps, max_rep, p.rep_runs)
            db = encode_levels_v2(pdefs, max_def, p.def_runs)
            is_c = p.compressed is None or p.compressed
            cv = comp(vbytes) if is_c else vbytes
            cbody = rb + db + cv
            h2 = {'num_values': b - a, 'num_nulls': (b - a) - len(pvals),
                  'num_rows': (sum(1 for r in preps if r == 0) if max_rep else b - a),
                  'encoding': E['Encoding'][p.encoding], 'definition_levels_byte_length': len(db),
                  'repetition_levels_byte_length': len(rb)}
            if p.compressed is not None:
                h2['is_compressed'] = bool(p.compressed)
            unc = len(rb) + len(db) + len(vbytes)
            hdr = thrift_idl.enc(idl, 'PageHeader', {
                'type': E['PageType']['DATA_PAGE_V2'], 'uncompressed_page_size': unc,
                'compressed_page_size': len(cbody), 'data_page_header_v2': h2})
        if data_off is None:
            data_off = base_offset + len(out)
        out += hdr + cbody
        total_unc += len(hdr) + unc
    if data_off is None:
        data_off = base_offset + len(out)
    md = {'type': E['Type'][spec.ptype],
          'encodings': sorted(E['Encoding'][e] for e in used_enc) or [E['Encoding']['PLAIN']],
          'path_in_schema': list(leaf['path']), 'codec': E['CompressionCodec'][lay.codec],
          'num_values': n_entries, 'total_uncompressed_size': total_unc, 'total_compressed_size': len(out),
          'data_page_offset': data_off}
    if dict_off is not None:
        md['dictionary_page_offset'] = dict_off
    if lay.stats != 'none':
        st = {}
        if lay.stats in ('null_count', 'full'):
            st['null_count'] = n_entries - len(vals)
        if lay.stats in ('minmax', 'full') and vals and spec.ptype != 'INT96' and not (
                spec.ptype in ('FLOAT', 'DOUBLE') and any(v != v for v in vals)):
            k = _order_key(spec)
            st['min_value'] = _stat_bytes(min(vals, key=k), spec)
            st['max_value'] = _stat_bytes(max(vals, key=k), spec)
        md['statistics'] = st
    return bytes(out), md


def encode_file(columns, row_groups, layout=None, created_by=CREATED_BY, key_value=None):
    """Encode a whole Parquet file; see the module docstring for the argument language."""
    assert 'fastparquet' not in created_by
    idl = thrift_idl.load()
    elems, leaves = _leaves(idl, columns)
    out = bytearray(b'PAR1')
    rgs = []
    total_rows = 0
    for rgi, data in enumerate(row_groups):
        nrows = None
        for c in columns:
            k = len(data[c.name])
            assert nrows in (None, k), "columns of one row group differ in length"
            nrows = k
        nrows = nrows or 0
        chunks = []
        rg_start = len(out)
        shredded = {}
        for leaf in leaves:
            rows = data[leaf['col']]
            if leaf['kind'] == 'flat':
                d, r, v, md_, mr_ = shred_flat(rows, leaf['spec'].optional)
            elif leaf['kind'] == 'list':
                d, r, v, md_, mr_ = shred_list(rows, leaf['parent'].optional, leaf['spec'].optional)
            else:
                if leaf['col'] not in shredded:
                    shredded[leaf['col']] = shred_map(rows, leaf['parent'].optional, leaf['parent'].value.optional)
                d, r, v, md_, mr_ = shredded[leaf['col']][0 if leaf['kind'] == 'mapkey' else 1]
            n_entries = len(d) if md_ else (len(r) if mr_ else len(v))
            lay = _resolve_layout(layout, rgi, leaf['col'], leaf['path'])
            cb, md = encode_chunk(idl, leaf, d, r, v, md_, mr_, n_entries, lay, len(out))
            chunks.append({'file_offset': len(out), 'meta_data': md})
            out += cb
        rgs.append({'columns': chunks, 'total_byte_size': sum(c['meta_data']['total_uncompressed_size'] for c in chunks),
                    'num_rows': nrows, 'file_offset': rg_start,
                    'total_compressed_size': len(out) - rg_start})
        total_rows += nrows
    fmd = {'version': 1, 'schema': elems, 'num_rows': total_rows, 'row_groups': rgs, 'created_by': created_by}
    if key_value:
        fmd['key_value_metadata'] = [{'key': k, 'value': v} for k, v in key_value.items()]
    footer = thrift_idl.enc(idl, 'FileMetaData', fmd)
    out += footer + struct.pack('<I', len(footer)) + b'PAR1'
    return bytes(out)


def split_pages(total, cuts, **kw):
    """PageLayouts for boundaries at the given entry positions (0 < cut < total, ascending)."""
    pts = [0] + list(cuts) + [total]
    return [PageLayout(n=pts[i + 1] - pts[i], **kw) for i in range(len(pts) - 1)]


# ================================================================================================
# validation of this encoder WITHOUT fastparquet: an independent mini decoder (separate code path)
# ================================================================================================
DECOMPRESS = {
    0: lambda b, n: bytes(b),
    1: lambda b, n: bytes(cramjam.snappy.decompress_raw(b)),
    2: lambda b, n: bytes(cramjam.gzip.decompress(b)),
    4: lambda b, n: bytes(cramjam.brotli.decompress(b)),
    5: lambda b, n: bytes(cramjam.lz4.decompress_block(b, output_len=n)),
    6: lambda b, n: bytes(cramjam.zstd.decompress(b)),
    7: lambda b, n: bytes(cramjam.lz4.decompress_block(b, output_len=n)),
}


class _R:
    def __init__(self, b, p=0):
        self.b, self.p = b, p

    def uleb(self):
        r = s = 0
        while True:
            c = self.b[self.p]
            self.p += 1
            r |= (c & 0x7F) << s
            if not c & 0x80:
                return r
            s += 7

    def take(self, n):
        assert self.p + n <= len(self.b), "stream exhausted"
        x = self.b[self.p:self.p + n]
        self.p += n
        return x


def d_hybrid(buf, w, count, want_plan=False):
    """Decode `count` values of a hybrid stream starting at buf[0]. -> (values, bytes used[, plan])."""
    r = _R(buf)
    vals, plan = [], []
    nb = (w + 7) // 8
    while len(vals) < count:
        h = r.uleb()
        if h & 1:
            g = h >> 1
            avail = len(r.b) - r.p
            trunc = avail < g * w      # old Impala writes a truncated last bit-packed group (tolerated, as other readers do)
            raw = int.from_bytes(r.take(min(g * w, avail)), 'little')
            got = [(raw >> (k * w)) & ((1 << w) - 1) for k in range(g * 8)]
            take = min(len(got), count - len(vals))
            assert not trunc or take * w <= avail * 8, "stream exhausted"
            vals += got[:take]
            plan.append(('bp_truncated' if trunc else 'bp', take))
        else:
            c = h >> 1
            v = int.from_bytes(r.take(nb), 'little')
            take = min(c, count - len(vals))
            vals += [v] * take
            plan.append(('rle', c))
    return (vals, r.p, plan) if want_plan else (vals, r.p)


def d_delta(buf, bits, want_shape=False):
    r = _R(buf)
    bs, mb, n = r.uleb(), r.uleb(), r.uleb()
    u = r.uleb()
    first = (u >> 1) ^ -(u & 1)
    vpm = bs // mb
    vals = [first] if n else []
    widths_used = []
    while len(vals) < n:
        u = r.uleb()
        mind = (u >> 1) ^ -(u & 1)
        ws = list(r.take(mb))
        for w in ws:
            if len(vals) >= n:
                break
            widths_used.append(w)
            raw = int.from_bytes(r.take(vpm * w // 8), 'little')
            for k in range(vpm):
                if len(vals) >= n:
                    break
                d = (raw >> (k * w)) & ((1 << w) - 1)
                vals.append(_wrap_signed(vals[-1] + mind + d, bits))
    vals = [_wrap_signed(v, bits) for v in vals]
    return (vals, r.p, (bs, mb, widths_used)) if want_shape else (vals, r.p)


def d_plain(buf, ptype, n, tl=None):
    if ptype == 0:
        return [bool((buf[k // 8] >> (k % 8)) & 1) for k in range(n)], (n + 7) // 8
    if ptype in (1, 2, 4, 5):
        f, k = {1: ('<i', 4), 2: ('<q', 8), 4: ('<f', 4), 5: ('<d', 8)}[ptype]
        return [struct.unpack_from(f, buf, i * k)[0] for i in range(n)], n * k
    if ptype == 3:
        return [bytes(buf[i * 12:i * 12 + 12]) for i in range(n)], n * 12
    if ptype == 6:
        out, p = [], 0
        for _ in range(n):
            ln = struct.unpack_from('<I', buf, p)[0]
            out.append(bytes(buf[p + 4:p + 4 + ln]))
            p += 4 + ln
        return out, p
    if ptype == 7:
        return [bytes(buf[i * tl:i * tl + tl]) for i in range(n)], n * tl
    raise ValueError(ptype)


def mini_decode(data, hook=None):
    """Independent decoder for validation: -> (fmd dict, {leaf path tuple: [per row group (defs, reps, values, max_def, max_rep, rep_def)]}).
    hook(kind, info) is called for every hybrid / delta stream seen (used by the fixture re-encode check)."""
    idl = thrift_idl.load()
    assert data[:4] == b'PAR1' and data[-4:] == b'PAR1'
    flen = struct.unpack('<I', data[-8:-4])[0]
    fmd, _ = thrift_idl.dec(idl, 'FileMetaData', data[-8 - flen:-8], strict=False)
    # schema walk: path -> (max_def, max_rep, element)
    sch = fmd['schema']
    info = {}
    pos = [1]

    def walk(prefix, d, r, nchild, rep_def):
        for _ in range(nchild):
            se = sch[pos[0]]
            pos[0] += 1
            rt = se.get('repetition_type', 0)
            d2, r2 = d + (1 if rt != 0 else 0), r + (1 if rt == 2 else 0)
            rd = d2 if rt == 2 else rep_def
            name = se['name'].decode()
            if se.get('num_children'):
                walk(prefix + (name,), d2, r2, se['num_children'], rd)
            else:
                info[prefix + (name,)] = (d2, r2, se, rd)
    walk((), 0, 0, sch[0].get('num_children', 0), None)
    out = {p: [] for p in info}
    for rg in fmd['row_groups']:
        for cc in rg['columns']:
            md = cc['meta_data']
            path = tuple(x.decode() for x in md['path_in_schema'])
            max_def, max_rep, se, rep_def = info[path]
            pt, tl = md['type'], se.get('type_length')
            start = md['data_page_offset']
            if md.get('dictionary_page_offset'):
                start = min(start, md['dictionary_page_offset'])
            p, end = start, start + md['total_compressed_size']
            dic = None
            defs, reps, vals = [], [], []
            n_seen = 0
            while n_seen < md['num_values']:
                assert p < end, "chunk exhausted before num_values reached"
                ph, p2 = thrift_idl.dec(idl, 'PageHeader', data, p, strict=False)
                body = data[p2:p2 + ph['compressed_page_size']]
                p = p2 + ph['compressed_page_size']
                dec = DECOMPRESS[md['codec']]
                if ph['type'] == 2:
                    raw = dec(body, ph['uncompressed_page_size'])
                    assert len(raw) == ph['uncompressed_page_size']
                    dic, _ = d_plain(raw, pt, ph['dictionary_page_header']['num_values'], tl)
                    continue
                if ph['type'] == 0:
                    h = ph['data_page_header']
                    raw = dec(body, ph['uncompressed_page_size'])
                    assert len(raw) == ph['uncompressed_page_size']
                    n = h['num_values']
                    q = 0
                    pr, pd_ = [], []
                    for which, mx, key in (('rep', max_rep, 'repetition_level_encoding'), ('def', max_def, 'definition_level_encoding')):
                        if not mx:
                            continue
                        w = bit_width_of(mx)
                        if h[key] == 3:
                            ln = struct.unpack_from('<I', raw, q)[0]
                            lv, used, plan = d_hybrid(raw[q + 4:q + 4 + ln], w, n, True)
                            if hook:
                                hook('hybrid', {'bytes': raw[q + 4:q + 4 + ln], 'w': w, 'values': lv, 'plan': plan, 'used': used})
                            q += 4 + ln
                        elif h[key] == 4:
                            nb = (n * w + 7) // 8
                            acc = int.from_bytes(raw[q:q + nb], 'big')
                            lv = [(acc >> (nb * 8 - (k + 1) * w)) & ((1 << w) - 1) for k in range(n)]
                            q += nb
                        else:
                            raise ValueError("level encoding")
                        if which == 'rep':
                            pr = lv
                        else:
                            pd_ = lv
                    vraw = raw[q:]
                    enc = h['encoding']
                else:
                    h = ph['data_page_header_v2']
                    n = h['num_values']
                    rl, dl = h['repetition_levels_byte_length'], h['definition_levels_byte_length']
                    pr, pd_ = [], []
                    if max_rep:
                        pr, used, plan = d_hybrid(body[:rl], bit_width_of(max_rep), n, True)
                        assert used == rl
                        if hook:
                            hook('hybrid', {'bytes': body[:rl], 'w': bit_width_of(max_rep), 'values': pr, 'plan': plan, 'used': used})
                    if max_def:
                        pd_, used, plan = d_hybrid(body[rl:rl + dl], bit_width_of(max_def), n, True)
                        assert used == dl
                        if hook:
                            hook('hybrid', {'bytes': body[rl:rl + dl], 'w': bit_width_of(max_def), 'values': pd_, 'plan': plan, 'used': used})
                        assert n - sum(1 for d in pd_ if d == max_def) == h['num_nulls']
                    vraw = body[rl + dl:]
                    if h.get('is_compressed', True):
                        vraw = dec(vraw, ph['uncompressed_page_size'] - rl - dl)
                    assert len(vraw) == ph['uncompressed_page_size'] - rl - dl
                    if max_rep:
                        assert h['num_rows'] == sum(1 for r in pr if r == 0)
                    enc = h['encoding']
                nv = sum(1 for d in pd_ if d == max_def) if max_def else n
                if enc == 0:
                    pv, _ = d_plain(vraw, pt, nv, tl)
                elif enc in (2, 8):
                    w = vraw[0]
                    idx, used, plan = d_hybrid(vraw[1:], w, nv, True)
                    if hook:
                        hook('hybrid', {'bytes': vraw[1:], 'w': w, 'values': idx, 'plan': plan, 'used': used})
                    pv = [dic[i] for i in idx]
                elif enc == 3:
                    ln = struct.unpack_from('<I', vraw, 0)[0]
                    bits, used, plan = d_hybrid(vraw[4:4 + ln], 1, nv, True)
                    if hook:
                        hook('hybrid', {'bytes': vraw[4:4 + ln], 'w': 1, 'values': bits, 'plan': plan, 'used': used})
                    pv = [bool(x) for x in bits]
                elif enc == 5:
                    bitsz = 32 if pt == 1 else 64
                    pv, used, shape = d_delta(vraw, bitsz, True)
                    if hook:
                        hook('delta', {'bytes': vraw[:used], 'bits': bitsz, 'values': pv, 'shape': shape})
                    assert len(pv) == nv
                elif enc == 9:
                    k = {4: 4, 5: 8, 1: 4, 2: 8}.get(pt, tl)
                    raw2 = bytes(vraw[s * nv + i] for i in range(nv) for s in range(k))
                    pv, _ = d_plain(raw2, pt, nv, tl)
                elif enc == 6:
                    lens, used = d_delta(vraw, 32)
                    pv, q2 = [], used
                    for ln in lens:
                        pv.append(bytes(vraw[q2:q2 + ln]))
                        q2 += ln
                else:
                    raise ValueError("encoding %d" % enc)
                defs += pd_
                reps += pr
                vals += pv
                n_seen += n
            out[path].append((defs, reps, vals, max_def, max_rep, rep_def))
    return fmd, out


def mini_rows(data):
    """Flat / LIST / MAP-leaf logical rows per leaf path via spec.assembly (independent of shred_*)."""
    from spec import assembly
    fmd, cols = mini_decode(data)
    res = {}
    for path, rgs in cols.items():
        rows = []
        for d, r, v, md_, mr_, rd_ in rgs:
            if mr_ == 0:
                it = iter(v)
                rows += [next(it) if (md_ == 0 or x == md_) else None for x in (d if md_ else range(len(v)))]
            else:
                rows += assembly.assemble_leaf(d, r, v, md_, mr_, rd_)
        res[path] = rows
    return res


def _same(a, b):
    if isinstance(a, float) and isinstance(b, float):
        return (a != a and b != b) or a == b
    if isinstance(a, (list, tuple)) and isinstance(b, (list, tuple)):
        return len(a) == len(b) and all(_same(x, y) for x, y in zip(a, b))
    return a == b


def self_test(verbose=False):
    """Raises AssertionError if the encoder (or the mini decoder) disagrees with third-party data or itself.
    Returns a dict of counters."""
    import os
    import random
    from vlib.common import REPO
    stats = {'fixture_streams_reencoded': 0, 'fixture_files': 0, 'own_files': 0, 'pqread_files': 0}
    td = os.path.join(REPO, 'test-data')
    if not os.path.isdir(td):                      # VERIF_REPO may point at a scratch copy of the package only
        td = '/repo/test-data'

    # 1. the mini decoder against third-party fixtures (content known independently)
    def reencode_hook(kind, inf):
        if kind == 'hybrid':
            if any(k == 'bp_truncated' for k, _ in inf['plan']):
                return
            plan = list(inf['plan'])
            vals = list(inf['values'])
            # complete a clamped last run so that the re-encoding reproduces the stream
            total = sum(c for _, c in plan)
            vals = vals + [vals[-1] if plan and plan[-1][0] == 'rle' and vals else 0] * (total - len(vals))
            mine = hybrid_encode(vals, inf['w'], plan)
            theirs = bytes(inf['bytes'][:inf['used']])
            if mine != theirs:
                # a padded final bit-packed group may carry arbitrary padding; compare the meaningful prefix
                assert len(mine) == len(theirs) and plan[-1][0] == 'bp', (mine, theirs, plan)
                n_ok = len(inf['values'])
                assert d_hybrid(mine, inf['w'], n_ok)[0] == d_hybrid(theirs, inf['w'], n_ok)[0]
        else:
            bs, mb, widths = inf['shape']
            mine = delta_encode(inf['values'], inf['bits'], DeltaLayout(bs, mb, widths))
            theirs = bytes(inf['bytes'])
            assert mine[:len(theirs)] == theirs or mine == theirs[:len(mine)], (mine, theirs)
        stats['fixture_streams_reencoded'] += 1

    import csv
    nation = []
    if os.path.isfile(os.path.join(td, 'nation.csv')):
        with open(os.path.join(td, 'nation.csv')) as f:
            nation = list(csv.reader(f, delimiter='|'))
    for fn in (() if not nation else ('nation.plain.parquet', 'nation.dict.parquet', 'nation.impala.parquet',
               'snappy-nation.impala.parquet', 'gzip-nation.impala.parquet')):
        pth = os.path.join(td, fn)
        if not os.path.exists(pth) or os.path.getsize(pth) == 0:
            continue
        with open(pth, 'rb') as f:
            data = f.read()
        fmd, cols = mini_decode(data, reencode_hook)
        flat = {p[-1]: [x for rg in v for x in _flat_rows(rg)] for p, v in cols.items()}
        names = list(flat)
        assert len(flat[names[0]]) == len(nation) == 25, fn
        for i, row in enumerate(nation):
            got = [flat[n][i] for n in names]
            got = [g.decode() if isinstance(g, bytes) else str(g) for g in got]
            assert got == row[:len(got)], (fn, i, got, row)
        stats['fixture_files'] += 1
    pth = os.path.join(td, 'datapage_v2.snappy.parquet')
    if os.path.exists(pth) and os.path.getsize(pth):
        with open(pth, 'rb') as f:
            data = f.read()
        fmd, cols = mini_decode(data, reencode_hook)
        g = {p: [x for rg in v for x in _flat_rows(rg)] for p, v in cols.items() if len(p) == 1}
        assert g[('a',)] == [b'abc', b'abc', b'abc', None, b'abc'], g[('a',)]
        assert g[('b',)] == [1, 2, 3, 4, 5]
        assert g[('c',)] == [2.0, 3.0, 4.0, 5.0, 2.0]
        assert g[('d',)] == [True, True, True, False, True]
        from spec import assembly
        d, r, v, md_, mr_, rd_ = cols[('e', 'list', 'element')][0]
        assert assembly.assemble_leaf(d, r, v, md_, mr_, rd_) == [[1, 2, 3], None, None, [1, 2, 3], [1, 2]]
        stats['fixture_files'] += 1
    for fn in ('test-null.parquet', 'test-null-dictionary.parquet', 'map-test.snappy.parquet',
               'test-map-last-row-split.parquet', 'nested1.parquet', 'mr_times.parq', 'decimals.parquet',
               'test.parquet', 'foo.parquet', 'nested.parq', 'map_array.parq'):
        pth = os.path.join(td, fn)
        if not os.path.isfile(pth) or os.path.getsize(pth) == 0:
            continue
        with open(pth, 'rb') as f:
            data = f.read()
        try:
            mini_decode(data, reencode_hook)
        except (ValueError, KeyError) as e:       # an encoding the mini decoder does not cover
            if verbose:
                print('skip', fn, e)
            continue
        stats['fixture_files'] += 1

    # 2. own files through the mini decoder (and spec.pqread when present)
    try:
        from spec import pqread
    except Exception:
        pqread = None
    rnd = random.Random(12345)
    for case in _self_cases(rnd):
        cols_, rgs_, lay_ = case
        data = encode_file(cols_, rgs_, lay_)
        rows = mini_rows(data)
        for c in cols_:
            want = [x for rg in rgs_ for x in rg[c.name]]
            if isinstance(c, ColumnSpec):
                got = rows[(c.name,)]
                want = [_norm(x, c) for x in want]
                assert _same(got, want), (c, got[:10], want[:10])
            elif isinstance(c, ListSpec):
                got = rows[(c.name, 'list', 'element')]
                want = [None if r is None else [_norm(e, c.element) for e in r] for r in want]
                assert _same(got, want), (c, got, want)
            else:
                gk, gv = rows[(c.name, 'key_value', 'key')], rows[(c.name, 'key_value', 'value')]
                want = [None if r is None else list(r.items() if isinstance(r, dict) else r) for r in want]
                assert gk == [None if r is None else [_norm(k, c.key) for k, _ in r] for r in want], (gk, want)
                assert gv == [None if r is None else [_norm(v, c.value) for _, v in r] for r in want], (gv, want)
        stats['own_files'] += 1
        if pqread is not None and hasattr(pqread, 'read_file'):
            try:
                pf = pqread.read_file(data)
                errs = list(pf.all_errors()) + list(pqread.structural_check(pf, data))
                flat = {c.name: list(pf.column(c.name)) for c in cols_ if isinstance(c, ColumnSpec)}
            except (AttributeError, TypeError) as e:      # the other module's API moved: not our failure
                stats['pqread_api_skipped'] = stats.get('pqread_api_skipped', 0) + 1
                continue
            assert not errs, ("spec.pqread rejects a file of spec.pqwrite", errs[:3])
            for c in cols_:
                if isinstance(c, ColumnSpec):
                    want = [_norm(x, c) for rg in rgs_ for x in rg[c.name]]
                    assert _same(flat[c.name], want), ("spec.pqread disagrees", c, flat[c.name][:8], want[:8])
            stats['pqread_files'] += 1
    return stats


def _flat_rows(rg):
    d, r, v, md_, mr_ = rg[:5]
    if md_ == 0:
        return list(v)
    it = iter(v)
    return [next(it) if x == md_ else None for x in d]


def _norm(v, spec):
    """What a decoder returns for an encoder input value (physical domain)."""
    if v is None:
        return None
    if spec.ptype == 'INT32':
        return _wrap_signed(v, 32)
    if spec.ptype == 'INT64':
        return _wrap_signed(v, 64)
    if spec.ptype == 'FLOAT':
        return struct.unpack('<f', struct.pack('<f', v))[0]
    if spec.ptype in ('BYTE_ARRAY', 'FIXED_LEN_BYTE_ARRAY', 'INT96'):
        return _b(v)
    if spec.ptype == 'BOOLEAN':
        return bool(v)
    return v


def _self_cases(rnd):
    """A spread of layouts for the encode -> mini decode identity."""
    n = 70
    ints = [rnd.randrange(-50, 50) for _ in range(n)]
    oints = [None if rnd.random() < .3 else rnd.randrange(0, 9) for _ in range(n)]
    strs = [None if rnd.random() < .2 else rnd.choice(['a', 'bc', '', 'déf', 'x' * 20]) for _ in range(n)]
    bools = [rnd.random() < .5 for _ in range(n)]
    flt = [rnd.random() for _ in range(n)]
    cols = [ColumnSpec('i', 'INT32'), ColumnSpec('o', 'INT64', optional=True),
            ColumnSpec('s', 'BYTE_ARRAY', optional=True, converted='UTF8'), ColumnSpec('b', 'BOOLEAN'),
            ColumnSpec('f', 'DOUBLE'), ColumnSpec('g', 'FLOAT'),
            ColumnSpec('x', 'FIXED_LEN_BYTE_ARRAY', type_length=3)]
    rg = {'i': ints, 'o': oints, 's': strs, 'b': bools, 'f': flt, 'g': flt,
          'x': [bytes([k % 256, 1, 2]) for k in range(n)]}
    for codec in COMPRESS:
        for version in (1, 2):
            for runs in ('auto', 'rle', 'rle1', 'bp', 'bp8', 'mixed', 'mixed_r'):
                for comp in ((None, False) if version == 2 else (None,)):
                    pages = split_pages(n, [13, 40], version=version, def_runs=runs, index_runs=runs, compressed=comp)
                    dpages = split_pages(n, [13, 40], version=version, def_runs=runs, index_runs=runs,
                                         compressed=comp, encoding='RLE_DICTIONARY', index_width=rnd.choice([None, 7, 13, 32]))
                    dpages[-1].encoding = 'PLAIN'
                    bpages = split_pages(n, [9], version=version, encoding='RLE', index_runs=runs, compressed=comp)
                    delta = split_pages(n, [33], version=version, encoding='DELTA_BINARY_PACKED', compressed=comp,
                                        delta=DeltaLayout(128, 4, rnd.choice([None, 0, 9, 31])))
                    lay = {'i': ChunkLayout(codec, delta), 'o': ChunkLayout(codec, dpages, 'auto'),
                           's': ChunkLayout(codec, dpages, 'auto'), 'b': ChunkLayout(codec, bpages),
                           'f': ChunkLayout(codec, pages), 'g': ChunkLayout(codec, dpages, 'auto'),
                           'x': ChunkLayout(codec, pages)}
                    yield cols, [rg, rg], lay
    for w in range(0, 65):
        vals = [0]
        for k in range(150):
            d = (1 << w) - 1 if (w and k % 3 == 0) else (rnd.randrange(1 << w) if w else 0)
            vals.append(_wrap_signed(vals[-1] + d - (1 << (w - 1) if w > 1 else 0), 64))
        yield [ColumnSpec('d', 'INT64')], [{'d': vals}], ChunkLayout(
            pages=[PageLayout(encoding='DELTA_BINARY_PACKED', delta=DeltaLayout(128, 4, w))])
    lists = [[1, None, 3], None, [], [None], [4], [5, 6, 7]]
    maps = [[('a', 1), ('b', None)], None, [], [('c', 3)], [('d', None)], [('e', 5), ('f', 6), ('g', 7)]]
    for lo in (True, False):
        for eo in (True, False):
            rows = [([e for e in r if e is not None] if not eo else r) if r is not None else ([] if not lo else None)
                    for r in lists]
            mrows = [([(k, v if v is not None else 0) for k, v in r] if not eo else r) if r is not None
                     else ([] if not lo else None) for r in maps]
            for version in (1, 2):
                for dic in (None, 'auto'):
                    c = [ListSpec('l', ColumnSpec('e', 'INT32', optional=eo), optional=lo),
                         MapSpec('m', ColumnSpec('k', 'BYTE_ARRAY', converted='UTF8'),
                                 ColumnSpec('v', 'INT64', optional=eo), optional=lo)]
                    pl = PageLayout(version=version, encoding='PLAIN_DICTIONARY' if dic else 'PLAIN')
                    yield c, [{'l': rows, 'm': mrows}], ChunkLayout('SNAPPY', [pl], dic)


if __name__ == '__main__':
    print(self_test(verbose=True))
