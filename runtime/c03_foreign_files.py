"""C03 bounded stand-in: valid flat Parquet files from an independent specification-level encoder
(spec.pqwrite) must be decoded by fastparquet.ParquetFile(f).to_pandas() to exactly the values and
nulls they encode, in a dtype of the kind and width the schema implies; constructs outside the
supported set must raise.

One file (one column) per case.  The contract is evaluated on the result of the REAL reader:

    post(df) :=  len(df) == rows  and  for every row i:  isnull(df.c[i]) == (expected[i] is None)
                 and  canon(df.c[i]) == expected[i]   and  dtype kind/width == implied(schema)

`expected` is computed from the values handed to the encoder by plain python / numpy-free arithmetic
(days -> ns etc.), never by fastparquet.  Whether ints/bools come back as nullable extension arrays is
not checked (C17).  Every decode runs in a forked child (runtime.c15_assembly.resilient): decodes that may crash
natively (delta widths >= 29, bit-packed widths >= 25, unsupported constructs) get a child of their own, the others share
children that are replaced when one dies; death by signal is a failed case, never the end of the check.  Replay
snippets of such cases re-run themselves in a subprocess.
"""
import base64
import json
import os
import random
import struct
import sys
import time
from concurrent.futures import ProcessPoolExecutor

from runtime.harness import Case
from vlib.common import REPO

G_TYPES, G_DICT, G_DELTA, G_LEVELS, G_LAYOUT, G_UNSUP = (
    "c03.types", "c03.dict_index", "c03.delta", "c03.levels", "c03.layout", "c03.unsupported")

CONTRACT = ("ParquetFile(file).to_pandas(): rows, null positions and values equal the logical content given to the "
            "independent encoder; dtype kind/width as the schema implies; a raising read is a failure "
            "(group c03.unsupported: the read MUST raise)")

# ------------------------------------------------------------------------------------------------
# the post-condition, as source text: executed here AND embedded verbatim into every replay snippet
# ------------------------------------------------------------------------------------------------
CHECK_SRC = r'''
import struct
import numpy as np
import pandas as pd

_NS = {'s': 10**9, 'ms': 10**6, 'us': 10**3, 'ns': 1, 'D': 86400 * 10**9}


def _fbits(x):
    x = float(x)
    return b'nan' if x != x else struct.pack('<d', x)


def check_column(df, name, expected, kind, width):
    """-> (ok, what).  kind: bool int uint float datetime timedelta bytes str json decimal."""
    if list(df.columns) != [name]:
        return False, "columns %r" % (list(df.columns),)
    if len(df) != len(expected):
        return False, "rows %d != %d" % (len(df), len(expected))
    col = df[name]
    dt = col.dtype
    npdt = getattr(dt, 'numpy_dtype', dt)            # masked extension dtypes carry the numpy dtype
    want_kind = {'bool': 'b', 'int': 'i', 'uint': 'u', 'float': 'f', 'decimal': 'f', 'datetime': 'M',
                 'timedelta': 'm'}.get(kind, 'O')
    k = getattr(npdt, 'kind', 'O')
    if want_kind == 'O':
        if k not in 'OUT' and 'str' not in str(dt):
            return False, "dtype %s for %s" % (dt, kind)
    else:
        if k != want_kind or (width and npdt.itemsize * 8 != width):
            if not (len(expected) and all(e is None for e in expected) and k in 'fO'):
                return False, "dtype %s, schema implies kind %s width %s" % (dt, want_kind, width)
    isna = [bool(x) for x in pd.isna(col).to_numpy()] if kind != 'json' else [x is None for x in col]
    if kind in ('datetime', 'timedelta') and k in 'Mm':
        unit = np.datetime_data(npdt)[0]
        raw = col.to_numpy().view('int64').tolist()
        vals = [v * _NS[unit] for v in raw]
    else:
        vals = list(col)
    for i, e in enumerate(expected):
        if e is None or (kind in ('float', 'decimal') and e != e):
            if not isna[i]:
                return False, "row %d: expected null, got %r" % (i, vals[i])
            continue
        if isna[i]:
            return False, "row %d: got null, expected %r" % (i, e)
        g = vals[i]
        if kind in ('int', 'uint', 'datetime', 'timedelta'):
            ok = int(g) == e
        elif kind == 'bool':
            ok = bool(g) is e
        elif kind == 'float':
            ok = _fbits(g) == _fbits(e)
        elif kind == 'decimal':
            ok = abs(float(g) - e) <= 1e-12 * max(1.0, abs(e))
        elif kind == 'bytes':
            ok = isinstance(g, bytes) and g == e
        elif kind == 'str':
            ok = isinstance(g, str) and g == e
        else:
            ok = g == e
        if not ok:
            return False, "row %d: got %r, expected %r" % (i, g, e)
    return True, ""
'''
_ns = {}
exec(CHECK_SRC, _ns)
check_column = _ns['check_column']

RUN_SRC = r'''
import base64, io, json, pickle
import fastparquet
data = base64.b64decode(DATA_B64)
expected = pickle.loads(base64.b64decode(EXPECTED_B64))
try:
    df = fastparquet.ParquetFile(io.BytesIO(data)).to_pandas()
except Exception as e:
    RESULT = (MUST_RAISE, "read raised %s: %s" % (type(e).__name__, str(e)[:200]))
else:
    if MUST_RAISE:
        ok, what = check_column(df, 'c', expected, KIND, WIDTH)
        RESULT = (False, "unsupported construct did not raise; decoded %s" % ("to the right values" if ok else "WRONG: " + what))
    else:
        RESULT = check_column(df, 'c', expected, KIND, WIDTH)
VIOLATED = not RESULT[0]
print("RESULT=" + json.dumps([bool(RESULT[0]), RESULT[1]]))
'''


# ------------------------------------------------------------------------------------------------
# logical types of the enumeration
# ------------------------------------------------------------------------------------------------
# tag: (ptype, converted, logical, type_length, scale, kind, width)
_TS_NS = {'TIMESTAMP': {'isAdjustedToUTC': True, 'unit': {'NANOS': {}}}}
TYPES = {
    'bool': ('BOOLEAN', None, None, None, None, 'bool', 8),
    'int32': ('INT32', None, None, None, None, 'int', 32),
    'int64': ('INT64', None, None, None, None, 'int', 64),
    'int8': ('INT32', 'INT_8', None, None, None, 'int', 8),
    'int16': ('INT32', 'INT_16', None, None, None, 'int', 16),
    'int32c': ('INT32', 'INT_32', None, None, None, 'int', 32),
    'int64c': ('INT64', 'INT_64', None, None, None, 'int', 64),
    'uint8': ('INT32', 'UINT_8', None, None, None, 'uint', 8),
    'uint16': ('INT32', 'UINT_16', None, None, None, 'uint', 16),
    'uint32': ('INT32', 'UINT_32', None, None, None, 'uint', 32),
    'uint64': ('INT64', 'UINT_64', None, None, None, 'uint', 64),
    'date': ('INT32', 'DATE', None, None, None, 'datetime', 64),
    'ts_ms': ('INT64', 'TIMESTAMP_MILLIS', None, None, None, 'datetime', 64),
    'ts_us': ('INT64', 'TIMESTAMP_MICROS', None, None, None, 'datetime', 64),
    'ts_ns': ('INT64', None, _TS_NS, None, None, 'datetime', 64),
    'time_ms': ('INT32', 'TIME_MILLIS', None, None, None, 'timedelta', 64),
    'time_us': ('INT64', 'TIME_MICROS', None, None, None, 'timedelta', 64),
    'int96': ('INT96', None, None, None, None, 'datetime', 64),
    'float': ('FLOAT', None, None, None, None, 'float', 32),
    'double': ('DOUBLE', None, None, None, None, 'float', 64),
    'bytes': ('BYTE_ARRAY', None, None, None, None, 'bytes', 0),
    'utf8': ('BYTE_ARRAY', 'UTF8', None, None, None, 'str', 0),
    'json': ('BYTE_ARRAY', 'JSON', None, None, None, 'json', 0),
    'flba': ('FIXED_LEN_BYTE_ARRAY', None, None, 5, None, 'bytes', 0),
    'dec32': ('INT32', 'DECIMAL', None, None, 2, 'decimal', 64),
    'dec64': ('INT64', 'DECIMAL', None, None, 3, 'decimal', 64),
    'dec_ba': ('BYTE_ARRAY', 'DECIMAL', None, None, 2, 'decimal', 64),            # binary decimal: big-endian two's complement
    'dec_flba': ('FIXED_LEN_BYTE_ARRAY', 'DECIMAL', None, 5, 2, 'decimal', 64),
}
_INT_RANGE = {'int32': (-2**31, 2**31 - 1), 'int64': (-2**63, 2**63 - 1), 'int8': (-128, 127), 'int16': (-2**15, 2**15 - 1),
              'int32c': (-2**31, 2**31 - 1), 'int64c': (-2**63, 2**63 - 1), 'uint8': (0, 255), 'uint16': (0, 65535),
              'uint32': (0, 2**32 - 1), 'uint64': (0, 2**64 - 1), 'date': (-90000, 90000),
              'ts_ms': (-2**40, 2**42), 'ts_us': (-2**50, 2**52), 'ts_ns': (-2**60, 2**62),
              'time_ms': (0, 86399999), 'time_us': (0, 86399999999), 'dec32': (-10**8, 10**8), 'dec64': (-10**14, 10**14)}


def gen_value(tag, rnd):
    """A value in the PHYSICAL domain, as spec.pqwrite takes it."""
    if tag in _INT_RANGE:
        lo, hi = _INT_RANGE[tag]
        r = rnd.random()
        if r < .12:
            return lo
        if r < .24:
            return hi
        if r < .32:
            return max(lo, min(hi, rnd.choice([0, -1, 1])))
        return rnd.randint(lo, hi)
    if tag == 'bool':
        return rnd.random() < .5
    if tag in ('float', 'double'):
        r = rnd.random()
        if r < .3:
            return rnd.choice([0.0, -0.0, float('inf'), float('-inf'), 1.5, -2.25, 1e30, 1e-30])
        v = rnd.uniform(-1e6, 1e6)
        return struct.unpack('<f', struct.pack('<f', v))[0] if tag == 'float' else v
    if tag == 'int96':
        return struct.pack('<qi', rnd.randrange(86400 * 10**9), 2440588 + rnd.randint(-90000, 90000))
    if tag == 'bytes':
        return bytes(rnd.randrange(256) for _ in range(rnd.choice([0, 1, 1, 2, 3, 6, 17])))
    if tag == 'utf8':
        return ''.join(rnd.choice('ab zé中\U0001F600') for _ in range(rnd.choice([0, 1, 2, 3, 9])))
    if tag == 'json':
        return json.dumps(rnd.choice([{'a': rnd.randrange(99)}, [1, rnd.randrange(9), 'x'], rnd.randrange(99), 'txt', {'n': [1.5, {}]}]))
    if tag == 'dec_ba':
        n = rnd.choice([1, 1, 2, 3, 5, 6])
        v = rnd.choice([0, 1, -1, 255, -256]) if rnd.random() < .3 else rnd.randint(-2 ** (8 * n - 1), 2 ** (8 * n - 1) - 1)
        v = max(-2 ** (8 * n - 1), min(2 ** (8 * n - 1) - 1, v))
        return v.to_bytes(n, 'big', signed=True)
    if tag == 'dec_flba':
        return rnd.randint(-2 ** 39, 2 ** 39 - 1).to_bytes(5, 'big', signed=True)
    if tag == 'flba':
        v = bytes(rnd.randrange(256) for _ in range(5))
        return v[:4] + b'\x00' if rnd.random() < .1 else v
    raise KeyError(tag)


def expected_of(tag, v):
    """Independent oracle: logical value a reader must return for physical value v (None stays None)."""
    if v is None:
        return None
    if tag == 'date':
        return v * 86400 * 10**9
    if tag == 'ts_ms':
        return v * 10**6
    if tag == 'ts_us':
        return v * 10**3
    if tag == 'ts_ns':
        return v
    if tag == 'time_ms':
        return v * 10**6
    if tag == 'time_us':
        return v * 10**3
    if tag == 'int96':
        ns, jd = struct.unpack('<qi', v)
        return (jd - 2440588) * 86400 * 10**9 + ns
    if tag == 'json':
        return json.loads(v)
    if tag == 'dec32':
        return v / 100
    if tag == 'dec64':
        return v / 1000
    if tag in ('dec_ba', 'dec_flba'):
        return int.from_bytes(v, 'big', signed=True) / 100
    return v


NULL_PATTERNS = ('none', 'some', 'all', 'alt', 'first', 'last', 'but_first', 'runs')


def null_mask(pattern, n, rnd):
    if pattern == 'none':
        return [False] * n
    if pattern == 'all':
        return [True] * n
    if pattern == 'alt':
        return [i % 2 == 0 for i in range(n)]
    if pattern == 'first':
        return [i == 0 for i in range(n)]
    if pattern == 'last':
        return [i == n - 1 for i in range(n)]
    if pattern == 'but_first':
        return [i != 0 for i in range(n)]
    if pattern == 'runs':
        return [(i // 11) % 2 == 1 for i in range(n)]
    return [rnd.random() < .3 for _ in range(n)]


# ------------------------------------------------------------------------------------------------
# case parameters -> file
# ------------------------------------------------------------------------------------------------
DEFAULTS = dict(type='int32', optional=False, nulls='none', enc='plain', dict_name='PLAIN_DICTIONARY', width=None,
                dict_size=5, idx_runs='auto', def_runs='auto', v=1, comp_flag='absent', codec='UNCOMPRESSED',
                rows=(20,), cuts=(), delta=(128, 4), stats='null_count', unsupported=None, level_enc='RLE')


def P(**kw):
    d = dict(DEFAULTS)
    d.update(kw)
    return d


def build_case(p, seed):
    """-> dict(data=bytes, expected=list, kind, width, diag=dict of derived features)."""
    from spec import pqwrite as W
    rnd = random.Random("%s|%s" % (seed, sorted((k, str(v)) for k, v in p.items())))
    tag = p['type']
    ptype, conv, logical, tl, scale, kind, width = TYPES[tag]
    spec = W.ColumnSpec('c', ptype, optional=p['optional'], converted=conv, logical=logical, type_length=tl,
                        scale=scale, precision={'dec32': 9, 'dec_ba': 14, 'dec_flba': 12}.get(tag, 18) if scale is not None else None)
    enc = p['enc']
    dict_pool = None
    diag = {}
    rgs, layouts, expected = [], {}, []
    for rgi, n in enumerate(p['rows']):
        mask = null_mask(p['nulls'], n, rnd) if p['optional'] else [False] * n
        nn = n - sum(mask)
        if enc == 'delta':
            vals = delta_values(tag, nn, p['width'], p['delta'], rnd)
        elif enc in ('dict', 'fallback'):
            if dict_pool is None:
                dict_pool, seen, tries = [], set(), 0
                while len(dict_pool) < p['dict_size']:
                    v = gen_value(tag, rnd)
                    tries += 1
                    if tries > 20 * p['dict_size'] and tag == 'utf8':
                        v = v + '#%d' % len(dict_pool)
                    if repr(v) not in seen:
                        seen.add(repr(v))
                        dict_pool.append(v)
            vals = [rnd.choice(dict_pool) for _ in range(nn)]
            if nn:
                vals[rnd.randrange(nn)] = dict_pool[-1]      # the highest index occurs
        else:
            vals = [gen_value(tag, rnd) for _ in range(nn)]
        it = iter(vals)
        rows = [None if m else next(it) for m in mask]
        rgs.append({'c': rows})
        expected += [expected_of(tag, v) for v in rows]
        cuts = [c for c in p['cuts'] if 0 < c < n]
        kw = dict(version=p['v'], def_runs=p['def_runs'], index_runs=p['idx_runs'], level_encoding=p['level_enc'],
                  compressed={'absent': None, 'true': True, 'false': False}[p['comp_flag']])
        if enc == 'plain':
            pages = W.split_pages(n, cuts, encoding='PLAIN', **kw)
        elif enc in ('dict', 'fallback'):
            pages = W.split_pages(n, cuts, encoding=p['dict_name'], index_width=p['width'], **kw)
            if enc == 'fallback' and len(pages) > 1:
                pages[-1].encoding = 'PLAIN'
        elif enc == 'rle':
            pages = W.split_pages(n, cuts, encoding='RLE', **kw)
        elif enc == 'delta':
            pages = W.split_pages(n, cuts, encoding='DELTA_BINARY_PACKED',
                                  delta=W.DeltaLayout(p['delta'][0], p['delta'][1], p['width']), **kw)
        else:
            pages = W.split_pages(n, cuts, encoding=enc, **kw)      # unsupported encodings by name
        if n == 0:
            pages = []
        layouts[(rgi, 'c')] = W.ChunkLayout(codec=p['codec'], pages=pages,
                                            dictionary=list(dict_pool) if dict_pool is not None else None,
                                            stats=p['stats'])
        # derived features (for exact known-finding signatures)
        _diagnose(W, diag, p, rows, mask, pages, dict_pool, spec)
    data = W.encode_file([spec], rgs, layouts)
    if kind == 'float' and tag == 'float':
        expected = [None if e is None else struct.unpack('<f', struct.pack('<f', e))[0] for e in expected]
    if kind in ('int',) and ptype in ('INT32', 'INT64'):
        pass
    return dict(data=data, expected=expected, kind=kind, width=width, diag=diag)


def _diagnose(W, diag, p, rows, mask, pages, dict_pool, spec):
    """Derived, coarse features of the generated layout."""
    pos = 0
    diag.setdefault('bp_vals', 0)            # largest number of values carried by one bit-packed index run
    diag.setdefault('v2_levels_cut', False)  # v2 page with nulls whose last level run starts at byte offset >= num_values
    diag.setdefault('null_pages_after_first', False)
    diag.setdefault('pages_with_nulls', 0)
    diag.setdefault('v2_multipage_nulls', False)   # a row group cut into >= 2 v2 pages, one of them holding a null
    diag.setdefault('v2_empty_values_mid', False)  # v2 PLAIN page without any value (0-byte value section) that is not the chunk's last page
    diag['nulls_in_file'] = diag.get('nulls_in_file', 0) + sum(mask)
    if p['type'] == 'flba' and any(v is not None and bytes(v).endswith(b'\x00') for v in rows):
        diag['flba_trailing_nul'] = True
    for pi, pg in enumerate(pages):
        n = pg.n
        prow = rows[pos:pos + n]
        pmask = mask[pos:pos + n]
        pos += n
        nn = n - sum(pmask)
        if any(pmask):
            diag['pages_with_nulls'] += 1
            if pi > 0:
                diag['null_pages_after_first'] = True
            if pg.version == 2 and len(pages) > 1:
                diag['v2_multipage_nulls'] = True
        if (pg.version == 2 and pg.encoding == 'PLAIN' and nn == 0 and n > 0 and pi < len(pages) - 1
                and (p['codec'] == 'UNCOMPRESSED' or pg.compressed is False)):
            diag['v2_empty_values_mid'] = True
        if pg.encoding in ('PLAIN_DICTIONARY', 'RLE_DICTIONARY', 'RLE') and nn:
            if pg.encoding == 'RLE':
                idx = [1 if v else 0 for v in prow if v is not None]
            else:
                keys = [W._key(v, spec) for v in dict_pool]
                idx = [keys.index(W._key(v, spec)) for v in prow if v is not None]
            for kind, c in W.plan_runs(idx, pg.index_runs):
                if kind == 'bp':
                    diag['bp_vals'] = max(diag['bp_vals'], c)
        if pg.version == 2 and p['optional'] and any(pmask):
            levels = [0 if m else 1 for m in pmask]
            off = 0
            i = 0
            last_start = 0
            for kind, c in W.plan_runs(levels, pg.def_runs):
                last_start = off
                off += len(W.hybrid_encode(levels[i:i + c], 1, [(kind, c)]))
                i += c
            if last_start >= n:
                diag['v2_levels_cut'] = True


def delta_values(tag, n, w, shape, rnd):
    """n integers whose DELTA_BINARY_PACKED encoding needs miniblock bit width exactly w (w None: anything)."""
    bits = 64 if TYPES[tag][0] == 'INT64' else 32
    if n == 0:
        return []
    if w is None:
        # logical types over delta: values inside a window of 2**16 at the top of the type's range (deltas stay < 2**17)
        lo_, hi_ = _INT_RANGE[tag]
        span = min(1 << 16, hi_ - lo_)
        if tag == 'uint64':
            hi_ = (1 << 63) + (1 << 40)         # around 2**63: does not fit 32 bits in either signedness
        return [hi_ - rnd.randint(0, span) for _ in range(n)]
    bs, mb = shape
    lo = -(1 << (bits - 1))
    mind = rnd.choice([-3, 0, 5]) if w < bits - 1 else 0
    start = rnd.randint(-1000, 1000) if w < bits - 2 else lo
    if n == 1:
        start = -abs(start) - 1       # a lone value is negative, so that a store of the wrong width is visible
    vals = [start]
    top = (1 << w) - 1
    for k in range(n - 1):
        j = k % (bs // mb)
        if w == 0:
            r = 0
        elif j == 0:
            r = 0
        elif j == 1:
            r = top
        else:
            r = rnd.randint(0, top)
        nxt = vals[-1] + mind + r
        if w < bits - 1 and not (lo <= nxt < -lo):
            # stay inside the type's range without changing the width needed: step back with a new block
            nxt = vals[-1] + mind
        vals.append(_wrap(nxt, bits))
    return vals


def _wrap(x, bits):
    x &= (1 << bits) - 1
    return x - (1 << bits) if x >> (bits - 1) else x


def features_of(group, p, diag):
    f = {}
    for k in ('type', 'optional', 'nulls', 'enc', 'v', 'codec', 'comp_flag', 'def_runs', 'stats'):
        f[k] = p[k]
    f['rows'] = '+'.join(map(str, p['rows']))
    f['pages'] = len(p['cuts']) + 1
    f['cuts'] = ','.join(map(str, p['cuts']))
    if p['enc'] in ('dict', 'fallback', 'rle'):
        f['idx_runs'] = p['idx_runs']
        f['bp_vals'] = diag.get('bp_vals', 0)
    if p['enc'] in ('dict', 'fallback'):
        f['dict_name'] = p['dict_name']
        f['width'] = -1 if p['width'] is None else p['width']
        f['dict_size'] = p['dict_size']
    if p['enc'] == 'delta':
        f['width'] = -1 if p['width'] is None else p['width']
        f['delta'] = '%dx%d' % tuple(p['delta'])
    if p['unsupported']:
        f['unsupported'] = p['unsupported']
    if p['level_enc'] != 'RLE':
        f['level_enc'] = p['level_enc']
    f['v2_levels_cut'] = bool(diag.get('v2_levels_cut'))
    f['v2_multipage_nulls'] = bool(diag.get('v2_multipage_nulls'))
    f['v2_empty_values_mid'] = bool(diag.get('v2_empty_values_mid'))
    f['has_nulls'] = diag.get('nulls_in_file', 0) > 0
    if p['type'] == 'flba':
        f['flba_trailing_nul'] = bool(diag.get('flba_trailing_nul'))
    # the column is materialised as a pandas masked (nullable) array: int/bool kinds whose chunk statistics are
    # absent or report nulls (mirrors ParquetFile._dtypes; used only to key known findings, never by the oracle)
    f['masked'] = bool(TYPES[p['type']][5] in ('int', 'uint', 'bool') and p['optional'] and (
        p['stats'] == 'none' or (p['stats'] in ('null_count', 'full') and f['has_nulls'])))
    return f


def risky(p):
    """May crash the interpreter (known Cython defects): run in a subprocess."""
    w = p['width']
    if p['enc'] == 'delta':
        return w is None or w >= 29
    if p['enc'] in ('dict', 'fallback'):
        return w is not None and w >= 25
    return bool(p['unsupported'])


# ------------------------------------------------------------------------------------------------
# enumeration
# ------------------------------------------------------------------------------------------------
CODECS = ('UNCOMPRESSED', 'SNAPPY', 'GZIP', 'ZSTD', 'LZ4', 'LZ4_RAW', 'BROTLI')
RUN_STYLES = ('auto', 'rle', 'rle1', 'bp', 'bp8', 'mixed', 'mixed_r')


def enumerate_cases(tier):
    extra = tier == 'thorough'
    thorough = True          # the full width lattices are cheap enough for the quick tier too (forked decodes, no exec)
    cases = []

    def add(group, **kw):
        cases.append((group, P(**kw)))

    # --- G_TYPES: physical x converted/logical types x optional x page version x PLAIN / dictionary ---
    for tag in TYPES:
        for optional in (False, True):
            for v in (1, 2):
                encs = ['plain'] if tag == 'bool' else ['plain', 'dict']
                for enc in encs:
                    add(G_TYPES, type=tag, optional=optional, nulls='some' if optional else 'none', enc=enc, v=v,
                        rows=(23,), cuts=(9,), dict_name='RLE_DICTIONARY' if v == 2 else 'PLAIN_DICTIONARY')
                    if thorough:
                        for nulls in (('none', 'all', 'alt') if optional else ()):
                            add(G_TYPES, type=tag, optional=True, nulls=nulls, enc=enc, v=v, rows=(23,), cuts=(9,))
    # --- G_DICT: index widths x run mixtures x page version (required and optional columns) ---
    widths = range(0, 33) if thorough else (0, 1, 2, 3, 5, 7, 8, 9, 12, 15, 16, 17, 23, 24, 25, 26, 31, 32)
    styles = RUN_STYLES if thorough else ('rle', 'bp', 'mixed', 'auto')
    for w in widths:
        for style in styles:
            for v in (1, 2):
                for optional in ((False, True) if (thorough or w in (0, 1, 3, 8, 9, 24, 25)) else (False,)):
                    # a dictionary that NEEDS width w where that is small enough, else a small one with the width forced
                    dsize = 1 if w == 0 else ((1 << (w - 1)) + 1 if w <= 9 else 11)
                    add(G_DICT, type='int64' if w % 2 else 'utf8', optional=optional, nulls='some' if optional else 'none',
                        enc='dict', width=w, dict_size=dsize, idx_runs=style, v=v, rows=(61,), cuts=(40,),
                        dict_name='RLE_DICTIONARY' if v == 2 else 'PLAIN_DICTIONARY')
    for style in RUN_STYLES:                       # minimal width (None), every style, fallback to PLAIN in the chunk
        for v in (1, 2):
            for tag in ('double', 'utf8', 'int32'):
                add(G_DICT, type=tag, enc='fallback', width=None, dict_size=6, idx_runs=style, v=v, rows=(50,), cuts=(17, 33))
                add(G_DICT, type=tag, optional=True, nulls='some', enc='fallback', width=None, dict_size=6, idx_runs=style,
                    v=v, rows=(50,), cuts=(17, 33))
    for style in RUN_STYLES:                       # RLE-encoded booleans
        for v in (1, 2):
            for optional in (False, True):
                add(G_DICT, type='bool', enc='rle', idx_runs=style, v=v, optional=optional,
                    nulls='some' if optional else 'none', rows=(45,), cuts=(16,))
    # --- G_DELTA: DELTA_BINARY_PACKED widths x block shapes x counts x version ---
    dw64 = range(0, 65) if thorough else (0, 1, 7, 8, 9, 16, 17, 24, 28, 29, 31, 32, 33, 48, 56, 57, 63, 64)
    dw32 = range(0, 33) if thorough else (0, 1, 8, 9, 17, 28, 29, 32)
    shapes = ((128, 4), (128, 1), (256, 2), (256, 8))
    for i, w in enumerate(dw64):
        for v in (1, 2):
            for shape in (shapes if thorough else (shapes[(i + v) % 4],)):
                add(G_DELTA, type='int64', enc='delta', width=w, delta=shape, v=v, rows=(300,), cuts=(130,))
    for i, w in enumerate(dw32):
        for v in (1, 2):
            for shape in (shapes if thorough else (shapes[(i + v + 1) % 4],)):
                add(G_DELTA, type='int32', enc='delta', width=w, delta=shape, v=v, rows=(300,), cuts=(130,))
    counts = (1, 2, 3, 32, 33, 34, 64, 65, 127, 128, 129, 130, 256, 257, 258) if thorough else (1, 2, 33, 65, 128, 129, 130, 257)
    for n in counts:
        for shape in shapes:
            for v in (1, 2):
                add(G_DELTA, type='int64' if n % 2 else 'int32', enc='delta', width=5, delta=shape, v=v, rows=(n,), cuts=())
    for tag in ('int8', 'uint16', 'uint32', 'uint64', 'date', 'ts_ms', 'ts_us', 'time_ms', 'time_us', 'dec32', 'dec64'):   # logical types over delta
        for v in (1, 2):
            add(G_DELTA, type=tag, enc='delta', width=None, v=v, rows=(70,), cuts=(33,))
    for v in (1, 2):                              # optional columns
        for nulls in ('none', 'some'):
            add(G_DELTA, type='int32', optional=True, nulls=nulls, enc='delta', width=6, v=v, rows=(150,), cuts=(70,))
    # --- G_LEVELS: definition levels as RLE / bit-packed runs x null patterns x version x pages ---
    for style in RUN_STYLES:
        for nulls in NULL_PATTERNS:
            for v in (1, 2):
                for (rows, cuts) in ((((37,), ()), ((37,), (8, 9))) if thorough else (((37,), (8, 9)),)):
                    for tag, enc in ((('double', 'plain'), ('utf8', 'dict'), ('int32', 'plain'), ('bool', 'plain'))
                                     if thorough else
                                     ((('double', 'plain'), ('int32', 'dict')) if style in ('rle1', 'mixed') else
                                      (('utf8', 'plain'),) if style in ('bp', 'rle') else (('int64', 'plain'),))):
                        add(G_LEVELS, type=tag, optional=True, nulls=nulls, enc=enc, def_runs=style, v=v, rows=rows, cuts=cuts)
    # --- G_LAYOUT: page boundaries, row groups, codecs, compressed flag, statistics ---
    for codec in CODECS:
        for v, flag in ((1, 'absent'), (2, 'absent'), (2, 'true'), (2, 'false')):
            kinds = (('int64', 'plain', False), ('utf8', 'dict', True), ('double', 'plain', True),
                     ('bool', 'plain', False), ('int32', 'delta', False))
            for tag, enc, optional in (kinds if thorough else (kinds[0], kinds[1], kinds[4])):
                add(G_LAYOUT, type=tag, enc=enc, optional=optional, nulls='some' if optional else 'none', codec=codec, v=v,
                    comp_flag=flag, rows=(40,), cuts=(13,), width=7 if enc == 'delta' else None)
    for rows in ((1,), (2,), (17, 1), (5, 0, 7), (8, 8, 8), (9, 31)):
        for cuts in (((), (1,), (4,), (1, 2), (3, 7)) if thorough else ((), (1,), (3, 7))):
            for v in (1, 2):
                for tag, enc, optional in ((('int32', 'plain', False), ('utf8', 'fallback', True), ('int16', 'plain', True),
                                            ('double', 'dict', False))):
                    if enc == 'fallback' and not cuts:
                        continue
                    add(G_LAYOUT, type=tag, enc=enc, optional=optional, nulls='some' if optional else 'none', v=v,
                        rows=rows, cuts=cuts, codec='SNAPPY' if len(rows) > 1 else 'UNCOMPRESSED')
    for stats in ('none', 'null_count', 'minmax', 'full'):
        for tag in ('int32', 'double', 'utf8', 'bool'):
            for nulls in ('none', 'some'):
                for v in (1, 2):
                    add(G_LAYOUT, type=tag, optional=True, nulls=nulls, stats=stats, v=v, rows=(12,), cuts=(5,))
    if extra:
        for tag in TYPES:                                   # every logical type x every null pattern x page cuts x encodings
            for nulls in NULL_PATTERNS:
                for cuts in ((), (1,), (1, 22), (11, 12)):
                    for v in (1, 2):
                        for enc in (('plain',) if tag == 'bool' else ('plain', 'dict', 'fallback')):
                            if enc == 'fallback' and not cuts:
                                continue
                            add(G_TYPES, type=tag, optional=True, nulls=nulls, enc=enc, v=v, rows=(23,), cuts=cuts,
                                codec='SNAPPY' if len(cuts) == 2 else 'UNCOMPRESSED',
                                dict_name='RLE_DICTIONARY' if (v == 2 or len(cuts) == 1) else 'PLAIN_DICTIONARY')
        for w in range(0, 33):                              # index widths x every run style x more value types x both names
            for style in RUN_STYLES:
                for v in (1, 2):
                    for tag in ('double', 'flba', 'int32', 'date'):
                        for optional in (False, True):
                            add(G_DICT, type=tag, optional=optional, nulls='alt' if optional else 'none', enc='dict', width=w,
                                dict_size=1 if w == 0 else min((1 << (w - 1)) + 1, 40), idx_runs=style, v=v, rows=(90, 7),
                                cuts=(8, 64), dict_name='PLAIN_DICTIONARY' if v == 2 else 'RLE_DICTIONARY', codec='ZSTD')
        for bits_tag, top in (('int64', 64), ('int32', 32)):  # delta: every width x shape x count class x version, 2 row groups
            for w in range(0, top + 1):
                for shape in shapes:
                    for v in (1, 2):
                        for rows, cuts in (((129,), ()), ((257, 33), (128,)), ((64, 65), (1, 33))):
                            add(G_DELTA, type=bits_tag, enc='delta', width=w, delta=shape, v=v, rows=rows, cuts=cuts, codec='GZIP')
        for codec in CODECS:                                 # codecs x flags x every logical type
            for v, flag in ((1, 'absent'), (2, 'absent'), (2, 'true'), (2, 'false')):
                for tag in TYPES:
                    add(G_LAYOUT, type=tag, optional=True, nulls='runs', codec=codec, v=v, comp_flag=flag, rows=(40, 3),
                        cuts=(13,))
    # --- G_UNSUP: constructs outside the supported set: the read must raise ---
    for v in (1, 2):
        add(G_UNSUP, type='double', enc='BYTE_STREAM_SPLIT', unsupported='BYTE_STREAM_SPLIT', v=v)
        add(G_UNSUP, type='utf8', enc='DELTA_LENGTH_BYTE_ARRAY', unsupported='DELTA_LENGTH_BYTE_ARRAY', v=v)
    for nulls in ('some', 'alt'):
        add(G_UNSUP, type='int32', optional=True, nulls=nulls, level_enc='BIT_PACKED', unsupported='BIT_PACKED_levels', v=1)
    return cases


# ------------------------------------------------------------------------------------------------
# evaluation
# ------------------------------------------------------------------------------------------------
def snippet_for(built, must_raise, in_subprocess):
    import pickle
    head = ("DATA_B64 = %r\nEXPECTED_B64 = %r\nKIND = %r\nWIDTH = %r\nMUST_RAISE = %r\n" % (
        base64.b64encode(built['data']).decode(), base64.b64encode(pickle.dumps(built['expected'])).decode(),
        built['kind'], built['width'], must_raise))
    inner = head + CHECK_SRC + RUN_SRC
    if not in_subprocess:
        return inner
    return ("# the decode may crash the interpreter: run it in a child process\n"
            "import os, subprocess, sys, json\nINNER = %r\n"
            "p = subprocess.run([sys.executable, '-c', INNER], capture_output=True, timeout=120,\n"
            "                   env={**os.environ, 'PYTHONPATH': os.pathsep.join(x for x in sys.path if x)})\n"
            "out = [l for l in p.stdout.decode(errors='replace').splitlines() if l.startswith('RESULT=')]\n"
            "VIOLATED = p.returncode != 0 or not out or not json.loads(out[-1][7:])[0]\n"
            "print('child exit code', p.returncode, out[-1] if out else p.stderr.decode(errors='replace')[-300:])\n" % inner)


def evaluate(built, must_raise):
    """-> (ok, what); runs in a forked child (see runtime.c15_assembly.resilient)."""
    import io
    import fastparquet
    try:
        df = fastparquet.ParquetFile(io.BytesIO(built['data'])).to_pandas()
    except Exception as e:
        return must_raise, "read raised %s: %s" % (type(e).__name__, str(e)[:200])
    ok, what = check_column(df, 'c', built['expected'], built['kind'], built['width'])
    if must_raise:
        return False, "unsupported construct did not raise; decoded %s" % ("to the right values" if ok else "WRONG: " + what)
    return ok, what


def _worker(args):
    batch, seed, repo = args
    if repo not in sys.path:
        sys.path.insert(0, repo)
    import fastparquet  # noqa: imported before forking so that the children share it
    from runtime.c15_assembly import resilient
    diags = {}

    def one(item):
        idx, group, p = item
        built = build_case(p, seed)                 # an exception here is an oracle problem
        return built['diag'], evaluate(built, bool(p['unsupported']))

    def guarded(item):
        try:
            diag, (ok, what) = one(item)
        except AssertionError:
            raise
        except Exception as e:
            raise AssertionError("build failed %s: %s" % (type(e).__name__, e))
        return ok, (diag, what)

    res = resilient(guarded, batch, isolate=lambda it: risky(it[2]))
    out = []
    for (idx, group, p), (ok, payload) in zip(batch, res):
        if ok is None:
            out.append((idx, None, None, payload))
        elif isinstance(payload, tuple):
            out.append((idx, payload[0], ok, payload[1]))
        else:                                        # the child died: derive the features without decoding
            out.append((idx, build_case(p, seed)['diag'], False, payload))
    return out


def run_bounded(ctx):
    from spec import pqwrite, assembly
    t0 = time.time()
    st = pqwrite.self_test()                          # oracle validation first: a failure here is an engine failure
    ctx.note("spec.pqwrite self-test: %s" % st)
    cases = enumerate_cases(ctx.tier)
    rules = {
        G_TYPES: "one single-column file per (logical type of %d, required/optional, page v1/v2, PLAIN/dictionary) x null patterns none/some/all/alternating, 23 rows in 2 pages; thorough: x 8 null patterns x 4 page cuts x dictionary fallback" % len(TYPES),
        G_DICT: "dictionary pages + index pages: every index bit width 0..32 (width may exceed the minimum; dictionaries that NEED the width up to 9) x 7 run mixtures (RLE maximal, one run per value, one bit-packed run, per-8 bit-packed, alternating both orders, greedy) x v1/v2 x required/optional; dictionary fallback to PLAIN inside the chunk; RLE booleans; thorough: x 4 more value types, 2 row groups, 3 pages",
        G_DELTA: "DELTA_BINARY_PACKED: every forced miniblock width 0..64 (INT64) / 0..32 (INT32) x block shapes 128x4,128x1,256x2,256x8 x counts around miniblock/block multiples x v1/v2 x logical types x optional; every decode in a forked child; thorough: x row-group/page splits",
        G_LEVELS: "optional column: definition levels cut into runs by 7 styles x 8 null patterns x v1/v2 x (1 page | 3 pages with a 1-row page) x 4 column kinds",
        G_LAYOUT: "7 codecs x (v1, v2 flag absent/true/false) x 5 column kinds; row groups (1),(2),(17,1),(5,0,7),(8,8,8),(9,31) x 5 page cuts; statistics none/null_count/minmax/full; thorough: codecs x flags x every logical type",
        G_UNSUP: "BYTE_STREAM_SPLIT, DELTA_LENGTH_BYTE_ARRAY value encodings and deprecated BIT_PACKED levels: the read must raise",
    }
    for g, r in rules.items():
        ctx.bounded_group(g, rule=r + " [bound: files of <= 300 rows, one column]")
    # fan out
    indexed = [(i, g, p) for i, (g, p) in enumerate(cases)]
    nw = min(16, os.cpu_count() or 4)
    batches = [indexed[k::nw * 4] for k in range(nw * 4)]
    results = {}
    with ProcessPoolExecutor(max_workers=nw) as ex:
        for res in ex.map(_worker, [(b, ctx.seed, REPO) for b in batches if b]):
            for idx, diag, ok, what in res:
                results[idx] = (diag, ok, what)
    for i, (g, p) in enumerate(cases):
        diag, ok, what = results[i]
        if diag is None:
            ctx.engine_error("%s %s: %s" % (g, p, what))
            continue
        feats = features_of(g, p, diag)

        def snip(p=p):
            return snippet_for(build_case(p, ctx.seed), bool(p['unsupported']), risky(p))
        with Case(ctx, g, feats, snippet=None, nontrivial=sum(p['rows']) > 0, contract=CONTRACT) as c:
            if not ok:
                c.snippet = snip()
                c.fail(what)
    ctx.note("c03: %d files in %.1f s" % (len(cases), time.time() - t0))
