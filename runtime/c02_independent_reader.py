"""C02 (bounded layer) -- every file a `fastparquet.write` produces is valid Parquet and an
independent reader decodes the input table from it.

Postcondition on the REAL `fastparquet.write` (current /repo working tree), evaluated for every file
under the target (data files, `_metadata`, `_common_metadata`):

  c02.structure                  `spec.pqread.structural_check` reports nothing (magic, footer length,
                                 strict IDL conformance of footer and page headers, offsets, page tiling,
                                 sizes, counts, codec, encodings, encoding_stats modulo data-page version,
                                 v2 counters, null_count, row group / file totals) and the multi-file
                                 layout is coherent (`_metadata` references exactly the data files,
                                 `_common_metadata` has no row groups, data files carry no file_path)
  c02.encoding_stats_page_type   encoding_stats names the page types actually present
  c02.values                     decoding with the independent reader reproduces the input table: column
                                 names and order, every cell, NULL exactly where the nullability mode
                                 stores NULL (optional: missing -> NULL; required: NaN / NaT sentinels stay
                                 values, no NULL)

The oracle (spec/pqread.py) is validated against third-party fixtures before anything is judged
(`self_test`); a failure there is an engine failure, not a violation.  A write that raises produces no
file to judge: recorded in `c02.write_raises` as a trivial case.
"""
import itertools
import json
import math
import os
import struct
import sys
import time
import traceback

import numpy as np
import pandas as pd

G_STRUCT = "c02.structure"
G_ENCST = "c02.encoding_stats_page_type"
G_VALUES = "c02.values"
G_RAISE = "c02.write_raises"

ROWS_QUICK = [0, 1, 7, 8, 9, 63, 64, 65, 1000]
ROWS_THOROUGH = ROWS_QUICK + [8191, 8192, 8193]
NULLS = ["none", "some", "all", "first", "last"]

# dtype name -> (can hold missing values, missing representable in REQUIRED mode by a sentinel)
DTYPES = {
    "bool": (False, False), "int8": (False, False), "int16": (False, False), "int32": (False, False),
    "int64": (False, False), "uint8": (False, False), "uint16": (False, False), "uint32": (False, False),
    "uint64": (False, False),
    "float32": (True, True), "float64": (True, True),
    "str": (True, False), "object-str": (True, False), "bytes": (True, False), "fixed4": (True, False),
    "json": (True, False),
    "datetime64[ns]": (True, True), "datetime64[us]": (True, True), "datetime64[ms]": (True, True),
    "datetime64[s]": (True, True), "datetime64[ns,Europe/Berlin]": (True, True),
    "datetime64[us,UTC]": (True, True),
    "timedelta64[ns]": (True, True), "timedelta64[us]": (True, True), "timedelta64[ms]": (True, True),
    "timedelta64[s]": (True, True),
    "cat-str": (True, False), "cat-int": (True, False), "cat-wide": (True, False),
    "Int64": (True, False), "Int32": (True, False), "UInt8": (True, False), "boolean": (True, False),
}
OBJECT_DTYPES = {"object-str", "bytes", "json", "fixed4"}

OPTION_AXES = {
    "compression": [None, "UNCOMPRESSED", "SNAPPY", "GZIP", "ZSTD", "LZ4", "LZ4_RAW", "BROTLI", "dict", "dict-args"],
    "rgo": ["None", "0", "int", "list"],
    "has_nulls": [True, False, "infer"],
    "pages": [1, 2, 3],
    "page_version": [1, 2],
    "stats": [True, False, "auto"],
    "times": ["int64", "int96"],
    "scheme": ["simple", "hive", "hive-part", "drill-part"],
    "write_index": ["default", "nonrange", "True", "False"],
}


# ---------------------------------------------------------------------------------------------
# deterministic pairwise covering array (greedy)
# ---------------------------------------------------------------------------------------------
def pairwise(axes):
    """Greedy pairwise covering array; ties are broken by a fixed-seed generator so that the values of
    axes whose pairs are already covered stay uncorrelated.  Independent of ctx.seed."""
    import random
    rnd = random.Random(20261004)
    names = list(axes)
    unc = set()
    for i, j in itertools.combinations(range(len(names)), 2):
        for a in range(len(axes[names[i]])):
            for b in range(len(axes[names[j]])):
                unc.add((i, a, j, b))
    tests = []
    while unc:
        i, a, j, b = min(unc)
        row = {i: a, j: b}
        order = [k for k in range(len(names)) if k not in row]
        rnd.shuffle(order)
        for k in order:
            scores = []
            for c in range(len(axes[names[k]])):
                n = 0
                for m, d in row.items():
                    key = (m, d, k, c) if m < k else (k, c, m, d)
                    n += key in unc
                scores.append(n)
            top = max(scores)
            row[k] = rnd.choice([c for c, n in enumerate(scores) if n == top])
        for m, n2 in itertools.combinations(sorted(row), 2):
            unc.discard((m, row[m], n2, row[n2]))
        tests.append({names[k]: axes[names[k]][row[k]] for k in range(len(names))})
    return tests


# ---------------------------------------------------------------------------------------------
# input construction (plain pandas / numpy)
# ---------------------------------------------------------------------------------------------
def null_mask(rows, nulls):
    if nulls == "none":
        return [False] * rows
    if nulls == "all":
        return [True] * rows
    if nulls == "some":
        return [i % 3 == 1 for i in range(rows)]
    if nulls == "first":
        return [i == 0 for i in range(rows)]
    if nulls == "last":
        return [i == rows - 1 for i in range(rows)]
    raise ValueError(nulls)


def _cycle(vals, i, extra):
    return vals[i % (len(vals) + 1)] if i % (len(vals) + 1) < len(vals) else extra


_STR = ["", "a", "éè", "xyz" * 5, "日本語", "Z", "with space", "0"]
_BYT = [b"", b"\x00", b"\xff\xfe\xfd", b"PAR1", b"abc" * 7, b"\x80"]


def make_series(dtype, rows, nulls, name="c"):
    """One column of `rows` cells with the given null pattern.  Values are boundary heavy and never
    the zero of their type where that would hide a scaling error."""
    m = null_mask(rows, nulls)
    idx = range(rows)
    if dtype == "bool":
        return pd.Series([i * 7 % 3 == 0 for i in idx], dtype="bool", name=name)
    if dtype in ("int8", "int16", "int32", "int64", "uint8", "uint16", "uint32", "uint64"):
        info = np.iinfo(dtype)
        base = [info.min, info.max, 1, info.max - 1, info.min + 1, 0, info.max // 2 + 1]
        return pd.Series(np.array([_cycle(base, i, (i * 37) % 101) for i in idx], dtype=dtype), name=name)
    if dtype in ("float32", "float64"):
        base = [1.5, -0.0, 0.0, float("inf"), float("-inf"), 1e-38, -3.25, 16777217.0]
        a = np.array([_cycle(base, i, i / 7.0) for i in idx], dtype=dtype)
        a[np.array(m, dtype=bool)] = np.nan
        return pd.Series(a, name=name)
    if dtype in ("str", "object-str"):
        vals = [None if m[i] else _cycle(_STR, i, "r%d" % i) for i in idx]
        return pd.Series(vals, dtype="str" if dtype == "str" else object, name=name)
    if dtype == "bytes":
        return pd.Series([None if m[i] else _cycle(_BYT, i, b"r%d" % i) for i in idx], dtype=object, name=name)
    if dtype == "fixed4":
        return pd.Series([None if m[i] else "%04d" % (i * 13 % 10000) for i in idx], dtype=object, name=name)
    if dtype == "json":
        vals = [None if m[i] else ({"a": i, "b": [1, 2.5, None, "é"]} if i % 2 else [i, {"k": "v"}]) for i in idx]
        return pd.Series(vals, dtype=object, name=name)
    if dtype.startswith("datetime64"):
        unit = dtype[11:].split(",")[0].rstrip("]")
        tz = dtype.split(",")[1].rstrip("]") if "," in dtype else None
        scale = {"s": 1, "ms": 10 ** 3, "us": 10 ** 6, "ns": 10 ** 9}[unit]
        frac = {"s": 0, "ms": 123, "us": 123456, "ns": 123456789}[unit]
        base = [1_600_000_000 * scale + frac, -1, 86400 * scale * 365, -86400 * scale * 3 - 1, 1]
        a = np.array([_cycle(base, i, 946_684_800 * scale + i * (scale + 7)) for i in idx], dtype="int64")
        a = a.view(f"datetime64[{unit}]").copy()
        a[np.array(m, dtype=bool)] = np.datetime64("NaT")
        s = pd.Series(a, name=name)
        if tz:
            s = s.dt.tz_localize("UTC").dt.tz_convert(tz)
        return s
    if dtype.startswith("timedelta64"):
        unit = dtype[12:-1]
        k = 1000 if unit == "ns" else 1          # representable in microseconds
        base = [1 * k, -1 * k, 86_400_000 * k, 3 * k, -7_000 * k]
        a = np.array([_cycle(base, i, (i + 1) * 1009 * k) for i in idx], dtype="int64")
        a = a.view(f"timedelta64[{unit}]").copy()
        a[np.array(m, dtype=bool)] = np.timedelta64("NaT")
        return pd.Series(a, name=name)
    if dtype in ("cat-str", "cat-int", "cat-wide"):
        if dtype == "cat-str":
            cats = ["a", "bb", "é", "", "unused"]
        elif dtype == "cat-int":
            cats = [10, -20, 2 ** 40]
        else:
            cats = ["L%03d" % k for k in range(300)]
        codes = [-1 if m[i] else (i * 7) % (len(cats) - (dtype == "cat-str")) for i in idx]
        return pd.Series(pd.Categorical.from_codes(codes, categories=cats), name=name)
    if dtype in ("Int64", "Int32", "UInt8"):
        info = np.iinfo(dtype.lower())
        base = [info.min, info.max, 1, 0]
        return pd.Series(pd.array([None if m[i] else _cycle(base, i, (i * 37) % 101) for i in idx], dtype=dtype),
                         name=name)
    if dtype == "boolean":
        return pd.Series(pd.array([None if m[i] else i * 5 % 3 == 0 for i in idx], dtype="boolean"), name=name)
    raise ValueError(dtype)


class Json:
    """expected cell: JSON text whose parsed value is .obj"""

    def __init__(self, obj):
        self.obj = obj

    def __repr__(self):
        return f"Json({self.obj!r})"


def _py(x):
    if isinstance(x, (np.bool_, bool)):
        return bool(x)
    if isinstance(x, (np.integer, int)):
        return int(x)
    if isinstance(x, (np.floating, float)):
        return float(x)
    if isinstance(x, (dict, list)):
        return Json(x)
    return x


def expected_cells(s, optional):
    """The cells of pandas Series `s` as an independent reader must deliver them (plain pandas)."""
    dt = s.dtype
    if isinstance(dt, pd.CategoricalDtype):
        labels = [_py(x) for x in s.cat.categories.tolist()]
        return [None if c < 0 else labels[c] for c in s.cat.codes.tolist()]
    if isinstance(dt, pd.DatetimeTZDtype):
        a = s.dt.tz_convert("UTC").dt.tz_localize(None).to_numpy()
        return [None if (optional and np.isnat(x)) else x for x in a]
    if dt.kind in "Mm" and isinstance(dt, np.dtype):
        a = s.to_numpy()
        return [None if (optional and np.isnat(x)) else x for x in a]
    if isinstance(dt, np.dtype) and dt.kind == "f":
        return [None if (optional and math.isnan(x)) else float(x) for x in s.to_numpy()]
    if isinstance(dt, np.dtype) and dt.kind in "iub":
        return [_py(x) for x in s.to_numpy()]
    out = []
    for x in s.tolist():        # object, str, nullable extension dtypes
        if x is None or x is pd.NA or (isinstance(x, float) and math.isnan(x)):
            out.append(None)
        else:
            out.append(_py(x))
    return out


def cell_equal(got, want):
    if want is None or got is None:
        return got is None and want is None
    if isinstance(want, Json):
        if not isinstance(got, str):
            return False
        try:
            return json.loads(got) == want.obj
        except ValueError:
            return False
    if isinstance(want, float):
        if not isinstance(got, float):
            return False
        if math.isnan(want):
            return math.isnan(got)
        return struct.pack("<d", got) == struct.pack("<d", want)
    if isinstance(want, (np.datetime64, np.timedelta64)):
        if not isinstance(got, type(want)):
            return False
        if np.isnat(want) or np.isnat(got):
            return bool(np.isnat(want) and np.isnat(got))
        return bool(got == want)
    return type(got) is type(want) and got == want


def compare_column(name, got, want, out, limit=2):
    if len(got) != len(want):
        out.append(f"column {name!r}: {len(got)} cells decoded, input has {len(want)}")
        return
    bad = [i for i in range(len(want)) if not cell_equal(got[i], want[i])]
    if bad:
        i = bad[0]
        out.append(f"column {name!r}: {len(bad)} of {len(want)} cells differ, first at row {i}: "
                   f"file holds {got[i]!r}, input is {want[i]!r}")


# ---------------------------------------------------------------------------------------------
# one case
# ---------------------------------------------------------------------------------------------
_BPE = {"bool": 0.125, "boolean": 0.125, "int8": 4, "int16": 4, "int32": 4, "uint8": 4, "uint16": 4, "uint32": 4,
        "float32": 4, "Int32": 4, "UInt8": 4, "cat-str": 1, "cat-int": 1, "cat-wide": 2, "fixed4": 8,
        "str": 16, "object-str": 16, "bytes": 16, "json": 16}


def normalise(f):
    """Make an option tuple applicable to its data case (documented preconditions of `write`).
    Returns the adjusted feature dict."""
    f = dict(f)
    nullable, sentinel = DTYPES[f["dtype"]]
    if not nullable:
        f["nulls"] = "none"
    if f["rows"] == 0:
        f["nulls"] = "none"
    if f["nulls"] != "none":
        # claiming "no nulls" for data that has nulls is a caller error unless the type has a sentinel
        required = f["has_nulls"] is False or (f["has_nulls"] == "infer" and f["dtype"] not in OBJECT_DTYPES)
        if required and not (sentinel and not (f["times"] == "int96" and f["dtype"].startswith("datetime"))):
            f["has_nulls"] = True
    m = null_mask(f["rows"], f["nulls"])
    f["nonnull"] = bool(f["rows"]) and not all(m)
    return f


def build_frame(f):
    """features -> (DataFrame, write kwargs, info)"""
    rows = f["rows"]
    s = make_series(f["dtype"], rows, f["nulls"], "c")
    cols = {"c": s}
    part = f["scheme"] in ("hive-part", "drill-part")
    if part:
        cols = {"k": pd.Series(np.arange(rows, dtype="int64") * 3 + 1, name="k"), "c": s,
                "p": pd.Series([("x", "y", "x")[i % 3] for i in range(rows)], dtype=object, name="p")}
    df = pd.DataFrame(cols)
    kw = {}
    wi = f["write_index"]
    if wi == "nonrange":
        df.index = pd.Index(np.arange(rows, dtype="int64")[::-1] * 2 + 5, name="ix")
    elif wi == "True":
        kw["write_index"] = True
    elif wi == "False":
        kw["write_index"] = False
    comp = f["compression"]
    if comp == "dict":
        comp = {"c": "SNAPPY", "_default": "GZIP"}
    elif comp == "dict-args":
        comp = {"c": {"type": "ZSTD", "args": {"level": 5}}, "_default": {"type": "GZIP", "args": {"compresslevel": 2}}}
    kw["compression"] = comp
    rgo = f["rgo"]
    if rgo == "None":
        starts = None
    elif rgo == "0":
        starts = 0
    elif rgo == "int":
        starts = max(rows // 3 + 1, 1)
    else:
        starts = sorted({0, rows // 3, rows // 2}) if rows else [0]
    kw["row_group_offsets"] = starts
    kw["has_nulls"] = f["has_nulls"]
    kw["stats"] = f["stats"]
    kw["times"] = f["times"]
    kw["file_scheme"] = {"simple": "simple", "hive": "hive", "hive-part": "hive", "drill-part": "drill"}[f["scheme"]]
    if part:
        kw["partition_on"] = ["p"]
    if f["dtype"] == "fixed4":
        kw["fixed_text"] = {"c": 4}
        kw["object_encoding"] = {"c": "utf8", "p": "utf8"} if part else {"c": "utf8"}
    # page size: k pages for the largest row group, by the documented meaning of MAX_PAGE_SIZE (bytes)
    if isinstance(starts, list):
        b = starts + [rows]
        rg_rows = max([y - x for x, y in zip(b, b[1:])] or [rows])
    elif isinstance(starts, int) and starts:
        rg_rows = min(starts, rows)
    else:
        rg_rows = rows
    bpe = _BPE.get(f["dtype"], 8)
    per_page = max(-(-max(rg_rows, 1) // f["pages"]), 1)
    page_size = max(int(math.ceil(per_page * (bpe + 0.125))) + 1, 48)
    return df, kw, {"page_size": page_size if f["pages"] > 1 else None, "partitioned": part}


def optional_mode(f, colname, series):
    hn = f["has_nulls"]
    if hn is True:
        return True
    if hn is False:
        return False
    if hn == "infer":
        return series.dtype == object
    return colname in hn


def expected_table(df, f, kw):
    """[(column name, expected cells)] in file order, from the input frame by plain pandas."""
    written_index = kw.get("write_index") is True or (kw.get("write_index") is None
                                                     and not isinstance(df.index, pd.RangeIndex))
    d = df.reset_index() if written_index else df
    out = []
    for c in d.columns:
        out.append((str(c), expected_cells(d[c], optional_mode(f, c, d[c]))))
    return out


def _get_fp():
    if "fastparquet" in sys.modules and hasattr(sys.modules["fastparquet"], "write"):
        return sys.modules["fastparquet"]
    from runtime.harness import import_fastparquet
    return import_fastparquet()


def _list_files(root):
    out = []
    for dp, dn, fn in os.walk(root):
        for n in fn:
            out.append(os.path.relpath(os.path.join(dp, n), root).replace(os.sep, "/"))
    return sorted(out)


def _split_tags(sv, tag):
    return [x for x in sv if x.startswith(tag)], [x for x in sv if not x.startswith(tag)]


def check_dataset(target, df, f, kw, info):
    """Evaluate the three postconditions on what `write` left at `target`."""
    from spec import pqread
    res = {"structure": [], "encstats_pt": [], "values": [], "parsed": True, "has_chunks": False,
           "notes": [], "pages_seen": 0, "files": 0}
    S, V = res["structure"], res["values"]
    exp = expected_table(df, f, kw)
    multi = kw["file_scheme"] != "simple"
    if not multi:
        files = {"": target}
        if not os.path.isfile(target):
            S.append("write returned without creating the file")
            res["parsed"] = False
            return res
    else:
        names = _list_files(target)
        files = {n: os.path.join(target, *n.split("/")) for n in names}
    res["files"] = len(files)
    parsed = {}
    for n, path in files.items():
        with open(path, "rb") as fh:
            raw = fh.read()
        pf = pqread.read_file(path)
        parsed[n] = pf
        sv = pqread.structural_check(pf, raw, strict_file_offset=True,
                                     summary_file=n.split("/")[-1] == "_common_metadata")
        pt, rest = _split_tags(sv, "[encoding_stats.page_type]")
        res["encstats_pt"] += [f"{n or 'file'}: {x}" for x in pt]
        S += [f"{n or 'file'}: {x}" for x in rest]
        res["notes"] += pf.all_notes()
        if pf.fmd is None:
            res["parsed"] = False
        for R in pf.row_groups:
            for c in R.columns:
                res["has_chunks"] = True
                res["pages_seen"] = max(res["pages_seen"], len(c.data_pages))
    if not res["parsed"]:
        return res
    # ---- layout of a multi-file dataset ------------------------------------------------------
    if multi:
        data_files = [n for n in files if not n.split("/")[-1].startswith("_")]
        for special in ("_metadata", "_common_metadata"):
            if special not in files:
                S.append(f"{special} was not written")
        if "_common_metadata" in files and parsed["_common_metadata"].row_groups:
            S.append("_common_metadata has row groups")
        for n in data_files:
            for R in parsed[n].row_groups:
                for c in R.columns:
                    if c.file_path is not None:
                        S.append(f"{n}: a data file's own footer carries file_path {c.file_path!r}")
        if "_metadata" not in files:
            res["parsed"] = False
            return res
        meta = parsed["_metadata"]
        order = []
        for gi, R in enumerate(meta.row_groups):
            paths = {c.file_path for c in R.columns}
            if len(paths) != 1 or None in paths:
                S.append(f"_metadata rg{gi}: chunks reference {sorted(map(str, paths))} instead of one data file")
                continue
            order.append(next(iter(paths)))
        if sorted(set(order)) != sorted(data_files):
            S.append(f"_metadata references {sorted(set(order))}, the directory holds {sorted(data_files)}")
        if "_common_metadata" in files and \
                [(l.path, l.type, l.repetition, l.converted_type) for l in parsed["_common_metadata"].schema] != \
                [(l.path, l.type, l.repetition, l.converted_type) for l in meta.schema]:
            S.append("_common_metadata and _metadata disagree on the schema")
        main = meta
    else:
        main = parsed[""]
        order = None
    # ---- values -------------------------------------------------------------------------------
    part = info["partitioned"]
    names = [".".join(l.path) for l in main.schema]
    want_names = [n for n, _ in exp if not (part and n == "p")]
    if names != want_names:
        V.append(f"columns in the file {names}, input has {want_names}")
        return res
    got = {}
    try:
        for l in main.schema:
            got[".".join(l.path)] = main.logical(".".join(l.path))
    except Exception as e:     # chunk not decodable: already a structural violation
        V.append(f"not decodable: {type(e).__name__}: {str(e)[:200]}")
        return res
    # timestamp annotation must say whether instants are UTC-normalised
    for l in main.schema:
        if l.name in df.columns and l.logical_type and l.logical_type.get("TIMESTAMP") is not None:
            aware = isinstance(df[l.name].dtype, pd.DatetimeTZDtype)
            if bool(l.logical_type["TIMESTAMP"].get("isAdjustedToUTC")) != aware:
                V.append(f"column {l.name!r}: isAdjustedToUTC={l.logical_type['TIMESTAMP'].get('isAdjustedToUTC')} "
                         f"for a {'tz-aware' if aware else 'naive'} column")
    if not part:
        for n, want in exp:
            compare_column(n, got[n], want, V)
    else:
        # rows are regrouped by partition value: rebuild full rows with the value taken from the path
        pvals = []
        for gi, R in enumerate(main.row_groups):
            fp = R.columns[0].file_path or ""
            seg = fp.split("/")[0]
            val = seg.split("=", 1)[1] if kw["file_scheme"] == "hive" and "=" in seg else seg
            if kw["file_scheme"] == "hive" and not seg.startswith("p="):
                V.append(f"rg{gi}: partition directory {seg!r} does not name column p")
            pvals += [val] * R.num_rows
        k = got["k"]
        if len(pvals) != len(k):
            V.append(f"{len(k)} rows decoded, row groups announce {len(pvals)}")
            return res
        perm = sorted(range(len(k)), key=lambda i: (k[i] is None, k[i]))
        for n, want in exp:
            col = pvals if n == "p" else got[n]
            compare_column(n, [col[i] for i in perm], want, V)
        # inside one file the input order must be kept
        pos = 0
        for gi, R in enumerate(main.row_groups):
            seg = k[pos:pos + R.num_rows]
            if any(a is None or b is None or a >= b for a, b in zip(seg, seg[1:])):
                V.append(f"rg{gi}: rows are not in input order")
            pos += R.num_rows
    # each data file decoded through its OWN footer must give the same cells as through _metadata
    if multi and not V:
        for n in names:
            own = []
            try:
                idx = {}
                for fn in order:
                    idx[fn] = idx.get(fn, -1) + 1
                    R = parsed[fn].row_groups[idx[fn]]
                    c = [c for c in R.columns if ".".join(c.leaf.path) == n][0]
                    own += pqread.logical_column(c)
            except Exception as e:
                V.append(f"column {n!r}: data files not decodable through their own footers: {type(e).__name__}: {e}")
                continue
            if len(own) != len(got[n]) or any(not _same(a, b) for a, b in zip(own, got[n])):
                V.append(f"column {n!r}: data files decoded through their own footers differ from _metadata")
    return res


def _same(a, b):
    if a is None or b is None:
        return a is None and b is None
    if isinstance(a, float) and isinstance(b, float) and math.isnan(a) and math.isnan(b):
        return True
    if isinstance(a, (np.datetime64, np.timedelta64)) and np.isnat(a):
        return isinstance(b, type(a)) and bool(np.isnat(b))
    return type(a) is type(b) and bool(a == b)


def run_case(f):
    """Worker: build the input, call the real write under the page settings, judge what it wrote."""
    import warnings
    from runtime.harness import tmpdir
    warnings.simplefilter("ignore")
    fp = _get_fp()
    W = fp.writer
    f = dict(f)
    out = {"features": f, "raised": None, "engine": None}
    try:
        if "frame" in f:
            df, kw, info = build_multi(f)
        else:
            df, kw, info = build_frame(f)
    except Exception:
        out["engine"] = "building the input failed:\n" + traceback.format_exc()
        return out
    old = (W.MAX_PAGE_SIZE, W.DATAPAGE_VERSION)
    with tmpdir("verif-c02-") as d:
        target = os.path.join(d, "t.parquet")
        try:
            if info["page_size"]:
                W.MAX_PAGE_SIZE = info["page_size"]
            W.DATAPAGE_VERSION = f["page_version"]
            try:
                fp.write(target, df, **kw)
            except Exception as e:
                out["raised"] = f"{type(e).__name__}: {str(e)[:160]}"
                return out
            finally:
                W.MAX_PAGE_SIZE, W.DATAPAGE_VERSION = old
            try:
                if "frame" in f:
                    out.update(check_multi(target, df, f, kw, info))
                else:
                    out.update(check_dataset(target, df, f, kw, info))
            except Exception:
                out["engine"] = "judging the files failed:\n" + traceback.format_exc()
        finally:
            W.MAX_PAGE_SIZE, W.DATAPAGE_VERSION = old
    return out


# ---------------------------------------------------------------------------------------------
# multi-column frames: per-column options (compression dict, has_nulls list, stats list)
# ---------------------------------------------------------------------------------------------
FRAMES = {
    "mixed4": ["int64", "float64", "object-str", "cat-str"],
    "nullable3": ["Int64", "boolean", "str"],
    "times3": ["datetime64[ns]", "datetime64[ns,Europe/Berlin]", "timedelta64[us]"],
    "small-ints": ["int8", "uint16", "uint32", "bool", "float32"],
    "bytes-json": ["bytes", "json", "uint64"],
}
MULTI_AXES = {
    "frame": list(FRAMES),
    "rows": [0, 1, 9, 65, 1000],
    "nulls": ["none", "some", "all"],
    "compression": ["dict-mixed", "dict-default-only", "ZSTD", None],
    "has_nulls": ["list", True, False],
    "stats": ["list", True, "auto"],
    "page_version": [1, 2],
    "pages": [1, 3],
    "scheme": ["simple", "hive"],
    "rgo": ["None", "list"],
}
_CODECS = ["SNAPPY", None, "GZIP", "LZ4", "BROTLI"]


def build_multi(f):
    rows = f["rows"]
    dts = FRAMES[f["frame"]]
    names = ["c%d" % i for i in range(len(dts))]
    listed = names[::2]                         # columns named in has_nulls / stats lists
    cols = {}
    for n, dt in zip(names, dts):
        nullable, sentinel = DTYPES[dt]
        nulls = f["nulls"] if nullable else "none"
        opt = f["has_nulls"] is True or (f["has_nulls"] == "list" and n in listed)
        if nulls != "none" and not opt and not sentinel:
            nulls = "none"
        cols[n] = make_series(dt, rows, nulls, n)
    df = pd.DataFrame(cols)
    kw = {}
    comp = f["compression"]
    if comp == "dict-mixed":
        comp = {n: _CODECS[i % len(_CODECS)] for i, n in enumerate(names)}
    elif comp == "dict-default-only":
        comp = {"_default": "SNAPPY", names[0]: None}
    kw["compression"] = comp
    kw["has_nulls"] = listed if f["has_nulls"] == "list" else f["has_nulls"]
    kw["stats"] = listed if f["stats"] == "list" else f["stats"]
    kw["file_scheme"] = f["scheme"]
    kw["row_group_offsets"] = None if f["rgo"] == "None" else (sorted({0, rows // 4, rows // 2}) if rows else [0])
    page_size = None
    if f["pages"] > 1:
        page_size = max(int(math.ceil(max(rows, 1) / f["pages"] * 4.125)) + 1, 48)
    return df, kw, {"page_size": page_size, "partitioned": False}


def check_multi(target, df, f, kw, info):
    f2 = dict(f)
    f2["has_nulls"] = kw["has_nulls"]
    return check_dataset(target, df, f2, kw, info)


# ---------------------------------------------------------------------------------------------
# enumeration
# ---------------------------------------------------------------------------------------------
def enumerate_cases(tier):
    """Deterministic (seed independent).  Data cases = dtype x rows x null pattern; every data case is
    paired with `per` option tuples taken round-robin from a pairwise covering array of the option
    axes (thorough: with all of them)."""
    opts = pairwise(OPTION_AXES)
    rows_list = ROWS_THOROUGH if tier == "thorough" else ROWS_QUICK
    data = []
    for dt, (nullable, _) in DTYPES.items():
        for rows in rows_list:
            for nulls in (NULLS if nullable and rows else ["none"]):
                if rows == 1 and nulls in ("first", "last", "some"):
                    if nulls != "first":
                        continue
                data.append((dt, rows, nulls))
    per = len(opts) if tier == "thorough" else 4
    seen = set()
    out = []
    # round-major order: every data case gets its first tuple before any gets its second, so that a run
    # cut short by the time budget loses breadth of options, never a dtype / row count / null pattern
    for j in range(per):
        for i, (dt, rows, nulls) in enumerate(data):
            o = opts[(i * per + j + (i * per) // len(opts)) % len(opts)] if tier != "thorough" else opts[j]
            f = {"dtype": dt, "rows": rows, "nulls": nulls}
            f.update(o)
            f = normalise(f)
            key = json.dumps(f, sort_keys=True, default=str)
            if key not in seen:
                seen.add(key)
                out.append(f)
    multi = []
    mopts = pairwise(MULTI_AXES)
    for o in mopts:
        for fr in FRAMES:
            o2 = dict(o, frame=fr)
            key = json.dumps(o2, sort_keys=True, default=str)
            if key not in seen:
                seen.add(key)
                multi.append(o2)
    return out, multi


CONTRACT = {
    G_STRUCT: "post(write): for every file under the target, spec.pqread.structural_check(file) == [] and the "
              "multi-file layout is coherent",
    G_ENCST: "post(write): ColumnMetaData.encoding_stats names the page types actually present",
    G_VALUES: "post(write): spec.pqread decodes the input table (names, order, cells, NULL vs NaN/NaT per "
              "nullability mode) from the files",
    G_RAISE: "a write that raises leaves nothing to judge",
}


def make_snippet(f, group):
    key = {G_STRUCT: "structure", G_ENCST: "encstats_pt", G_VALUES: "values"}.get(group, "structure")
    return (
        "# C02 bounded case; the independent reader (oracle) is /verif/spec/pqread.py\n"
        "import sys, json\n"
        "sys.path.insert(0, '/verif')\n"
        "import fastparquet                      # the tree under check\n"
        "from runtime import c02_independent_reader as m\n"
        f"features = json.loads({json.dumps(json.dumps(f))})\n"
        "df, kw, info = (m.build_multi if 'frame' in features else m.build_frame)(features)\n"
        "print('fastparquet.write(target, df, **%r)  # DATAPAGE_VERSION=%s MAX_PAGE_SIZE=%s' % (kw, features['page_version'], info['page_size']))\n"
        "print(df.head(10))\n"
        "res = m.run_case(features)\n"
        "print({k: v for k, v in res.items() if k != 'features'})\n"
        f"VIOLATED = bool(res.get('engine') is None and res.get('raised') is None and res.get({key!r}))\n"
    )


def run_bounded(ctx):
    from concurrent.futures import ProcessPoolExecutor
    from runtime.harness import Case, import_fastparquet
    from spec import pqread
    problems = pqread.self_test()
    if problems:
        raise RuntimeError("oracle self-test failed (engine failure, not a violation): " + "; ".join(problems[:4]))
    import_fastparquet()
    single, multi = enumerate_cases(ctx.tier)
    rule = (f"dtypes {len(DTYPES)} x rows {ROWS_THOROUGH if ctx.tier == 'thorough' else ROWS_QUICK} x null patterns "
            f"{NULLS} (where the dtype can be missing) = data cases; each with "
            f"{'every tuple' if ctx.tier == 'thorough' else '4 tuples (round-robin)'} of a pairwise covering array "
            f"({len(pairwise(OPTION_AXES))} tuples) over {({k: len(v) for k, v in OPTION_AXES.items()})}; plus "
            f"{len(multi)} multi-column frames (pairwise over per-column compression dict / has_nulls list / stats "
            f"list / scheme / pages / version).  BOUND: <= 8193 rows, <= 5 columns, <= 4 row groups, 1-3 pages per "
            f"chunk.  A case is distinct by its feature tuple; non-trivial when the write succeeded"
            f" (values: and rows > 0).")
    for g in (G_STRUCT, G_ENCST, G_VALUES, G_RAISE):
        ctx.bounded_group(g, rule=rule if g == G_STRUCT else "same enumeration as c02.structure")
    cases = multi + single
    workers = min(14, os.cpu_count() or 2)
    budget = 45.0 if ctx.tier == "quick" else 13 * 60.0      # seconds; checked between batches
    t0 = time.time()
    engine = []
    raised = 0
    judged = 0
    notes = {}
    page_mismatch = 0
    stale = {}

    def passed(group, f):
        # a passing case that carries the signature of a known finding: the signature is no longer exact
        # (or the defect was repaired) -- said in the evidence, never hidden
        rec = ctx.match_known_signature(group, f)
        if rec is not None:
            stale[rec["id"]] = stale.get(rec["id"], 0) + 1

    def judge(res):
        nonlocal raised, page_mismatch
        f = res["features"]
        if res.get("engine"):
            engine.append((f, res["engine"]))
            return
        if res["raised"]:
            raised += 1
            with Case(ctx, G_RAISE, f, nontrivial=False, contract=CONTRACT[G_RAISE]):
                pass
            notes.setdefault("write raised: " + res["raised"][:90], []).append(f)
            return
        for n in set(res["notes"]):
            key = n.split(":", 1)[1] if n.startswith("page at") else n.split("(")[0]
            key = "".join(ch for ch in key if not ch.isdigit()).strip()
            notes.setdefault("reader leniency used: " + key, []).append(None)
        if f.get("pages", 1) > 1 and f["rows"] >= 64 and res["parsed"] and res["pages_seen"] < 2:
            page_mismatch += 1
        with Case(ctx, G_STRUCT, f, snippet=make_snippet(f, G_STRUCT), contract=CONTRACT[G_STRUCT]) as c:
            if res["structure"]:
                c.fail(" | ".join(res["structure"][:3]))
            passed(G_STRUCT, f)
        if res["has_chunks"]:
            with Case(ctx, G_ENCST, f, snippet=make_snippet(f, G_ENCST), contract=CONTRACT[G_ENCST]) as c:
                if res["encstats_pt"]:
                    c.fail(res["encstats_pt"][0])
                passed(G_ENCST, f)
        if res["parsed"]:
            with Case(ctx, G_VALUES, f, snippet=make_snippet(f, G_VALUES), nontrivial=f["rows"] > 0,
                      contract=CONTRACT[G_VALUES]) as c:
                if res["values"]:
                    c.fail(" | ".join(res["values"][:3]))
                passed(G_VALUES, f)

    from concurrent.futures.process import BrokenProcessPool
    from runtime.harness import _run_alone, WorkerDied
    batch = workers * 24
    ex = ProcessPoolExecutor(max_workers=workers)
    try:
        for start in range(0, len(cases), batch):
            if time.time() - t0 > budget:
                msg = (f"c02: time budget of {budget:.0f}s reached after {judged} of {len(cases)} cases; "
                       f"the remaining cases (later option tuples of each data case) were not run")
                ctx.note(msg)
                print("NOTE " + msg, flush=True)
                break
            chunk = cases[start:start + batch]
            try:
                results = list(ex.map(run_case, chunk, chunksize=6))
            except BrokenProcessPool:
                # the real library killed a worker: re-run this batch one case per fresh process; the killing case is a failing
                # case (the interpreter must never die), not a crash of the checker
                ex.shutdown(wait=False, cancel_futures=True)
                ex = ProcessPoolExecutor(max_workers=workers)
                results = [_run_alone(run_case, c) for c in chunk]
            for case, res in zip(chunk, results):
                judged += 1
                if isinstance(res, WorkerDied):
                    with Case(ctx, G_STRUCT, dict(case, died=True), contract=CONTRACT[G_STRUCT]) as c:
                        c.fail(res.what())
                    continue
                judge(res)
    finally:
        ex.shutdown(wait=False, cancel_futures=True)
    if engine:
        raise RuntimeError(f"{len(engine)} cases could not be judged (engine failure); first: {engine[0]}")
    ctx.note(f"c02: {judged} writes, {raised} raised (nothing to judge)")
    for k, v in sorted(notes.items()):
        ctx.note(f"c02: {k} [{len(v)} cases]")
    for fid, n in sorted(stale.items()):
        msg = f"c02: known finding {fid}: {n} cases carrying its signature PASS now (repaired, or signature not exact)"
        ctx.note(msg)
        print("NOTE " + msg, flush=True)
    if page_mismatch:
        ctx.note(f"c02: {page_mismatch} cases asked for several pages but the chunk had one")
    ctx.trusted.append("cramjam codecs; numpy/pandas value semantics; spec/pqread.py validated against the "
                       "third-party fixtures of /repo/test-data on every run")
