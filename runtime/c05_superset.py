"""C05 (bounded, secondary part): filtered reads never lose a qualifying row.

Contract evaluated on the REAL `ParquetFile.to_pandas/count/iter_row_groups` and
`fastparquet.api.filter_row_groups`, for one dataset handle `pf` and one filter program F:

  (a) superset      every row of the dataset satisfying F (oracle: the SOURCE frame evaluated in plain
                    python, flat list = AND, list of lists = OR of ANDs, a null/NaN cell never satisfies)
                    is present in `pf.to_pandas(filters=F)`;
  (b) whole groups  `pf.to_pandas(filters=F)` equals the in-order concatenation of `pf[j].to_pandas()`
                    for an ascending list J of row groups;
  (c) agreement     `pf.count(filters=F) == len(result)`, the frames of `pf.iter_row_groups(filters=F)`
                    concatenate to the result, `filter_row_groups(pf, F, as_idx=True)` lists J.

Nothing is demanded about *which* non-qualifying row groups are dropped (pruning is an optimisation).
"""
import concurrent.futures as cf
import os

import numpy as np
import pandas as pd

from runtime import ds_read as D
from runtime.harness import Case, tmpdir, import_fastparquet

G = "c05.superset"
CONTRACT = ("to_pandas(filters=F) contains every source row satisfying F (null never satisfies), equals the "
            "in-order concatenation of whole row groups; count(filters=F), iter_row_groups(filters=F) and "
            "filter_row_groups(as_idx=True) agree with it")

DATASETS = ["flat1", "flat3", "flat4v2", "flat2v2", "hive0", "hive_pi", "hive_ps_pb", "hive_pt", "drill_pi_ps",
            "idx_dt", "one_row"] + list(D.LONG_TEXT)
# long_text*: text columns u (object, with None) / us (str dtype) whose cells are 74..133 bytes long and share their
# first 70 bytes, written with statistics in 3 / 2 row groups: constants are the real chunk bounds and their neighbours
# (test-data/evo is left out: its last file is mis-decoded by the plain full read - name '' / age 2 where the
# file's statistics say 'Alex' / 36 - so the full read cannot serve as the oracle side there; C03 territory)
FOREIGN = ["nation.plain.parquet", "test.parquet", "split", "multi_rgs_pyarrow", "datapage_v2.snappy.parquet",
           "spark-date-empty-rg.parq"]


# quick tier: columns per dataset (thorough: every column of every dataset).  Every column kind, every
# statistics state and every partition kind is still met at least once.
QUICK_COLS = {
    "flat1": ["rid", "f", "c", "b", "k"],
    "flat3": None,                                   # all columns
    "flat4v2": ["rid", "i", "s", "c", "t", "an", "b"],
    "flat2v2": ["rid", "s", "n", "an"],
    "hive0": ["rid", "i", "t", "an"],
    "hive_pi": ["pi", "rid", "f", "s", "c", "n", "k"],
    "hive_ps_pb": ["ps", "pb", "rid", "i"],
    "hive_pt": ["pt", "rid", "t", "f"],
    "drill_pi_ps": ["dir0", "dir1", "rid", "i", "c"],
    "idx_dt": ["t", "rid", "i", "s"],
    "one_row": ["rid", "s", "f"],
    "long_text": ["rid", "u", "us"],
    "long_text_hive_v2": ["u", "us"],
}

# ---------------------------------------------------------------------------------------------
# enumeration of constants and filter programs

def _kind(series):
    dt = series.dtype
    if isinstance(dt, pd.CategoricalDtype):
        if all(isinstance(x, str) for x in dt.categories):
            return "cat"
        dt = dt.categories.dtype      # partition columns of foreign data: numeric labels
    if dt.kind == "b" or str(dt) == "boolean":
        return "bool"
    if dt.kind in "iu" or str(dt).startswith(("Int", "UInt")):
        return "int"
    if dt.kind == "f":
        return "float"
    if dt.kind == "M":
        return "dt"
    if dt.kind == "O" or "str" in str(dt):
        return "str"
    return "other"


def _rg_bounds(view, col):
    """per row group: (min, max) over non-null python values of base column (None if all null)."""
    vals, na = D._pyvals(view.base[view.colmap.get(col, col)])
    out = []
    for j in range(view.nrg):
        lo, hi = view.offsets[j], view.offsets[j + 1]
        vs = [v for v, n in zip(vals[lo:hi], na[lo:hi]) if not n]
        try:
            out.append((min(vs), max(vs)) if vs else None)
        except TypeError:
            out.append(None)
    return out


def _py(v):
    return v.item() if isinstance(v, np.generic) else v


def constants(view, col, tier="quick"):
    """[(tag, value)]: at / just below / just above every chunk bound, outside the global range, interior,
    of another comparable type."""
    ser = view.base[view.colmap.get(col, col)]
    kind = _kind(ser)
    if kind == "str" and not all(isinstance(v, str) for v in ser.dropna().values):
        return "other", []          # bytes / nested objects: outside the filter grammar
    bounds = [b for b in _rg_bounds(view, col) if b is not None]
    if len(bounds) > 4:
        bounds = bounds[:3] + bounds[-1:]      # many row groups (foreign): first three and last
    out = []
    seen = set()

    def add(tag, v):
        key = (type(v).__name__, repr(v))
        if key not in seen:
            seen.add(key)
            out.append((tag, v))
    if not bounds:
        return kind, out

    def wide(bj):      # one step below/above: every chunk in the thorough tier, first and last chunk in quick
        return tier != "quick" or bj in (0, len(bounds) - 1)
    gmin, gmax = min(b[0] for b in bounds), max(b[1] for b in bounds)
    if kind == "int":
        for bj, (lo, hi) in enumerate(bounds):
            for m, t in ((lo, "min"), (hi, "max")):
                m = int(m)
                add(t, m)
                if wide(bj):
                    add(t + "-", m - 1), add(t + "+", m + 1)
        add("below", int(gmin) - 100), add("above", int(gmax) + 100)
        add("float_at", float(gmin)), add("float_at", float(gmax))
        add("float_between", float(gmin) + 0.5), add("float_between", float(gmax) - 0.5)
        add("float_out", float(gmax) + 0.5)
    elif kind == "float":
        for bj, (lo, hi) in enumerate(bounds):
            for m, t in ((lo, "min"), (hi, "max")):
                m = float(m)
                add(t, m)
                if wide(bj):
                    add(t + "-", m - 0.25), add(t + "+", m + 0.25)
        add("below", float(gmin) - 100.0), add("above", float(gmax) + 100.0)
        add("int_at", int(np.ceil(gmin))), add("int_at", int(np.floor(gmax)))
        add("int_out", int(np.floor(gmax)) + 1), add("int_out", int(np.ceil(gmin)) - 1)
        add("nan", float("nan"))
    elif kind in ("str", "cat"):
        for bj, (lo, hi) in enumerate(bounds):
            for m, t in ((lo, "min"), (hi, "max")):
                add(t, m)
                if wide(bj):
                    add(t + "+", m + "0"), add(t + "-", m[:-1])
        add("below", ""), add("above", "zzz")
        if kind == "cat":
            for lab in ser.cat.categories:
                add("label", lab)
    elif kind == "dt":
        h = pd.Timedelta(hours=1)
        for bj, (lo, hi) in enumerate(bounds):
            for m, t in ((lo, "min"), (hi, "max")):
                m = pd.Timestamp(m)
                add(t, m)
                if wide(bj):
                    add(t + "-", m - h), add(t + "+", m + h)
        add("below", pd.Timestamp(gmin) - pd.Timedelta(days=400)), add("above", pd.Timestamp(gmax) + pd.Timedelta(days=400))
        add("np_at", np.datetime64(pd.Timestamp(gmax).to_datetime64()))
    elif kind == "bool":
        add("min", False), add("max", True)
    return kind, out


def in_lists(view, col, consts):
    """[(tag, list)] for in / not in."""
    vals, na = D._pyvals(view.base[view.colmap.get(col, col)])
    bounds = _rg_bounds(view, col)
    out = [("empty", [])]
    byt = {}
    for t, v in consts:
        byt.setdefault(t, []).append(v)
    for t in ("below", "above"):
        if t in byt:
            out.append((t, [byt[t][0]]))
    if "below" in byt and "above" in byt:
        out.append(("outside2", [byt["below"][0], byt["above"][0]]))
    for j, b in enumerate(bounds):
        if b is None or (len(bounds) > 4 and 3 <= j < len(bounds) - 1):
            continue
        lo, hi = _py(b[0]), _py(b[1])
        out.append(("min", [lo])), out.append(("max", [hi])), out.append(("minmax", [lo, hi]))
        chunk = sorted({v for v, n in zip(vals[view.offsets[j]:view.offsets[j + 1]], na[view.offsets[j]:view.offsets[j + 1]]) if not n})
        out.append(("all_of_chunk", [_py(v) for v in chunk]))
        inner = [_py(v) for v in chunk[1:-1]]
        if inner:
            out.append(("inner", inner[:3]))
    for t in ("min+", "max-", "float_between", "float_at", "int_at", "label"):
        if t in byt:
            out.append((t, byt[t][:2]))
    # dedupe
    seen, res = set(), []
    for t, L in out:
        k = repr(L)
        if k not in seen:
            seen.add(k)
            res.append((t, L))
    return res


def single_atoms(view, cols, tier="quick"):
    """-> list of (col, kind, op, ctag, val)"""
    atoms = []
    for col in cols:
        kind, consts = constants(view, col, tier)
        if kind == "other" or not consts:
            continue
        for op in D.SCALAR_OPS:
            for tag, v in consts:
                if op == "=" and tier == "quick" and tag not in ("min", "max", "below", "above"):
                    continue          # '=' is the alias of '==': bounds and outside only in the quick tier
                atoms.append((col, kind, op, tag, v))
        for op in ("in", "not in"):
            for tag, L in in_lists(view, col, consts):
                atoms.append((col, kind, op, "list:" + tag, L))
    return atoms


def programs(view, cols, tier):
    """-> list of (shape, F, feature dict)."""
    atoms = single_atoms(view, cols, tier)
    out = []
    for (col, kind, op, tag, v) in atoms:
        out.append(("atom", [(col, op, v)], {"col": col, "kind": kind, "op": op, "const": tag}))
    # AND lists / OR-of-ANDs from a deterministic spread of the atoms (different and same columns)
    n = len(atoms)
    if n >= 4:
        step = 7 if tier == "quick" else 3
        picks = atoms[::step]
        m = len(picks)
        for a in range(m):
            x, y, z = picks[a], picks[(a * 5 + 3) % m], picks[(a * 11 + 1) % m]
            fx, fy, fz = (x[0], x[2], x[4]), (y[0], y[2], y[4]), (z[0], z[2], z[4])
            ft = lambda *ats: {"col": "+".join(t[0] for t in ats), "kind": "+".join(t[1] for t in ats),
                               "op": "+".join(t[2] for t in ats), "const": "+".join(t[3] for t in ats)}
            out.append(("and2", [fx, fy], ft(x, y)))
            out.append(("or2", [[fx], [fy]], ft(x, y)))
            out.append(("or_and", [[fx, fy], [fz]], ft(x, y, z)))
            if a % 3 == 0:
                out.append(("and3_nested", [[fx, fy, fz]], ft(x, y, z)))
        # range on one column: lo <= c <= hi, and its complement as OR
        for col in cols:
            cs = [t for t in atoms if t[0] == col and t[2] == ">=" and t[3] in ("min", "max", "min+", "max-")]
            ds_ = [t for t in atoms if t[0] == col and t[2] == "<=" and t[3] in ("min", "max", "min+", "max-")]
            for a_, b_ in zip(cs[:3], ds_[1:4]):
                f = {"col": col, "kind": a_[1], "op": ">=&<=", "const": a_[3] + "+" + b_[3]}
                out.append(("range", [(col, ">=", a_[4]), (col, "<=", b_[4])], f))
                out.append(("range_or", [[(col, "<", a_[4])], [(col, ">", b_[4])]], dict(f, op="<|>")))
    return out


# ---------------------------------------------------------------------------------------------
# regions of the two known defects (features only; the oracle never looks at this)

def _has_minmax(pf, j, col):
    for ch in pf.row_groups[j].columns:
        if ".".join(ch.meta_data.path_in_schema) == col:
            st = ch.meta_data.statistics
            if st is None:
                return False
            return (st.max is not None or st.max_value is not None) and (st.min is not None or st.min_value is not None)
    return False


def recorded_bounds(view, j, col):
    """(min, max) the chunk statistics carry, or None when the chunk has no min/max.  Presence is read from
    the metadata; the values are recomputed from the source (statistics are exact, C04) - for a categorical
    column in CATEGORY order, which is what the writer records."""
    if not _has_minmax(view.pf, j, col):
        return None
    ser = view.base[view.colmap.get(col, col)]
    if isinstance(ser.dtype, pd.CategoricalDtype):
        present = set(ser.iloc[view.offsets[j]:view.offsets[j + 1]].dropna().astype(object))
        labs = [c for c in ser.cat.categories if c in present]
        return (labs[0], labs[-1]) if labs else None
    tb = _rg_bounds(view, col)[j]
    return (_py(tb[0]), _py(tb[1])) if tb is not None else None


def _cast_changes(view, col, val):
    """Partition column with an integer dtype in the pandas metadata: the library casts the filter constant to
    that dtype (1.5 -> 1).  -> the cast constant when it differs from the constant, else None."""
    ser = view.base[view.colmap.get(col, col)]
    if view.ds.src is None or ser.dtype.kind not in "iu":
        return None
    try:
        if isinstance(val, (list, tuple)):
            c = [int(x) for x in val]
            return c if any(a != b_ for a, b_ in zip(c, val)) else None
        if isinstance(val, float) and val == val and int(val) != val:
            return int(val)
    except (TypeError, ValueError):
        return None
    return None


def ref_excluded(op, val, vmin, vmax):
    """Reference decision 'no value in [vmin, vmax] can satisfy `op val`' (sound given true bounds)."""
    try:
        if op in ("==", "="):
            return bool(val < vmin or val > vmax)
        if op == "!=":
            return bool(vmin == vmax and val == vmin)
        if op == "<":
            return bool(val <= vmin)
        if op == "<=":
            return bool(val < vmin)
        if op == ">":
            return bool(val >= vmax)
        if op == ">=":
            return bool(val > vmax)
        if op == "in":
            # the standard interval test on the sorted list (also defined for an inverted "interval", which is
            # what category-order bounds of a categorical can be)
            import bisect
            sv = sorted(val)
            if not sv:
                return True
            if vmin == vmax:
                return not any(vmin == x for x in sv)
            return bisect.bisect_left(sv, vmin) == bisect.bisect_right(sv, vmax)
        if op == "not in":
            return bool(vmin == vmax and any(vmin == x for x in val))
    except TypeError:
        return False
    return False


def part_list_raises(view, F):
    """in / not in on a partition column whose pandas-metadata dtype is bool or datetime: the library converts
    the LIST with the scalar converter of that dtype and raises (TypeError / ValueError)."""
    if view.ds.src is None:
        return None
    for g in D.normalise(F):
        for (col, op, val) in g:
            if col in view.partcols and op in ("in", "not in") and view.pf.file_scheme == "hive":
                k = view.base[view.colmap.get(col, col)].dtype.kind
                if k in "bM":
                    return "partlist_raises"
    return None


def defect_region(view, F, sat):
    """'no' | 'notin' | 'catstats' | 'notin+catstats' | 'maybe'.
    notin    = documented region of api.filter_not_in: chunk with recorded min != max and (min in values or
               max in values).
    catstats = categorical chunk whose recorded (min, max) are taken in CATEGORY order and do not bound its
               labels in string order, and the reference interval decision on the recorded bounds excludes
               the atom.
    A label is returned when some row group holding a satisfying row has EVERY OR-group excluded this way
    (then the row group is certainly dropped).  'maybe': only the OR-groups that have a satisfying row are
    excluded this way; whether the row group survives then depends on the (sound) pruning of the other groups -
    such cases are not enumerated."""
    groups = D.normalise(F)
    verdict = set()
    maybe = False
    for j in range(view.nrg):
        lo, hi = view.offsets[j], view.offsets[j + 1]
        if not sat[lo:hi].any():
            continue
        hit = []
        has_sat = []
        for g in groups:
            h = None
            for (col, op, val) in g:
                if col in view.partcols:
                    cv = _cast_changes(view, col, val)
                    if cv is not None and view.pf.file_scheme == "hive":
                        v0 = _py(view.base[view.colmap.get(col, col)].iloc[lo])
                        if ref_excluded(op, cv, v0, v0):
                            h = "partcast"
                            break
                    continue
                rb = recorded_bounds(view, j, col)
                if rb is None:
                    continue
                vmin, vmax = rb
                if op == "not in" and len(val) and vmin != vmax and (any(vmin == x for x in val) or any(vmax == x for x in val)):
                    h = "notin"
                    break
                tb = _rg_bounds(view, col)[j]
                if tb is not None and isinstance(vmin, str) and (tb[0] < vmin or tb[1] > vmax) and ref_excluded(op, val, vmin, vmax):
                    h = "catstats"
                    break
            hit.append(h)
            has_sat.append(D.filter_sat(view.base.iloc[lo:hi], [g], colmap=view.colmap).any())
        if all(hit):
            verdict.update(hit)
        elif all(h for h, s_ in zip(hit, has_sat) if s_):
            maybe = True
    if verdict:
        return "+".join(sorted(verdict))
    return "maybe" if maybe else "no"


# ---------------------------------------------------------------------------------------------

def check_one(view, F, k=0):
    """Evaluate the contract; returns None or a description of the violation."""
    pf = view.pf
    fpapi = __import__("fastparquet.api").api
    # every 4th case reads all columns; the others the key column + the filter's data columns (the property is
    # about rows; column selection is C06's subject)
    rcols = None
    if k % 4 != 0 and view.keycols:
        rcols = list(view.keycols)
        for g in D.normalise(F):
            for a in g:
                if a[0] not in rcols and a[0] not in view.partcols and a[0] != view.ds.index_col:
                    rcols.append(a[0])
    got = pf.to_pandas(filters=F, columns=rcols) if rcols else pf.to_pandas(filters=F)
    idx = fpapi.filter_row_groups(pf, F, as_idx=True)
    if list(idx) != sorted(set(idx)):
        return "filter_row_groups(as_idx=True) is not an ascending selection: %s" % (idx,)
    J = [j for j in idx if view.rg_rows[j] > 0]
    exp = view.concat(J)
    if rcols:
        exp = exp[rcols]
    d = D.explain_diff(got, exp, index_values=view.index_values_ok)
    if d:
        J2 = view.match_row_groups(got) if len(view.full) <= 200 and not rcols else None
        if J2 is None:
            return "result is not the in-order concatenation of whole row groups (selected %s): %s" % (J, d)
        return "filter_row_groups(as_idx=True)=%s but the result is the concatenation of %s" % (J, J2)
    sat = view.sat(F)
    kept = np.isin(view.rg_of_row, J)
    lost = sat & ~kept
    if lost.any():
        r = int(np.flatnonzero(lost)[0])
        return "row lost: position %d (row group %d) satisfies F but is not returned; %d lost of %d satisfying" % (
            r, int(view.rg_of_row[r]), int(lost.sum()), int(sat.sum()))
    n = pf.count(filters=F)
    if n != len(got):
        return "count(filters=F)=%r but to_pandas(filters=F) has %d rows" % (n, len(got))
    if got.shape[1] == 0:
        return None
    cols = None if k % 4 == 0 else view.keycols
    its = list(pf.iter_row_groups(filters=F, columns=cols) if cols else pf.iter_row_groups(filters=F))
    tot = sum(len(x) for x in its)
    if tot != len(got):
        return "iter_row_groups(filters=F) yields %d rows, to_pandas %d" % (tot, len(got))
    if its:
        cat = D.concat_frames(its)
        ref = pf.to_pandas(filters=F) if (rcols and not cols) else got
        d = D.explain_diff(cat, ref[cols] if cols else ref, index_values=view.index_values_ok)
        if d:
            return "iter_row_groups(filters=F) concatenation differs: " + d
    return None


def _snippet(dsname, F):
    body = '''
F = %r
full = pf.to_pandas()
got = pf.to_pandas(filters=F)
# oracle on the source frame: null never satisfies; flat list = AND, list of lists = OR of ANDs
def atom(col, op, val):
    col = COLMAP.get(col, col)
    s = base[col].astype(object)
    na = pd.isna(base[col]).values
    f = {"==": lambda v: v == val, "=": lambda v: v == val, "!=": lambda v: v != val, "<": lambda v: v < val,
         "<=": lambda v: v <= val, ">": lambda v: v > val, ">=": lambda v: v >= val,
         "in": lambda v: any(v == x for x in val), "not in": lambda v: not any(v == x for x in val)}[op]
    return np.array([(not n) and bool(f(v)) for v, n in zip(s.values, na)], dtype=bool)
COLMAP = {"dir%%d" %% k: p for k, p in enumerate([c for c in ("pi", "ps", "pb", "pt") if src is not None and c in src.columns])} if pf.file_scheme == "drill" else {}
base = src.iloc[full["rid"].values].reset_index(drop=True) if src is not None else full.reset_index(drop=True)
groups = [F] if F and isinstance(F[0][0], str) else F
sat = np.zeros(len(base), dtype=bool)
for g in groups:
    m = np.ones(len(base), dtype=bool)
    for a in g:
        m &= atom(*a)
    sat |= m
key = "rid" if src is not None else None
if key:
    lost = set(full["rid"].values[sat]) - set(got["rid"].values)
    print("satisfying rows:", int(sat.sum()), "returned rows:", len(got), "lost rids:", sorted(lost))
    VIOLATED = bool(lost)
else:
    print("satisfying rows:", int(sat.sum()), "returned rows:", len(got))
    VIOLATED = len(got) < int(sat.sum())
VIOLATED = VIOLATED or pf.count(filters=F) != len(got) or sum(len(x) for x in pf.iter_row_groups(filters=F)) != len(got)
''' % (F,)
    return D.make_snippet(dsname, "import pandas as pd\nfrom pandas import Timestamp\nfrom numpy import nan\n" + body)


def _view(fp, root, name):
    if name.startswith("foreign:"):
        ds = D.foreign_all([name[len("foreign:"):]])[0]
    else:
        ds = D.build_one(fp, root, name, write=False)
    v = D.View(fp, ds)
    v.index_values_ok = True
    v.stats = fp.api.statistics(v.pf)
    v.keycols = ["rid"] if ds.src is not None else [c for c in v.pf.columns][:1]
    if ds.index_kind == "i":
        v.index_values_ok = D.index_alias_ok(fp, "i")
    return v


def _filter_columns(view):
    pf = view.pf
    cols = []
    for c in list(pf.columns) + list(pf.cats):
        bc = view.colmap.get(c, c)
        if bc in view.base.columns:
            cols.append(c)
    return cols


def run_dataset(args):
    """Worker: evaluate every program on one dataset. Returns [(features, ok, what, nontrivial, F)]."""
    root, name, tier, colsel = args
    fp = import_fastparquet()
    view = _view(fp, root, name)
    cols = _filter_columns(view)
    if view.ds.foreign:
        cols = cols[:4]
    elif tier == "quick" and QUICK_COLS.get(name):
        cols = [c for c in QUICK_COLS[name] if c in cols]
    progs = programs(view, cols, tier)
    if colsel is not None:
        progs = progs[colsel[0]::colsel[1]]
    res = []
    for shape, F, ft in progs:
        feats = {"ds": view.ds.name, "shape": shape}
        feats.update(ft)
        try:
            sat = view.sat(F)
        except TypeError:
            continue            # constants not comparable with the column: outside the grammar
        region = defect_region(view, F, sat)
        if region == "maybe":
            continue
        plr = part_list_raises(view, F)
        if plr:
            if shape != "atom":
                continue        # whether the raising atom is reached depends on the pruning of its neighbours
            region = plr
        feats["known_region"] = region
        feats["part_col"] = any(a[0] in view.partcols for g in D.normalise(F) for a in g)
        try:
            what = check_one(view, F, len(res))
        except Exception as e:   # a raising filtered read is a failed contract
            what = "%s: %s" % (type(e).__name__, str(e)[:200])
        res.append((feats, what is None, what, len(view.full) > 0, F))
    return res


def run_bounded(ctx):
    fp = import_fastparquet()
    ctx.bounded_group(G, rule=(
        "datasets %s + foreign fixtures %s (each written once by the real writer: 1..4 row groups, multi-page, "
        "v1/v2 pages, hive/drill partitions on int/str/bool/datetime, stats True/False/auto/list, all-null chunk, "
        "NaN, nullable Int64, categorical, text cells of 74..133 bytes sharing a 70-byte prefix with statistics on) x every column x operators {==,=,!=,<,<=,>,>=} x constants "
        "{each chunk's min/max, one step below/above each, far outside, other comparable type (int<->float), NaN} "
        "and {in, not in} x lists {empty, [min], [max], [min,max], all values of a chunk, inner values, outside}; "
        "plus AND pairs, OR pairs, OR-of-AND and nested single group built from a fixed stride over the atoms, "
        "closed ranges and their complements. Cases whose outcome under the known filter_not_in region depends on "
        "which other OR-group survives ('maybe') are not enumerated. distinct = (dataset, shape, column(s), "
        "operator(s), constant class(es)); nontrivial = dataset has rows." % (DATASETS, FOREIGN)))
    with tmpdir("verif-c05-") as root:
        names = list(DATASETS)
        D.build_all(fp, root, names)
        tasks = []
        for n in names:
            split = 1 if n == "one_row" else 6
            for k in range(split):
                tasks.append((root, n, ctx.tier, (k, split) if split > 1 else None))
        for f in FOREIGN:
            split = 4 if f in ("split", "test.parquet") else 1
            for k in range(split):
                tasks.append((root, "foreign:" + f, ctx.tier, (k, split) if split > 1 else None))
        workers = min(16, os.cpu_count() or 4)
        from runtime.harness import robust_map, WorkerDied
        results = robust_map(run_dataset, tasks, workers)
        for k, r in enumerate(results):
            if isinstance(r, WorkerDied):      # the real library killed the process: a failing case, not a checker crash
                results[k] = [({"ds": tasks[k][1], "kind": "process died"}, False, r.what(), True, None)]
    for res in results:
        for feats, ok, what, nontrivial, F in res:
            with Case(ctx, G, feats, snippet=None if ok or F is None else _snippet(feats["ds"], F), nontrivial=nontrivial, contract=CONTRACT) as c:
                if not ok:
                    c.fail(what)
