"""C06 (bounded): every partial read agrees with the corresponding part of the full read.

Metamorphic contract on ONE handle `pf` with `full = pf.to_pandas()` and the row-group offsets taken from the
metadata: every access program P (an expression over pf) must return `E(full)` - the rows / columns of the full
read it stands for.  Programs (and their expectations) are python source strings, evaluated with the same helper
code here and in the replay snippet.

Equality (`same`): same column names (same ORDER when the program does not name columns itself; when it does, every
requested column present and equal by name), same dtypes up to categorical label lists, same null positions and
values, same index name and values; an automatically generated RangeIndex is compared by LENGTH only (labels are
positional, as the statement says).  Reported counts - count(), len(pf), info, per-row-group num_rows, per slice -
must equal the rows actually read.

Index values of a named index whose dtype is neither datetime nor categorical are uninitialised memory on the
pinned tree under pandas 3 (dataframe.empty hands out a view that does not alias the frame's index).  That defect
is checked deterministically by the group c06.index_views (known finding); while the probe fails, the end-to-end
groups do not compare index VALUES of such an index (name and length still are), so that the result does not
depend on what the allocator left in memory.  MultiIndex reads segfault in this environment and are not run
in-process.
"""
import concurrent.futures as cf
import os

import numpy as np
import pandas as pd

import re
from runtime import ds_read as D
from runtime.harness import Case, tmpdir, import_fastparquet

G = "c06.partial"
G_IDX = "c06.index_views"
CONTRACT = "P(pf) == the part of pf.to_pandas() that the access program P stands for; reported counts == rows read"

DATASETS = list(D.QUICK) + list(D.CAT_GROWS) + list(getattr(D, "TZ_ONE_ROW", []))
FOREIGN = ["nation.plain.parquet", "test.parquet", "split", "multi_rgs_pyarrow", "datapage_v2.snappy.parquet",
           "foo.parquet", "no_columns.parquet", "empty.parquet", "spark-date-empty-rg.parq", "baz.parquet",
           "test-timezone.parquet", "decimals.parquet", "mr_times.parq", "metas.parq", "evo"]

HELPERS_SRC = r'''
import pickle, copy, io, re
import numpy as np, pandas as pd

def _vals(s):
    if isinstance(s, pd.Index):
        s = s.to_series()
    if isinstance(s.dtype, pd.CategoricalDtype):
        s = s.astype(object)
    na = np.asarray(pd.isna(s))
    out = []
    for v, n in zip(s.astype(object).values, na):
        if n:
            out.append(None)
        elif isinstance(v, np.generic):
            out.append(v.item())
        elif isinstance(v, (list, dict, np.ndarray)):
            out.append(repr(v))
        else:
            out.append(v)
    return out

def _dt(s):
    return "category" if isinstance(s.dtype, pd.CategoricalDtype) else str(s.dtype)

def same(got, exp, by_name=False, index_values=True):
    """None if equal, else a message."""
    gc, ec = [str(c) for c in got.columns], [str(c) for c in exp.columns]
    if by_name:
        if sorted(gc) != sorted(ec):
            return "columns %s != expected %s" % (gc, ec)
    elif gc != ec:
        return "columns %s != expected %s" % (gc, ec)
    if len(got) != len(exp):
        return "rows %d != expected %d" % (len(got), len(exp))
    for c in exp.columns:
        a, b = got[c], exp[c]
        if _dt(a) != _dt(b):
            return "dtype of %r: %s != expected %s" % (c, _dt(a), _dt(b))
        va, vb = _vals(a), _vals(b)
        if va != vb:
            k = next(i for i, (x, y) in enumerate(zip(va, vb)) if x != y)
            return "column %r row %d: %r != expected %r" % (c, k, va[k], vb[k])
    gi, ei = got.index, exp.index
    nm = lambda names: [None if (n is None or re.match(r"__index_level_\d+__$", str(n))) else n for n in names]
    if nm(gi.names) != nm(ei.names):
        return "index names %s != expected %s" % (list(gi.names), list(ei.names))
    if isinstance(gi, pd.RangeIndex) and isinstance(ei, pd.RangeIndex):
        return None           # automatically generated: positional labels, length already compared
    if _dt(gi) != _dt(ei):
        return "index dtype %s != expected %s" % (_dt(gi), _dt(ei))
    if index_values and _vals(gi) != _vals(ei):
        return "index values %s != expected %s" % (_vals(gi)[:6], _vals(ei)[:6])
    return None

def cat(frames, like):
    frames = list(frames)
    if not frames:
        return like.iloc[:0]
    out = pd.concat(frames, ignore_index=all(isinstance(f.index, pd.RangeIndex) for f in frames))
    out.index.name = frames[0].index.name
    for c in frames[0].columns:
        if all(isinstance(f[c].dtype, pd.CategoricalDtype) for f in frames) and not isinstance(out[c].dtype, pd.CategoricalDtype):
            out[c] = out[c].astype("category")
    if all(isinstance(f.index.dtype, pd.CategoricalDtype) for f in frames) and not isinstance(out.index.dtype, pd.CategoricalDtype):
        out.index = pd.CategoricalIndex(out.index, name=out.index.name)
    return out

def part(full, offs, J):
    """rows of the full read belonging to the row groups J (in the order of J)"""
    return cat([full.iloc[offs[j]:offs[j + 1]] for j in J], full)

def counts(h):
    """every row count the handle reports from metadata"""
    return {"count": int(h.count()), "len": len(h), "info_rows": int(h.info["rows"]), "info_rgs": int(h.info["row_groups"]),
            "per_rg": [int(rg.num_rows) for rg in h.row_groups]}

def on_filelike(fastparquet, path, kind, steps, ref, index_values=True):
    """COMPOSITION of reads on ONE handle h = ParquetFile(<one file-like object>): the caller opens the object
    (kind 'file' = open(path, 'rb'), 'bytesio' = io.BytesIO of the file's bytes), runs the access steps
    [(source over h, expected source over the reference reads in `ref`, compare-by-name)] in order and looks at its
    own file object after every step.  -> list of differences; [] = every step returned the part of the reference
    full read it stands for and the caller's file object was never closed behind the caller's back."""
    if kind == "file":
        f = open(path, "rb")
    else:
        with open(path, "rb") as g:
            f = io.BytesIO(g.read())
    out = []
    try:
        env = dict(globals())
        env.update(ref)
        env["h"] = fastparquet.ParquetFile(f)
        for k, (got_src, exp_src, by_name) in enumerate(steps):
            try:
                exp = eval(exp_src, env)
                got = eval(got_src, env)
                if isinstance(exp, pd.DataFrame):
                    msg = same(got, exp, by_name=by_name, index_values=index_values)
                else:
                    msg = None if got == exp else "%r != expected %r" % (got, exp)
            except Exception as e:
                msg = "%s: %s" % (type(e).__name__, str(e)[:120])
            if msg is not None:
                out.append("step %d %s: %s" % (k, got_src, msg))
            if f.closed and not any("file object is closed" in m for m in out):
                out.append("after step %d (%s) the caller's file object is closed" % (k, got_src))
            if len(out) >= 3:
                break
    finally:
        f.close()
    return out
'''

_ns = {}
exec(HELPERS_SRC, _ns)
same, part, cat, counts = _ns["same"], _ns["part"], _ns["cat"], _ns["counts"]
REF_SRC = "dict(full=full, full0=full0, offs=offs, counts0=counts0)"


def filelike_chains(info):
    """Compositions of reads on one file-object handle `h`: name -> [(got over h, expected over the reference reads,
    compare by name)].  Every chain performs at least two reads (a single read of a file object is `filelike`)."""
    nrg, rows, cols = info["nrg"], info["rows"], info["cols"]
    allrg = list(range(nrg))
    FULL = ("h.to_pandas()", "full", False)
    ITER = ("cat(list(h.iter_row_groups()), full)", "part(full, offs, %r)" % (allrg,), False)
    PIECES = ("[len(x) for x in h.iter_row_groups()]", "[n for n in %r if n]" % (info["rg_rows"],), False)
    COUNTS = ("counts(h)", "counts0", False)

    def pick(i):
        return ("h[%d].to_pandas()" % i, "part(full, offs, [%d])" % (i % nrg), False)

    def sl(s):
        return ("h[%s].to_pandas()" % s, "part(full, offs, %r)" % (list(range(nrg)[eval(s)]),), False)

    def head(n):
        return ("h.head(%d)" % n, "full.iloc[:%d]" % n, False)

    picks = [pick(i) for i in allrg] + ([pick(-1)] if nrg else [])
    slices = [sl(s) for s in slices_for(nrg)[:7]]
    heads = [head(n) for n in sorted({0, 1, 3, rows // 2, rows, rows + 1})]
    c2 = [c for c in cols if c not in info["parts"]][:2]
    colsteps = [("h.to_pandas(columns=%r)" % (c2,), "full[%r]" % (c2,), True),
                ("cat(list(h.iter_row_groups(columns=%r)), full[%r])" % (c2, c2), "full[%r]" % (c2,), True),
                ("h.head(5, columns=%r)" % (c2,), "full[%r].iloc[:5]" % (c2,), True)] if c2 else []
    # iter_row_groups drops frames without columns (known finding of access 'iter'): not composed for such files
    it = [ITER, PIECES] if cols else []
    chains = {
        "full,full": [FULL, FULL],
        "full,iter": [FULL] + it + [FULL],
        "iter,iter": it + it,
        "full,picks": [FULL] + picks,
        "picks": picks + picks[:1],
        "full,slices": [FULL] + slices,
        "slices,full": slices + [FULL],
        "full,heads": [FULL] + heads,
        "heads,full": heads + [FULL],
        "columns": [FULL] + colsteps + [FULL],
        "index=False": [FULL, ("h.to_pandas(index=False)", "full0", True), FULL],
        "derived-handles": ([("h[::-1][0].to_pandas()", "part(full, offs, [%d])" % (nrg - 1), False), pick(0),
                             ("cat(list(h[1:].iter_row_groups()), full)", "part(full, offs, %r)" % (allrg[1:],), False),
                             ("h[1:].head(2)", "part(full, offs, %r).iloc[:2]" % (allrg[1:],), False)] if nrg >= 2 and cols
                            else []),
        "mixed": [FULL] + it[:1] + picks[-1:] + slices[2:4] + heads[2:3] + colsteps[:1] + [COUNTS, FULL] + it[:1] + heads[-1:],
        "counts-between": [COUNTS, FULL, COUNTS] + picks[:1] + [COUNTS],
    }
    return {k: v for k, v in chains.items() if len(v) >= 2}


# ---------------------------------------------------------------------------------------------
# enumeration of access programs: (features, got_src, exp_src, by_name)

def slices_for(nrg):
    out = []
    if nrg == 0:
        return ["slice(None)", "slice(0, 1)", "slice(None, None, -1)"]
    cands = ["slice(None)", "slice(0, 1)", "slice(1, None)", "slice(None, -1)", "slice(None, None, 2)", "slice(1, None, 2)",
             "slice(None, None, -1)", "slice(-1, None)", "slice(-2, None)", "slice(1, 3)", "slice(0, 0)", "slice(5, 9)",
             "slice(2, 0, -1)", "slice(None, None, 3)", "slice(-1, -3, -1)"]
    seen = set()
    for c in cands:
        sel = tuple(range(nrg)[eval(c)])
        if (sel, c in ("slice(0, 0)", "slice(5, 9)")) not in seen:
            seen.add((sel, c in ("slice(0, 0)", "slice(5, 9)")))
            out.append(c)
    return out


def programs(info, tier):
    """info: dict(nrg, rows, cols (data columns incl. partition), parts, index_col, index_kind, simple: bool, foreign)"""
    nrg, rows, cols, parts = info["nrg"], info["rows"], info["cols"], info["parts"]
    data_cols = [c for c in cols if c not in parts]
    P = []

    def add(kind, detail, got, exp, by_name=False, **extra):
        f = {"access": kind, "detail": detail}
        f.update(extra)
        P.append((f, got, exp, by_name))

    # 1. column subsets / permutations
    colsets = []
    for c in cols:
        colsets.append([c])
    if len(cols) > 1:
        colsets.append(list(reversed(cols)))
        colsets.append(cols[1:] + cols[:1])
        colsets.append(cols[::2])
        colsets.append(list(reversed(cols[::2])))
        colsets.append(cols[-2:])
    if parts and data_cols:
        colsets.append([parts[0], data_cols[0]])
        colsets.append([data_cols[-1]] + parts)
    if info["foreign"] and len(colsets) > 12:
        colsets = colsets[:6] + colsets[-6:]
    seen = set()
    for cs in colsets:
        if tuple(cs) in seen:
            continue
        seen.add(tuple(cs))
        add("columns", "n=%d%s" % (len(cs), "" if cs == sorted(cs, key=cols.index) else ",permuted"),
            "pf.to_pandas(columns=%r)" % (cs,), "full[%r]" % (cs,), True, cols=",".join(cs))
    # 2. picks and slices of row groups
    for i in list(range(nrg)) + ([-1] if nrg else []):
        add("pick", "i=%d" % i, "pf[%d].to_pandas()" % i, "part(full, offs, [%d])" % (i % nrg))
    for sl in slices_for(nrg):
        sel = list(range(nrg)[eval(sl)])
        add("slice", sl, "pf[%s].to_pandas()" % sl, "part(full, offs, %r)" % (sel,), nsel=len(sel))
    # 3. iteration
    add("iter", "plain", "cat(list(pf.iter_row_groups()), full)", "part(full, offs, %r)" % (list(range(nrg)),))
    add("iter", "pieces", "[len(x) for x in pf.iter_row_groups()]", "[n for n in rg_rows if n]")
    if data_cols:
        cs = data_cols[:2]
        add("iter", "columns", "cat(list(pf.iter_row_groups(columns=%r)), full[%r])" % (cs, cs), "full[%r]" % (cs,), True)
    if info.get("catcols"):
        add("iter", "categories", "cat(list(pf.iter_row_groups(categories=%r)), full)" % (info["catcols"],), "full")
        add("iter", "categories+columns", "cat(list(pf.iter_row_groups(categories=%r, columns=%r)), full[%r])" % (
            info["catcols"], info["catcols"], info["catcols"]), "full[%r]" % (info["catcols"],), True)
    add("iter", "index=False", "cat(list(pf.iter_row_groups(index=False)), full0)", "full0", True)
    # 4. head(n) for every n
    hs = range(0, rows + 2) if rows <= 64 else list(range(0, 4)) + [rows // 2, rows - 1, rows, rows + 1] + \
        sorted({o + d for o in info["offs"] for d in (-1, 0, 1) if 0 <= o + d <= rows + 1})[:40]
    for n in hs:
        add("head", "n=%d" % n, "pf.head(%d)" % n, "full.iloc[:%d]" % n)
    if data_cols:
        for n in (1, max(1, rows // 2), rows + 1):
            add("head", "n=%d,columns" % n, "pf.head(%d, columns=%r)" % (n, data_cols[:2]), "full[%r].iloc[:%d]" % (data_cols[:2], n), True)
    # 5. index choices
    add("index", "None", "pf.to_pandas(index=None)", "full")
    if info["index_col"]:
        # the default read is the index=False read with the recorded index column moved into the index
        add("index", "default-vs-False", "full", "full0.set_index([%r])" % info["index_col"], True)
    for c in info["index_candidates"]:
        add("index", "name:" + info["kinds"].get(c, "?"), "pf.to_pandas(index=%r)" % c, "full0.set_index([%r])" % c, True,
            index_col=c)
        add("index", "list1:" + info["kinds"].get(c, "?"), "pf.to_pandas(index=[%r])" % c, "full0.set_index([%r])" % c, True,
            index_col=c)
    # 6. file-like
    if info["simple"]:
        add("filelike", "full", "fastparquet.ParquetFile(open(path, 'rb')).to_pandas()", "full")
        add("filelike", "bytesio", "fastparquet.ParquetFile(io.BytesIO(open(path, 'rb').read())).to_pandas()", "full")
        add("filelike", "counts", "counts(fastparquet.ParquetFile(open(path, 'rb')))", "counts(pf)")
    # 7. pickle / copy
    add("pickle", "full", "pickle.loads(pickle.dumps(pf)).to_pandas()", "full")
    add("pickle", "counts", "counts(pickle.loads(pickle.dumps(pf)))", "counts(pf)")
    add("copy", "copy", "copy.copy(pf).to_pandas()", "full")
    add("copy", "deepcopy", "copy.deepcopy(pf).to_pandas()", "full")
    add("copy", "deepcopy-counts", "counts(copy.deepcopy(pf))", "counts(pf)")
    # 8. reported counts
    add("counts", "total", "counts(pf)", "{'count': len(full), 'len': %d, 'info_rows': len(full), 'info_rgs': %d, "
        "'per_rg': [len(pf[j].to_pandas()) for j in range(%d)]}" % (nrg, nrg, nrg))
    for sl in slices_for(nrg)[:8]:
        sel = list(range(nrg)[eval(sl)])
        add("counts", "slice " + sl, "counts(pf[%s])" % sl,
            "(lambda fr: {'count': len(fr), 'len': %d, 'info_rows': len(fr), 'info_rgs': %d, 'per_rg': %r})(pf[%s].to_pandas())" % (
                len(sel), len(sel), [info["rg_rows"][j] for j in sel], sl))
    add("counts", "parent-unchanged", "(pf[0:1] if len(pf) else pf, pf[::-1], counts(pf))[2]", "counts0")
    # 9. compositions of two
    c2 = data_cols[:2] if data_cols else cols[:1]
    for sl in slices_for(nrg)[:9]:
        sel = list(range(nrg)[eval(sl)])
        if c2:
            add("slice+columns", sl, "pf[%s].to_pandas(columns=%r)" % (sl, c2), "part(full, offs, %r)[%r]" % (sel, c2), True)
        add("slice+pickle", sl, "pickle.loads(pickle.dumps(pf[%s])).to_pandas()" % sl, "part(full, offs, %r)" % (sel,))
        add("pickle+slice", sl, "pickle.loads(pickle.dumps(pf))[%s].to_pandas()" % sl, "part(full, offs, %r)" % (sel,))
        add("slice+iter", sl, "cat(list(pf[%s].iter_row_groups()), full)" % sl, "part(full, offs, %r)" % (sel,))
        add("slice+index=False", sl, "pf[%s].to_pandas(index=False)" % sl, "part(full0, offs, %r)" % (sel,), True)
        srows = sum(info["rg_rows"][j] for j in sel)
        for n in sorted({0, 1, srows // 2, srows, srows + 1}):
            add("slice+head", "%s,n=%d" % (sl, n), "pf[%s].head(%d)" % (sl, n), "part(full, offs, %r).iloc[:%d]" % (sel, n))
    if nrg >= 2:
        add("slice+slice", "[1:][::-1]", "pf[1:][::-1].to_pandas()", "part(full, offs, %r)" % (list(range(1, nrg))[::-1],))
        add("slice+pick", "[::-1][0]", "pf[::-1][0].to_pandas()", "part(full, offs, [%d])" % (nrg - 1))
        add("slice+slice", "[::2][1:]", "pf[::2][1:].to_pandas()", "part(full, offs, %r)" % (list(range(nrg))[::2][1:],))
    if info["simple"]:
        add("filelike+slice", "[-1]", "fastparquet.ParquetFile(open(path, 'rb'))[-1].to_pandas()" if nrg else "pf.to_pandas()",
            "part(full, offs, [%d])" % (nrg - 1) if nrg else "full")
        add("filelike+head", "n=3", "fastparquet.ParquetFile(open(path, 'rb')).head(3)", "full.iloc[:3]")
        if c2:
            add("filelike+columns", "2", "fastparquet.ParquetFile(open(path, 'rb')).to_pandas(columns=%r)" % (c2,), "full[%r]" % (c2,), True)
        add("filelike+pickle", "full", "pickle.loads(pickle.dumps(fastparquet.ParquetFile(path))).to_pandas()", "full")
    # 10. compositions of reads on ONE handle opened from ONE file-like object (open file / BytesIO); the caller's
    #     object must still be open after every step
    if info["simple"]:
        for kind in ("file", "bytesio"):
            for name, steps in filelike_chains(info).items():
                add("filelike-chain", "%s:%s" % (kind, name),
                    "on_filelike(fastparquet, path, %r, %r, %s, iv_full)" % (kind, steps, REF_SRC), "[]",
                    filelike=kind, steps=len(steps))
    if c2:
        add("copy+columns", "deepcopy", "copy.deepcopy(pf).to_pandas(columns=%r)" % (c2,), "full[%r]" % (c2,), True)
        add("index=False+columns", "2", "pf.to_pandas(index=False, columns=%r)" % (c2,),
            "full0[%r]" % (c2,), True)
        add("columns+head", "2", "pf.head(5, columns=%r)" % (list(reversed(c2)),), "full[%r].iloc[:5]" % (c2,), True)
    return P


# ---------------------------------------------------------------------------------------------

def dataset_info(fp, ds):
    pf = ds.open(fp)
    full = pf.to_pandas()
    nrg = len(pf.row_groups)
    rg_rows = [int(rg.num_rows) for rg in pf.row_groups]
    offs = [0]
    for n in rg_rows:
        offs.append(offs[-1] + n)
    cols = [str(c) for c in full.columns]
    parts = list(pf.cats)
    kinds = {}
    for c in cols:
        dt = full[c].dtype
        kinds[c] = ("category" if isinstance(dt, pd.CategoricalDtype) else
                    "nullable" if isinstance(dt, pd.core.arrays.masked.BaseMaskedDtype) else dt.kind)
    ixs = pf._get_index()
    index_col = ixs[0] if len(ixs) == 1 else None
    info = {"nrg": nrg, "rows": len(full), "cols": cols, "parts": parts, "rg_rows": rg_rows, "offs": offs, "kinds": kinds,
            "simple": pf.file_scheme == "simple" and os.path.isfile(ds.path), "foreign": ds.foreign,
            "index_col": index_col}
    info["catcols"] = [c for c in cols if kinds[c] == "category" and c not in parts][:2]
    # candidates for index=<name>: one column per kind (never a nullable one: reading it as index raises TypeError in
    # read_col on NA -> that is a different property; never object/multi)
    cand = {}
    for c in cols:
        if c in parts or kinds[c] in ("nullable", "O"):
            continue
        cand.setdefault(kinds[c], c)
    info["index_candidates"] = [] if (ds.foreign or len(full) == 0) else list(cand.values())
    return pf, full, info


def _empty_sel(got_src, nrg):
    import re
    m = re.search(r"\[(slice\([^)]*\))\]", got_src)
    return bool(m) and len(range(nrg)[eval(m.group(1))]) == 0


def _in_child(fn):
    """run fn() -> (what, iv) in a forked child; a child killed by the real library is a failed case"""
    import pickle
    r, w = os.pipe()
    pid = os.fork()
    if pid == 0:
        try:
            os.close(r)
            os.write(w, pickle.dumps(fn()))
        finally:
            os._exit(0)
    os.close(w)
    buf = b""
    while True:
        chunk = os.read(r, 65536)
        if not chunk:
            break
        buf += chunk
    os.close(r)
    _, st = os.waitpid(pid, 0)
    if not buf:
        return "the interpreter DIED (wait status %d) while the real library ran this program" % st, True
    return pickle.loads(buf)


def run_dataset(args):
    root, name, tier = args
    fp = import_fastparquet()
    ds = D.foreign_all([name[len("foreign:"):]])[0] if name.startswith("foreign:") else D.build_one(fp, root, name, write=False)
    pf, full, info = dataset_info(fp, ds)
    alias_ok = {k: D.index_alias_ok(fp, k) for k in ("i", "f", "b", "O", "M", "category")}
    env = dict(_ns)
    iv_full = True
    if not isinstance(full.index, (pd.RangeIndex, pd.MultiIndex)):
        k = full.index.dtype
        kind = "category" if isinstance(k, pd.CategoricalDtype) else ("M" if k.kind == "M" else k.kind)
        iv_full = alias_ok.get({"u": "i"}.get(kind, kind), True)
    env["iv_full"] = iv_full
    env.update({"pf": pf, "full": full, "full0": pf.to_pandas(index=False), "offs": info["offs"], "rg_rows": info["rg_rows"], "path": ds.path,
                "fastparquet": fp, "counts0": counts(pf)})
    res = []
    # a dataset whose categorical dictionary grows from row group to row group: reading its row groups in DESCENDING order leaves the
    # labels of the shortest dictionary with codes of the longer ones (known defect) and pandas then dies with SIGSEGV on access -
    # every program of such a dataset runs in a forked child, a dead child is a failed case
    grows = bool(ds.feats.get("cat_dictionary_grows"))
    for feats, got_src, exp_src, by_name in programs(info, tier):
        # the program fills ONE frame with the categorical column of several row groups taken in descending order (negative slice step;
        # not row group by row group, not counts only, not a column subset, not a head that stops inside the first row group read)
        desc = bool(re.search(r"slice\([^()]*, [^()]*, -1\)|::-1", got_src)) and not re.search(
            r"iter_row_groups|counts\(|columns=|head\((0|1)\)|\[::-1\]\[0\]", got_src)
        feats = dict(feats, cat_dictionary_grows=grows, descending_selection=desc)
        feats = dict(feats, ds=ds.name, scheme=pf.file_scheme, written_index=ds.index_kind if not ds.foreign else
                     ("file" if info["index_col"] else "none"), nparts=len(info["parts"]),
                     pandas_md=bool(pf.has_pandas_metadata),
                     restored_read=(("pickle." in got_src or "copy." in got_src) and
                                    (".to_pandas(" in got_src or ".head(" in got_src)),
                     empty_selection=_empty_sel(got_src, info["nrg"]))
        def evaluate():
            what, iv = None, True
            try:
                exp = eval(exp_src, env)
                got = eval(got_src, env)
                if isinstance(exp, pd.DataFrame):
                    if not isinstance(got.index, (pd.RangeIndex, pd.MultiIndex)):
                        k = got.index.dtype
                        kind = "category" if isinstance(k, pd.CategoricalDtype) else ("M" if k.kind == "M" else k.kind)
                        kind = {"u": "i"}.get(kind, kind)
                        iv = alias_ok.get(kind, True)
                    what = same(got, exp, by_name=by_name, index_values=iv)
                elif got != exp:
                    what = "%r != expected %r" % (got, exp)
            except Exception as e:
                what = "%s: %s" % (type(e).__name__, str(e)[:200])
            return what, iv
        what, iv = _in_child(evaluate) if grows else evaluate()
        if feats["access"] == "filelike-chain":
            iv = iv_full
        feats["index_values_compared"] = bool(iv)
        res.append((G, feats, what is None, what, info["rows"] > 0, (ds.name, got_src, exp_src, by_name, iv)))
    return res


def run_index_views(fp):
    res = []
    for kind in ("i", "f", "b", "O", "M", "category"):
        feats = {"index_kind": kind, "function": "dataframe.empty"}
        try:
            ok = D.index_alias_ok(fp, kind)
            what = None if ok else "a value written through views[<index name>] does not appear in df.index"
        except Exception as e:
            what = "%s: %s" % (type(e).__name__, str(e)[:200])
        res.append((G_IDX, feats, what is None, what, True, kind))
    return res


def _snippet(dsname, got_src, exp_src, by_name, iv):
    body = HELPERS_SRC + '''
full = pf.to_pandas()
full0 = pf.to_pandas(index=False)
rg_rows = [int(rg.num_rows) for rg in pf.row_groups]
offs = [0]
for _n in rg_rows:
    offs.append(offs[-1] + _n)
counts0 = counts(pf)
iv_full = %r
exp = %s
got = %s
if isinstance(exp, pd.DataFrame):
    msg = same(got, exp, by_name=%r, index_values=%r)
else:
    msg = None if got == exp else "%%r != expected %%r" %% (got, exp)
print("difference:", msg)
VIOLATED = msg is not None
''' % (iv, exp_src, got_src, by_name, iv)
    return D.make_snippet(dsname, body)


def _snippet_idx(kind):
    t = {"i": "int64", "f": "float64", "b": "bool", "O": "O", "M": "M8[ns]", "category": "category"}[kind]
    return '''import numpy as np, pandas as pd
import fastparquet
from fastparquet import dataframe
df, views = dataframe.empty(["int64", "float64"], 4, cols=["a", "b"], index_types=[%r], index_names=["k"]%s)
v = views["k"]
sent = %s
v[:] = sent
print("written through the view:", list(sent), " frame index:", list(df.index%s))
VIOLATED = list(df.index%s) != list(sent)
''' % (t, ", cats={'k': 3}" if kind == "category" else "",
       {"i": "np.array([3, 0, 2, 1])", "f": "np.array([3., 0., 2., 1.])", "b": "np.array([True, False, False, True])",
        "O": "np.array(['p', 'q', 'r', 's'], dtype=object)", "M": "np.array([1, 2, 3, 4]).astype('M8[ns]')",
        "category": "np.array([2, 1, 0, 2], dtype='int8')"}[kind],
       ".codes" if kind == "category" else (".values" if kind != "O" else ""),
       ".codes" if kind == "category" else (".values" if kind != "O" else ""))


def run_bounded(ctx):
    fp = import_fastparquet()
    ctx.bounded_group(G, rule=(
        "datasets %s + foreign %s x access programs: every single column, 5 permutations/subsets, partition+data "
        "mixes; pf[i] for every i and -1; up to 15 slices [i:j:k] incl. negative steps, empty and out-of-range; "
        "iter_row_groups plain / columns / categories / index=False; head(n) for EVERY n in 0..rows+1 (+ with "
        "columns); index=None|False|<name>|[<name>] for one column of each non-nullable kind; file object and "
        "BytesIO vs path; pickle / copy / deepcopy; reported counts (count, len, info, per row group) of the handle "
        "and of slices, parent unchanged after slicing; compositions: slice+columns, slice+pickle, pickle+slice, "
        "slice+iter, slice+index=False, slice+head, slice+slice, slice+pick, filelike+slice/head/columns/pickle, "
        "copy+columns, index=False+columns, columns+head; filelike-chain: for every single-file dataset x {open file, "
        "BytesIO}: up to 14 COMPOSITIONS of >= 2 reads on ONE handle built on ONE file-like object (full then full / "
        "iter / every pick / slices / heads / column subsets / index=False / counts, the same in the opposite order, "
        "iter twice, picks only, handles derived from the handle, a mixed chain of 10 reads), each step equal to its "
        "part of the path-based full read and the caller's file object still open after every step. MultiIndex (index=[a,b]) is not run (segfault under pandas "
        "3). distinct = (dataset, access kind, detail); nontrivial = dataset has rows." % (DATASETS, FOREIGN)))
    ctx.bounded_group(G_IDX, rule="dataframe.empty: for each index dtype kind {int, float, bool, object, datetime, category} a value "
                                  "written through the returned index view must show in the frame's index (6 cases)")
    with tmpdir("verif-c06-") as root:
        D.build_all(fp, root, DATASETS)
        tasks = [(root, n, ctx.tier) for n in DATASETS] + [(root, "foreign:" + f, ctx.tier) for f in FOREIGN]
        from runtime.harness import robust_map, WorkerDied
        results = robust_map(run_dataset, tasks, min(16, os.cpu_count() or 4))
        for k, r in enumerate(results):
            if isinstance(r, WorkerDied):      # the real library killed the process: a failing case, not a checker crash
                results[k] = [(G, {"ds": tasks[k][1], "kind": "process died"}, False, r.what(), True, None)]
    results.append(run_index_views(fp))
    for res in results:
        for group, feats, ok, what, nontrivial, rp in res:
            snip = None
            if not ok:
                snip = None if rp is None else (_snippet_idx(rp) if group == G_IDX else _snippet(*rp))
            with Case(ctx, group, feats, snippet=snip, nontrivial=nontrivial, contract=CONTRACT) as c:
                if not ok:
                    c.fail(what)
