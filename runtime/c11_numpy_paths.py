"""C11 bounded stand-in: the primitive codecs of fastparquet.cencoding / speedups / encoding / writer
agree with the Parquet specification on an explicitly enumerated lattice.

Contracts are explicit post-conditions evaluated on the results of the REAL (compiled) functions;
expected results come from the independent plain-python specification functions of spec.pqwrite
(uleb, pack_lsb, hybrid_encode, delta_encode, plain_encode and the mini decoders d_hybrid / d_delta,
themselves validated against third-party files in pqwrite.self_test()).

Every decoder contract has the same clauses:
    value     the first min(count, capacity) outputs equal the specification's values
    exact     the output cursor advanced by exactly min(count, capacity) items; output bytes inside the
              capacity but behind the cursor are untouched
    guard     16 guard bytes placed directly behind the output capacity are untouched
    cursor    the input cursor stands behind the bytes the specification says the run / stream occupies
Encoder contracts: produced bytes == specification bytes, and decode(encode(x)) == x by the
specification decoder.

Cases that may crash the interpreter (delta miniblock widths >= 29, NumpyIO.write) run in a forked child;
death by signal is a failed case.
"""
import os
import random
import struct
import sys
import time
from concurrent.futures import ProcessPoolExecutor

from runtime.harness import Case
from vlib.common import REPO

G = {k: "c11." + k for k in ("varint", "width", "read_rle", "read_bitpacked", "read_bitpacked1", "write_bitpacked1",
                              "hybrid", "delta", "encode_bitpacked", "byte_array", "read_plain", "bool_pack", "numpyio",
                              "text_plain")}
CONTRACT = "value / exact count / guard bytes / input cursor clauses against the plain-python specification (module docstring)"
GUARD = 16
GB = 0xA5
PATTERNS = ('zeros', 'ones', 'alt', 'rand')


def pattern_values(pattern, w, n, key):
    top = (1 << w) - 1
    if pattern == 'zeros' or w == 0:
        return [0] * n
    if pattern == 'ones':
        return [top] * n
    if pattern == 'alt':
        a = int('01' * 32, 2) & top
        b = int('10' * 32, 2) & top
        return [a if k % 2 == 0 else b for k in range(n)]
    rnd = random.Random("c11|%s" % (key,))
    return [rnd.randint(0, top) for _ in range(n)]


def cap_of(cls, n):
    return {'0': 0, '1': 1, 'n-1': max(n - 1, 0), 'n': n, 'n+1': n + 1}[cls] if isinstance(cls, str) else cls


class _Env:
    """Lazy imports inside workers (numpy, the real modules, the spec)."""
    def __init__(self):
        import numpy as np
        import fastparquet.cencoding as ce
        import fastparquet.speedups as sp
        import fastparquet.encoding as en
        from spec import pqwrite as W
        self.np, self.ce, self.sp, self.en, self.W = np, ce, sp, en, W

    def inp(self, b, junk=12):
        """Input NumpyIO over the bytes followed by junk (so that an over-read is visible as a cursor error, not a fault)."""
        arr = self.np.frombuffer(bytes(b) + bytes([0xEE]) * junk, dtype=self.np.uint8).copy()
        return self.ce.NumpyIO(arr), arr

    def out(self, nbytes):
        buf = self.np.full(nbytes + GUARD, GB, dtype=self.np.uint8)
        return self.ce.NumpyIO(buf[:nbytes]), buf


_ENV = None


def env():
    global _ENV
    if _ENV is None:
        _ENV = _Env()
    return _ENV


def _check_out(E, buf, o, nbytes_cap, expect_bytes, strict_tail=True):
    """exact + guard clauses. expect_bytes: the bytes the decoder must have produced."""
    n = len(expect_bytes)
    if bytes(buf[nbytes_cap:]) != bytes([GB]) * GUARD:
        return "guard bytes behind the output capacity were overwritten: %r" % bytes(buf[nbytes_cap:])
    if o.tell() != n:
        return "output cursor at %d, specification says %d bytes" % (o.tell(), n)
    if bytes(buf[:n]) != expect_bytes:
        got = bytes(buf[:n])
        k = next(i for i in range(n) if got[i] != expect_bytes[i])
        return "output differs from the specification at byte %d: got %s want %s" % (k, got[max(0, k - 4):k + 8].hex(), expect_bytes[max(0, k - 4):k + 8].hex())
    if strict_tail and bytes(buf[n:nbytes_cap]) != bytes([GB]) * (nbytes_cap - n):
        return "bytes behind the produced values (inside the capacity) were written"
    return None


def _items(vals, itemsize):
    if itemsize == 1:
        return bytes(v & 0xFF for v in vals)
    if itemsize == 4:
        return b''.join(struct.pack('<I', v & 0xFFFFFFFF) for v in vals)
    return b''.join(struct.pack('<Q', v & 0xFFFFFFFFFFFFFFFF) for v in vals)


# ------------------------------------------------------------------------------------------------
# the contracts (each returns None when it holds, else a message)
# ------------------------------------------------------------------------------------------------
def c_varint(p):
    E = env()
    x = p['x']
    want = E.W.uleb(x)
    # encoder
    cap = cap_of(p['cap'], len(want))
    o, buf = E.out(cap)
    E.ce.encode_unsigned_varint(x, o)
    msg = _check_out(E, buf, o, cap, want[:cap])
    if msg:
        return "encode_unsigned_varint(%d): %s" % (x, msg)
    # decoder
    f, _ = E.inp(want)
    got = E.ce.read_unsigned_var_int(f)
    if got != x:
        return "read_unsigned_var_int(%s) = %d, want %d" % (want.hex(), got, x)
    if f.tell() != len(want):
        return "read_unsigned_var_int cursor at %d, varint has %d bytes" % (f.tell(), len(want))
    return None


def c_width(p):
    E = env()
    got = E.ce.width_from_max_int(p['x'])
    return None if got == p['x'].bit_length() else "width_from_max_int(%d) = %d, want %d" % (p['x'], got, p['x'].bit_length())


def c_read_rle(p):
    E = env()
    w, count, itemsize = p['width'], p['count'], p['itemsize']
    v = pattern_values(p['pattern'], w, 1, (w, count))[0]
    nb = (w + 7) // 8
    f, _ = E.inp(v.to_bytes(nb, 'little'))
    cap = cap_of(p['cap'], count)
    o, buf = E.out(cap * itemsize)
    E.ce.read_rle(f, count << 1, w, o, itemsize)
    n = min(count, cap)
    msg = _check_out(E, buf, o, cap * itemsize, _items([v] * n, itemsize))
    if msg:
        return msg
    if f.tell() != nb:
        return "input cursor at %d, the run value occupies %d bytes" % (f.tell(), nb)
    return None


def c_read_bitpacked(p):
    E = env()
    w, groups, itemsize = p['width'], p['groups'], p['itemsize']
    n = groups * 8
    vals = pattern_values(p['pattern'], w, n, (w, groups))
    packed = E.W.pack_lsb(vals, w)
    f, _ = E.inp(packed)
    cap = cap_of(p['cap'], n)
    o, buf = E.out(cap * itemsize)
    E.ce.read_bitpacked(f, (groups << 1) | 1, w, o, itemsize)
    m = min(n, cap)
    msg = _check_out(E, buf, o, cap * itemsize, _items(vals[:m], itemsize))
    if msg:
        return msg
    if f.tell() != len(packed):
        return "input cursor at %d, the run occupies %d bytes" % (f.tell(), len(packed))
    return None


def c_read_bitpacked1(p):
    E = env()
    count = p['count']
    vals = pattern_values(p['pattern'], 1, count, ('bp1', count))
    packed = E.W.pack_lsb(vals, 1)
    f, _ = E.inp(packed)
    cap = cap_of(p['cap'], count)
    o, buf = E.out(cap)
    E.ce.read_bitpacked1(f, count, o)
    msg = _check_out(E, buf, o, cap, bytes(vals[:min(count, cap)]))
    if msg:
        return msg
    if f.tell() != (count + 7) // 8:
        return "input cursor at %d, %d bits occupy %d bytes" % (f.tell(), count, (count + 7) // 8)
    return None


def c_write_bitpacked1(p):
    """Inverse of read_bitpacked1: `count` 0/1 bytes -> LSB-first bits; input cursor += count, output += ceil(count/8)."""
    E = env()
    count = p['count']
    vals = pattern_values(p['pattern'], 1, count, ('wbp1', count))
    f, _ = E.inp(bytes(vals), junk=16)
    want = E.W.pack_lsb(vals, 1)
    o, buf = E.out(len(want))
    E.ce.write_bitpacked1(f, count, o)
    msg = _check_out(E, buf, o, len(want), want)
    if msg:
        return msg
    if f.tell() != count:
        return "input cursor at %d after packing %d one-byte values" % (f.tell(), count)
    return None


HYBRID_PLANS = {
    'rle': [('rle', 5)],
    'rle_long': [('rle', 200)],
    'bp': [('bp', 16)],
    'bp_partial': [('bp', 13)],
    'rle+bp': [('rle', 3), ('bp', 8)],
    'bp+rle': [('bp', 8), ('rle', 3)],
    'bp+bp+rle': [('bp', 8), ('bp', 16), ('rle', 9)],
    'rle1x5': [('rle', 1)] * 5,
    'mixed': [('bp', 8), ('rle', 2), ('bp', 16), ('rle', 70), ('bp', 5)],
}


def hybrid_stream(E, w, plan_name, pattern):
    plan = HYBRID_PLANS[plan_name]
    vals = []
    for i, (kind, c) in enumerate(plan):
        pv = pattern_values(pattern, w, c, (w, plan_name, i))
        vals += [pv[0]] * c if kind == 'rle' else pv
    body = E.W.hybrid_encode(vals, w, plan)
    total = sum(c if k == 'rle' else (c + 7) // 8 * 8 for k, c in plan)
    decoded = E.W.d_hybrid(body, w, total)[0]              # what the stream says (incl. the padding of a last group)
    return body, decoded, total


def c_hybrid(p):
    E = env()
    w, itemsize = p['width'], p['itemsize']
    body, decoded, total = hybrid_stream(E, w, p['plan'], p['pattern'])
    cap = cap_of(p['cap'], total)
    if p['length'] == 'prefix':
        f, _ = E.inp(struct.pack('<I', len(body)) + body)
        length, start = 0, 4
    else:
        f, _ = E.inp(body)
        length, start = len(body) + (7 if p['length'] == 'upper' else 0), 0
    o, buf = E.out(cap * itemsize)
    E.ce.read_rle_bit_packed_hybrid(f, w, length, o, itemsize)
    m = min(total, cap)
    msg = _check_out(E, buf, o, cap * itemsize, _items(decoded[:m], itemsize))
    if msg:
        return msg
    if cap >= total and f.tell() != start + len(body):
        return "input cursor at %d, the stream ends at %d" % (f.tell(), start + len(body))
    return None


def delta_case_values(bits, w, shape, count, pattern):
    """count integers whose encoding uses miniblock width exactly max(needed, w), relative deltas following `pattern`."""
    bs, mb = shape
    rel = pattern_values(pattern, w, max(count - 1, 0), ('delta', bits, w, shape, count))
    lo = -(1 << (bits - 1))
    vals = [7] if count else []
    mask = (1 << bits) - 1
    for r in rel:
        x = (vals[-1] + r - (3 if w < bits - 2 else 0)) & mask
        vals.append(x - (1 << bits) if x >> (bits - 1) else x)
    return vals


def c_delta(p):
    E = env()
    bits, w, shape, count = p['bits'], p['width'], tuple(p['shape']), p['count']
    vals = delta_case_values(bits, w, shape, count, p['pattern'])
    stream = E.W.delta_encode(vals, bits, E.W.DeltaLayout(shape[0], shape[1], w))
    want, used = E.W.d_delta(stream, bits)                  # specification decode of the very same bytes
    assert want == vals, "oracle disagreement (spec encoder vs spec decoder)"
    f, _ = E.inp(stream + bytes(80), junk=8)       # zero bytes behind the stream: the decoder looks one block header ahead
    isz = bits // 8
    cap = cap_of(p['cap'], count)
    o, buf = E.out(cap * isz)
    E.ce.delta_binary_unpack(f, o, 1 if bits == 64 else 0)
    m = min(count, cap)
    # delta_binary_unpack uses the output area as scratch for one miniblock of deltas: bytes between the output cursor and
    # the capacity may be touched (not part of the property); the input cursor is not part of the property either (the
    # decoder reads the next block header before it emits the last value)
    return _check_out(E, buf, o, cap * isz, _items(vals[:m], isz), strict_tail=False)


def c_encode_bitpacked(p):
    E = env()
    np = E.np
    w, n = p['width'], p['count']
    vals = pattern_values(p['pattern'], w, n, ('enc', w, n))
    arr = np.array([v - (1 << 32) if v >> 31 else v for v in vals], dtype=np.int32)
    groups = (n + 7) // 8
    spec_full = E.W.uleb((groups << 1) | 1) + E.W.pack_lsb(vals + [0] * (groups * 8 - n), w)
    hdr = len(E.W.uleb((groups << 1) | 1))
    need = hdr + (n * w + 7) // 8                    # bytes that carry the n values (a truncated last group is tolerated)
    pre = 4 if p['withlength'] else 0
    o, buf = E.out(pre + len(spec_full) + 8)
    if p['fn'] == 'encode_rle_bp':
        E.ce.encode_rle_bp(arr, w, o, 1 if p['withlength'] else 0)
    else:
        E.ce.encode_bitpacked(arr, w, o)
    got = bytes(buf[:o.tell()])
    if bytes(buf[pre + len(spec_full) + 8:]) != bytes([GB]) * GUARD:
        return "guard bytes overwritten"
    if p['withlength']:
        ln = struct.unpack('<I', got[:4])[0] if len(got) >= 4 else -1
        if ln != len(got) - 4:
            return "length prefix %d, body has %d bytes" % (ln, len(got) - 4)
        got = got[4:]
    if not (need <= len(got) <= len(spec_full)) or got != spec_full[:len(got)]:
        return "encoded %s, specification %s (first %d bytes must agree)" % (got.hex()[:80], spec_full.hex()[:80], need)
    back = E.W.d_hybrid(got + bytes(len(spec_full) - len(got)), w, n)[0]
    if back != vals:
        return "specification decoder does not give the input back"
    return None


def c_byte_array(p):
    E = env()
    np = E.np
    rnd = random.Random("ba|%s" % sorted(p.items()))
    lens = {'empty': [0], 'short': [0, 1, 2, 3], 'mixed': [0, 1, 7, 255, 256, 1000]}[p['lens']]
    n = p['count']
    if p['utf']:
        items = [''.join(rnd.choice('aé中\U0001F600 z') for _ in range(rnd.choice(lens) % 40)).encode('utf8') for _ in range(n)]
    else:
        items = [bytes(rnd.randrange(256) for _ in range(rnd.choice(lens))) for _ in range(n)]
    want = b''.join(struct.pack('<I', len(b)) + b for b in items)
    got = E.sp.pack_byte_array(list(items))
    if bytes(got) != want:
        return "pack_byte_array differs from concat(le32(len) ++ bytes)"
    take = cap_of(p['take'], n)
    if take > n:
        return None
    raw = np.frombuffer(want + b'\xEE' * 8, dtype=np.uint8)[:len(want)] if want else np.zeros(0, dtype=np.uint8)
    out = E.sp.unpack_byte_array(raw, take, 1 if p['utf'] else 0)
    if len(out) != take:
        return "unpack_byte_array returned %d items, %d requested" % (len(out), take)
    exp = [b.decode('utf8') if p['utf'] else b for b in items[:take]]
    if list(out) != exp or any(type(a) is not type(b) for a, b in zip(out, exp)):
        return "unpack_byte_array items differ: %r vs %r" % (list(out)[:3], exp[:3])
    if p['utf']:
        arr = np.empty(n, dtype=object)
        arr[:] = [b.decode('utf8') for b in items]
        enc = E.sp.array_encode_utf8(arr)
        if list(enc) != items:
            return "array_encode_utf8 differs from str.encode('utf8')"
    return None


def c_read_plain(p):
    E = env()
    np = E.np
    t, n = p['ptype'], p['count']
    rnd = random.Random("plain|%s|%d" % (t, n))
    tid = E.W.PTYPES.index(t)
    if t == 'BOOLEAN':
        vals = [bool(v) for v in pattern_values(p['pattern'], 1, n, ('plainbool', n))]
    elif t == 'INT32':
        vals = [rnd.choice([-2**31, 2**31 - 1, 0, -1, rnd.randint(-2**31, 2**31 - 1)]) for _ in range(n)]
    elif t == 'INT64':
        vals = [rnd.choice([-2**63, 2**63 - 1, 0, -1, rnd.randint(-2**63, 2**63 - 1)]) for _ in range(n)]
    elif t == 'INT96':
        vals = [bytes(rnd.randrange(256) for _ in range(12)) for _ in range(n)]
    elif t == 'FLOAT':
        vals = [struct.unpack('<f', struct.pack('<f', rnd.uniform(-1e9, 1e9)))[0] for _ in range(n)]
    elif t == 'DOUBLE':
        vals = [rnd.choice([0.0, -0.0, float('inf'), rnd.uniform(-1e300, 1e300)]) for _ in range(n)]
    elif t == 'BYTE_ARRAY':
        vals = [bytes(rnd.randrange(256) for _ in range(rnd.choice([0, 1, 5]))) for _ in range(n)]
    else:
        vals = [bytes(rnd.randrange(256) for _ in range(3)) for _ in range(n)]
    raw = E.W.plain_encode(vals, t, 3)
    if t == 'BOOLEAN' and p.get('via') == 'read_plain_boolean':
        got = E.en.read_plain_boolean(raw, n)
    else:
        got = E.en.read_plain(np.frombuffer(raw, dtype=np.uint8) if (t == 'BYTE_ARRAY' and raw) else raw, tid, n, 3)
    if len(got) != n:
        return "%d values returned, %d requested" % (len(got), n)
    if t in ('FLOAT', 'DOUBLE'):
        ok = [struct.pack('<d', float(x)) for x in got] == [struct.pack('<d', v) for v in vals]
    elif t == 'BOOLEAN':
        ok = got.dtype == np.bool_ and [bool(x) for x in got] == vals
    elif t in ('INT32', 'INT64'):
        ok = got.dtype.itemsize * 8 == int(t[3:]) and [int(x) for x in got] == vals
    else:
        ok = [bytes(x) if not isinstance(x, bytes) else x for x in got] == vals
        if t == 'FIXED_LEN_BYTE_ARRAY' or t == 'INT96':
            # numpy 'S' dtype strips trailing NULs on item access: compare the raw buffer instead
            ok = got.tobytes() == raw and got.dtype.itemsize == (12 if t == 'INT96' else 3)
    return None if ok else "read_plain(%s, %d values) differs from the specification: %r vs %r" % (t, n, list(got)[:4], vals[:4])


def c_bool_pack(p):
    E = env()
    import pandas as pd
    import fastparquet.writer as wr
    n = p['count']
    vals = [bool(v) for v in pattern_values(p['pattern'], 1, n, ('boolpack', n))]
    s = pd.Series(vals, dtype=bool)
    se, _ = wr.find_type(s)
    out = wr.encode_plain(s, se) if p['fn'] == 'encode_plain' else wr.convert(s, se).tobytes()
    want = E.W.pack_lsb([1 if v else 0 for v in vals], 1)
    # the writer may append ONE zero padding byte when n is a multiple of 8 (tolerated: readers ignore trailing bytes)
    if bytes(out[:len(want)]) != want or len(out) > len(want) + 1 or any(out[len(want):]):
        return "packed %s, specification %s" % (bytes(out).hex()[:60], want.hex()[:60])
    back = E.en.read_plain_boolean(bytes(out), n)
    if [bool(x) for x in back] != vals:
        return "read_plain_boolean(encode(x)) != x"
    return None


# cells of the text / bytes PLAIN encoding cases: NUL characters at the end / start / middle, several trailing NULs,
# only NULs, empty cells, leading / trailing blanks, non-ASCII next to NULs
TEXT_POOLS = {
    'nul_end': ["ab\x00", "ab", "tail\x00\x00", "\x00", "\x00\x00\x00", "é\x00", "x \x00"],
    'nul_start_mid': ["\x00lead", "mid\x00dle", "\x00\x00ab", "a\x00b\x00c", "中\x00文"],
    'empty_blank': ["", " ", "trail ", " lead", "  ", "", "a"],
    'mixed': ["ab\x00", "", "\x00lead", "trail ", "mid\x00dle", "tail\x00\x00", "plain", "é€\U0001d11e", "\x00", " "],
    'plain': ["plain", "text", "é€", "zebra"],
}


def text_cells(p):
    pool = TEXT_POOLS[p['cells']]
    return [pool[(k * 3 + k // len(pool)) % len(pool)] for k in range(p['count'])]


def c_text_plain(p):
    """writer.convert / writer.encode_plain on a text (str / string / object dtype), bytes or string-labelled
    categorical-dictionary column: bytes == concat(le32(len(utf8(cell))) ++ utf8(cell)) and decoding gives the
    cells back (every cell, with its NUL characters and blanks)."""
    E = env()
    np = E.np
    import pandas as pd
    import fastparquet.writer as wr
    cells = text_cells(p)
    kind = p['dtype']
    if kind == 'bytes':
        s = pd.Series([c.encode('utf8') for c in cells], dtype=object)
    elif kind == 'cat_labels':
        # what write_column encodes as the dictionary page of a categorical column: its categories as a Series
        labels = list(dict.fromkeys(cells))
        s = pd.Series(pd.Categorical(labels, categories=labels).categories)
        cells = labels
    else:
        s = pd.Series(cells, dtype={'object': object}.get(kind, kind))
    s.name = 'x'
    se, _ = wr.find_type(s, object_encoding='bytes' if kind == 'bytes' else ('utf8' if s.dtype == object else None))
    items = [c.encode('utf8') for c in cells]
    want = b''.join(struct.pack('<I', len(b)) + b for b in items)
    conv = list(wr.convert(s, se))
    if [bytes(x) for x in conv] != items:
        k = next((i for i, (a, b) in enumerate(zip(conv, items)) if bytes(a) != b), min(len(conv), len(items)))
        return "writer.convert: element %d is %r, the cell's UTF-8 bytes are %r" % (
            k, conv[k] if k < len(conv) else None, items[k] if k < len(items) else None)
    got = bytes(wr.encode_plain(s, se))
    if got != want:
        return "writer.encode_plain emits %d bytes %s.., concat(le32(len) ++ utf8(cell)) is %d bytes %s.." % (
            len(got), got[:24].hex(), len(want), want[:24].hex())
    if p['count']:
        raw = np.frombuffer(got, dtype=np.uint8)
        back = E.en.read_plain(raw, E.W.PTYPES.index('BYTE_ARRAY'), len(cells), utf=kind != 'bytes')
        exp = items if kind == 'bytes' else cells
        if [bytes(x) if kind == 'bytes' else x for x in back] != exp:
            return "read_plain(encode_plain(cells)) != cells: %r vs %r" % (list(back)[:4], exp[:4])
    return None


def c_numpyio(p):
    E = env()
    np = E.np
    op = p['op']
    data = np.arange(1, 21, dtype=np.uint8)
    if op == 'read':
        f = E.ce.NumpyIO(data)
        f.seek(p['loc'])
        got = bytes(f.read(p['x']))
        x = p['x']
        want = bytes(data[p['loc']:]) if x < 0 else bytes(data[p['loc']:p['loc'] + x])
        if got != want or f.tell() != p['loc'] + len(want):
            return "NumpyIO.read(%d) at %d returned %d bytes (cursor %d); a file-like read gives %d bytes" % (
                x, p['loc'], len(got), f.tell(), len(want))
        return None
    if op == 'read_int':
        f = E.ce.NumpyIO(data)
        f.seek(p['loc'])
        got = f.read_int()
        if 20 - p['loc'] >= 4:
            ok = got == struct.unpack_from('<i', data.tobytes(), p['loc'])[0] and f.tell() == p['loc'] + 4
        else:
            ok = got == 0 and f.tell() == p['loc']
        return None if ok else "read_int at %d -> %d, cursor %d" % (p['loc'], got, f.tell())
    if op == 'read_byte':
        f = E.ce.NumpyIO(data)
        f.seek(p['loc'])
        got = f.read_byte()
        return None if (got == data[p['loc']] and f.tell() == p['loc'] + 1) else "read_byte at %d" % p['loc']
    if op == 'seek':
        f = E.ce.NumpyIO(data)
        f.seek(5)
        r = f.seek(p['x'], p['whence'])
        base = {0: 0, 1: 5, 2: 20}[p['whence']]
        want = min(max(base + p['x'], 0), 20)
        return None if (r == want and f.tell() == want) else "seek(%d, %d) -> %d, want %d" % (p['x'], p['whence'], r, want)
    if op in ('write_byte', 'write_int'):
        cap = p['cap']
        o, buf = E.out(cap)
        o.seek(p['loc'])
        if op == 'write_byte':
            o.write_byte(0x7B)
            fits, k, b = cap - p['loc'] >= 1, 1, b'\x7b'
        else:
            o.write_int(-2)
            fits, k, b = cap - p['loc'] >= 4, 4, struct.pack('<i', -2)
        want = bytearray([GB]) * (cap + GUARD)
        if fits:
            want[p['loc']:p['loc'] + k] = b
        if bytes(buf) != bytes(want) or o.tell() != p['loc'] + (k if fits else 0):
            return "%s at %d of %d: buffer %s cursor %d" % (op, p['loc'], cap, bytes(buf).hex(), o.tell())
        if bytes(o.so_far()) != bytes(want[:o.tell()]):
            return "so_far() differs"
        return None
    if op == 'write':
        o, buf = E.out(8)
        o.write(np.frombuffer(b'abc', dtype=np.int8))
        want = b'abc' + bytes([GB]) * (5 + GUARD)
        return None if (bytes(buf) == want and o.tell() == 3) else "NumpyIO.write(b'abc'): buffer %s cursor %d" % (bytes(buf).hex(), o.tell())
    raise KeyError(op)


CHECKERS = {'varint': c_varint, 'width': c_width, 'read_rle': c_read_rle, 'read_bitpacked': c_read_bitpacked,
            'read_bitpacked1': c_read_bitpacked1, 'write_bitpacked1': c_write_bitpacked1, 'hybrid': c_hybrid,
            'delta': c_delta, 'encode_bitpacked': c_encode_bitpacked, 'byte_array': c_byte_array,
            'read_plain': c_read_plain, 'bool_pack': c_bool_pack, 'numpyio': c_numpyio, 'text_plain': c_text_plain}


def risky(g, p):
    if g == 'delta':
        return p['width'] >= 29 or p['cap'] in ('0', 0)      # capacity 0: `o.loc -= 4` wraps the unsigned cursor
    if g == 'numpyio':
        return p['op'] == 'write'
    return False


def run_case(g, p, repo=None):
    """-> (ok, what).  Public: the replay snippets call it."""
    if repo and repo not in sys.path:
        sys.path.insert(0, repo)
    fn = CHECKERS[g]
    if risky(g, p):
        from runtime.c15_assembly import _in_fork
        return _in_fork(_guarded, fn, p)
    return _guarded(fn, p)


def _guarded(fn, p):
    try:
        msg = fn(p)
    except AssertionError:
        raise
    except Exception as e:
        return False, "raised %s: %s" % (type(e).__name__, str(e)[:160])
    return (msg is None), (msg or "")


# ------------------------------------------------------------------------------------------------
# enumeration
# ------------------------------------------------------------------------------------------------
def enumerate_cases(tier):
    th = tier == 'thorough'
    caps = ('0', '1', 'n-1', 'n', 'n+1')
    out = []

    def add(g, **p):
        out.append((g, p))

    # varints: every length 1..10, boundaries and interior, capacities
    for ln in range(1, 11):
        lo = 0 if ln == 1 else 1 << (7 * (ln - 1))
        hi = min((1 << (7 * ln)) - 1, (1 << 64) - 1)
        rnd = random.Random("varint%d" % ln)
        for x in sorted({lo, lo + 1, hi - 1, hi, (lo + hi) // 2, rnd.randint(lo, hi), rnd.randint(lo, hi)}):
            for cap in ('n', 'n+1') + (('0', '1', 'n-1') if x in (lo, hi) else ()):
                add('varint', x=x, length=ln, cap=cap)
    for k in range(0, 63):
        for x in {(1 << k) - 1, 1 << k, (1 << k) + 1}:
            if 0 <= x < 2**63:
                add('width', x=x)
    add('width', x=2**63 - 1)
    # RLE runs
    counts = (0, 1, 2, 7, 8, 9, 63, 64, 65)
    for w in range(0, 33):
        for count in counts:
            for pattern in PATTERNS:
                for itemsize in ((1, 4) if w <= 8 else (4,)):
                    for cap in (range(0, count + 2) if th else caps):
                        add('read_rle', width=w, count=count, pattern=pattern, itemsize=itemsize, cap=cap)
    # bit-packed runs
    for w in range(0, 33):
        for groups in ((0, 1, 2, 3, 8, 9) if th else (0, 1, 2, 9)):
            for pattern in PATTERNS:
                for itemsize in ((1, 4) if w <= 8 else (4,)):
                    n = groups * 8
                    for cap in (range(0, n + 2) if th else ('0', '1', 'n-1', 'n', 'n+1', 7, 9)):
                        if isinstance(cap, int) and not th and cap > n + 1:
                            continue
                        add('read_bitpacked', width=w, groups=groups, pattern=pattern, itemsize=itemsize, cap=cap)
    for count in range(0, 131):
        for pattern in PATTERNS:
            for cap in (range(0, count + 2) if th else caps):
                add('read_bitpacked1', count=count, pattern=pattern, cap=cap)
            add('write_bitpacked1', count=count, pattern=pattern)
    # hybrid streams
    for w in range(0, 33):
        for plan in HYBRID_PLANS:
            for pattern in (PATTERNS if th else ('ones', 'rand')):
                for itemsize in ((1, 4) if w <= 8 else (4,)):
                    for cap in caps:
                        for length in ('exact', 'prefix', 'upper'):
                            if length == 'upper' and cap == 'n+1':
                                continue          # an upper-bound length needs a full output to stop the decoder
                            if not th and length != 'exact' and cap not in ('n', 'n-1'):
                                continue
                            add('hybrid', width=w, plan=plan, pattern=pattern, itemsize=itemsize, cap=cap, length=length)
    # delta blocks
    shapes = ((128, 4), (128, 1), (256, 2), (256, 8))
    dcounts = (0, 1, 2, 31, 32, 33, 34, 63, 64, 65, 127, 128, 129, 130, 255, 256, 257, 258, 300) if th else (1, 2, 33, 65, 129, 130, 257)
    for bits in (64, 32):
        for w in range(0, bits + 1):
            for si, shape in enumerate(shapes):
                for ci, count in enumerate(dcounts):
                    if not th and (w + si + ci) % 4:
                        continue              # quick: a quarter of the (shape, count) grid per width, rotating
                    for pattern in (PATTERNS if th else ('ones', 'rand')):
                        for cap in (caps if th else ('n', 'n-1', 'n+1')):
                            if cap in ('0', '1') and count < 3:
                                continue
                            add('delta', bits=bits, width=w, shape=list(shape), count=count, pattern=pattern, cap=cap)
    # encoders
    for w in range(0, 33):
        for n in (0, 1, 7, 8, 9, 16, 17, 64, 65):
            for pattern in PATTERNS:
                add('encode_bitpacked', fn='encode_bitpacked', width=w, count=n, pattern=pattern, withlength=False)
                if n in (8, 9, 64):
                    add('encode_bitpacked', fn='encode_rle_bp', width=w, count=n, pattern=pattern, withlength=True)
                    add('encode_bitpacked', fn='encode_rle_bp', width=w, count=n, pattern=pattern, withlength=False)
    # byte arrays
    for n in (0, 1, 2, 3, 8, 50):
        for lens in ('empty', 'short', 'mixed'):
            for utf in (False, True):
                for take in ('n', 'n-1', '0', '1'):
                    add('byte_array', count=n, lens=lens, utf=utf, take=take)
    # PLAIN decoding
    for t in ('INT32', 'INT64', 'INT96', 'FLOAT', 'DOUBLE', 'BYTE_ARRAY', 'FIXED_LEN_BYTE_ARRAY'):
        for n in (0, 1, 2, 3, 8, 100):
            add('read_plain', ptype=t, count=n, pattern='rand')
    for n in range(0, 131):
        for pattern in PATTERNS:
            add('read_plain', ptype='BOOLEAN', count=n, pattern=pattern, via='read_plain')
            add('read_plain', ptype='BOOLEAN', count=n, pattern=pattern, via='read_plain_boolean')
            add('bool_pack', fn='convert', count=n, pattern=pattern)
            add('bool_pack', fn='encode_plain', count=n, pattern=pattern)
    # PLAIN encoding of text / bytes columns and of string category labels
    for dt in ('str', 'string', 'object', 'bytes', 'cat_labels'):
        for cells in TEXT_POOLS:
            for n in (0, 1, 2, 3, 7, 8, 50):
                add('text_plain', fn='encode_plain', dtype=dt, cells=cells, count=n)
    # NumpyIO cursor algebra
    for loc in (0, 1, 16, 17, 19, 20):
        for x in (-1, 0, 1, 3, 4):
            if loc + max(x, 0) <= 20:
                add('numpyio', op='read', loc=loc, x=x)
        add('numpyio', op='read_int', loc=loc)
        if loc < 20:
            add('numpyio', op='read_byte', loc=loc)
    for whence in (0, 1, 2):
        for x in (-25, -20, -5, -1, 0, 1, 15, 20, 30):
            if whence == 0 and x < 0 or (whence == 1 and 5 + x < 0) or (whence == 2 and 20 + x < 0):
                continue                      # the cursor is unsigned: negative targets are outside the contract
            add('numpyio', op='seek', x=x, whence=whence)
    for cap in (0, 1, 3, 4, 8):
        for loc in range(0, cap + 1):
            add('numpyio', op='write_byte', cap=cap, loc=loc)
            add('numpyio', op='write_int', cap=cap, loc=loc)
    add('numpyio', op='write')
    return out


def safe_prefix(w):
    """Number of leading values of one bit-packed run that a 32-bit accumulator can deliver (data independent):
    read_bitpacked ORs the next input byte in at bit position `left`; the first value that needs a byte at left >= 32 is lost."""
    if w <= 24:
        return 1 << 30
    if w == 32:
        return 0                                   # mask_for_bits(32) is (1 << 32) - 1 in 32-bit arithmetic
    left, right, k = 8, 0, 0
    while k < 64:
        if right > 8:
            left -= 8
            right -= 8
        elif left - right < w:
            if left >= 32:
                return k
            left += 8
        else:
            k += 1
            right += w
    return k


def features_of(g, p):
    f = {'fn': p.get('fn') or p.get('op') or g}
    for k, v in p.items():
        if k in ('fn',):
            continue
        f[k] = 'x'.join(map(str, v)) if isinstance(v, list) else v
    if g == 'read_bitpacked':
        n = p['groups'] * 8
        m = min(n, cap_of(p['cap'], n))
        f['produced'] = m
        # more values are produced than a 32-bit accumulator can deliver and the data is not all zero
        f['beyond_32bit_accumulator'] = bool(p['pattern'] != 'zeros' and m > safe_prefix(p['width']))
        f['bitpacked1_path'] = p['width'] == 1 and p['itemsize'] == 1
    if g == 'delta':
        cap = cap_of(p['cap'], p['count'])
        vpm = p['shape'][0] // p['shape'][1]
        # output smaller than the header's count AND the first value that does not fit lies in a miniblock that is present
        # with a non-zero width: the decoder then rewrites the last slot inside the capacity
        f['clamped_rewrite'] = bool(0 < cap < p['count'] and p['width'] > 0 and (cap % vpm != 0 or cap < p['count'] - 1))
    if g == 'hybrid':
        plan = HYBRID_PLANS[p['plan']]
        total = sum(c if k == 'rle' else (c + 7) // 8 * 8 for k, c in plan)
        cap = cap_of(p['cap'], total)
        pos, unsafe, w0 = 0, False, False
        for i, (k, c) in enumerate(plan):
            c8 = c if k == 'rle' else (c + 7) // 8 * 8
            if k == 'bp' and pos < cap:
                if p['pattern'] != 'zeros' and min(c8, cap - pos) > safe_prefix(p['width']):
                    unsafe = True
                # width 0: the run's prologue consumes a byte that is not there; visible when the cursor is checked
                # (output not smaller than the stream) or when a later run is still needed
                if p['width'] == 0 and (cap >= total or (i < len(plan) - 1 and pos + c8 < cap)):
                    w0 = True
            pos += c8
        f['has_bp'] = any(k == 'bp' for k, _ in plan)
        f['beyond_32bit_accumulator'] = unsafe
        f['width0_bitpacked_cursor'] = w0
    if 'x' in f and g in ('varint', 'width'):
        f['x'] = str(f['x'])
    return f


def snippet_for(g, p):
    return ("import sys\nsys.path.insert(0, %r)\nfrom runtime.c11_numpy_paths import run_case\n"
            "ok, what = run_case(%r, %r)\nprint(ok, what)\nVIOLATED = not ok\n"
            % (os.path.dirname(os.path.dirname(os.path.abspath(__file__))), g, p))


def _worker(args):
    batch, repo = args
    if repo not in sys.path:
        sys.path.insert(0, repo)
    from runtime.c15_assembly import resilient
    env()                                            # import the real modules before forking
    res = resilient(lambda it: _guarded(CHECKERS[it[1]], it[2]), batch, isolate=lambda it: risky(it[1], it[2]))
    return [(idx, ok, what) for (idx, g, p), (ok, what) in zip(batch, res)]


RULES = {
    'varint': "encode_unsigned_varint / read_unsigned_var_int: every varint length 1..10, 7 values per length (both ends, neighbours, middle, 2 random) x output capacities",
    'width': "width_from_max_int == bit_length for 2**k-1, 2**k, 2**k+1, k = 0..62, and 2**63-1",
    'read_rle': "read_rle: widths 0..32 x run lengths 0,1,2,7,8,9,63,64,65 x 4 value patterns x item sizes 1 (w<=8), 4 x capacities 0,1,n-1,n,n+1 (thorough: 0..n+1)",
    'read_bitpacked': "read_bitpacked: widths 0..32 x groups of 8 (quick 0,1,2,9; thorough 0,1,2,3,8,9) x 4 patterns x item sizes x capacities (thorough every 0..n+1)",
    'read_bitpacked1': "read_bitpacked1: counts 0..130 x 4 patterns x capacities",
    'write_bitpacked1': "write_bitpacked1 as inverse of read_bitpacked1: counts 0..130 x 4 patterns",
    'hybrid': "read_rle_bit_packed_hybrid: widths 0..32 x 9 run plans (RLE only, bit-packed only, padded last group, both orders, 3 runs, 1-value runs, 5-run mixture) x patterns x item sizes x capacities x length = exact | 0 (4-byte prefix) | upper bound",
    'delta': "delta_binary_unpack: INT64 widths 0..64 and INT32 widths 0..32 x shapes 128x4,128x1,256x2,256x8 x counts around miniblock/block multiples (quick: rotating quarter of the grid) x patterns x capacities n-1,n,n+1; widths >= 29 in a forked child",
    'encode_bitpacked': "encode_bitpacked / encode_rle_bp (with and without length prefix): widths 0..32 x counts 0,1,7,8,9,16,17,64,65 x 4 patterns; bytes == specification (a truncated last group tolerated) and specification decode gives the input back",
    'byte_array': "pack_byte_array / unpack_byte_array / array_encode_utf8: counts 0,1,2,3,8,50 x length mixes x bytes/utf8 x items requested n, n-1, 0, 1",
    'read_plain': "encoding.read_plain for the 8 physical types (counts 0,1,2,3,8,100) and booleans for every count 0..130 x 4 patterns via read_plain and read_plain_boolean",
    'bool_pack': "writer.convert / writer.encode_plain boolean packing: every count 0..130 x 4 patterns == LSB-first bit packing (one trailing zero byte tolerated) and read_plain_boolean gives the input back",
    'text_plain': "writer.convert / writer.encode_plain on text columns of dtype str / string / object, bytes columns and the label Series of a string categorical: 5 cell pools (NUL characters at the end - one, several, only NULs -, at the start / in the middle, empty cells and leading / trailing blanks, a mixture with non-ASCII, plain text) x counts 0,1,2,3,7,8,50: every converted element == the cell's UTF-8 bytes, emitted bytes == concat(le32(len) ++ utf8(cell)), read_plain gives the cells back",
    'numpyio': "NumpyIO cursor algebra: read (x = -1,0,1,3,4 at 6 positions), read_int, read_byte, seek (3 whences), write_byte / write_int at every position of capacities 0,1,3,4,8 with guard bytes, write (forked child)",
}


def run_bounded(ctx):
    from spec import pqwrite
    t0 = time.time()
    st = pqwrite.self_test()
    ctx.note("spec.pqwrite self-test: %s" % st)
    for k, g in G.items():
        ctx.bounded_group(g, rule=RULES[k] + " [bound as stated]")
    cases = enumerate_cases(ctx.tier)
    indexed = [(i, g, p) for i, (g, p) in enumerate(cases)]
    nw = min(16, os.cpu_count() or 4)
    nb = nw * 4
    results = {}
    with ProcessPoolExecutor(max_workers=nw) as ex:
        for res in ex.map(_worker, [(indexed[k::nb], REPO) for k in range(nb) if indexed[k::nb]]):
            for idx, ok, what in res:
                results[idx] = (ok, what)
    for i, (g, p) in enumerate(cases):
        ok, what = results[i]
        if ok is None:
            ctx.engine_error("%s %s: %s" % (g, p, what))
            continue
        nontrivial = not (p.get('count') == 0 or p.get('groups') == 0)
        with Case(ctx, G[g], features_of(g, p), contract=CONTRACT, nontrivial=nontrivial) as c:
            if not ok:
                c.snippet = snippet_for(g, p)
                c.fail(what)
    ctx.note("c11: %d cases in %.1f s" % (len(cases), time.time() - t0))
